"""A small Python -> Lean 4 translator for the decision functions of src/serif/typing.py (and a few pure
expressions elsewhere).  It is NOT a general translator: it understands exactly the idioms those functions are
written in (if/elif/else chains ending in `return`, local assignments, `is` / `is not` / `==` / `!=` / `in (..)`,
`and` / `or` / `not`, `isinstance` / `issubclass` / `type(x)`, `DataType(...)` construction, one accumulating `for`
loop) and refuses everything else (TranslateError).  The generated definitions live in lean/Serif/Gen/Translated.lean;
lean/Serif/Props/Tie.lean proves them equal to the hand-written model, for all inputs.

Semantic domain (lean/Serif/Gen/PySupport.lean, hand-written, 30 lines): a scalar is seen through its exact type
`Tag`; `type(value)` is `value.typeOf`; `isinstance(value, C)` is subclassing on kinds (bool ⊂ int, datetime ⊂ date,
everything ⊂ object; user classes are unrelated); `warnings.warn(...)` has no effect on the result.
"""
import ast, os, textwrap

KINDS = {"bool": "Kind.bool", "int": "Kind.int", "float": "Kind.float", "complex": "Kind.complex", "str": "Kind.str",
         "bytes": "Kind.bytes", "date": "Kind.date", "datetime": "Kind.datetime", "list": "Kind.list", "dict": "Kind.dict",
         "tuple": "Kind.tuple", "object": "Kind.object"}


class TranslateError(Exception):
    pass


class Ctx:
    def __init__(self, self_name=None, optional=(), properties=(), funcs=None):
        self.self_name = self_name
        self.optional = set(optional)          # variables currently of type Option _
        self.properties = dict(properties)     # self.<prop> -> Lean function name
        self.funcs = funcs or {}               # python function name -> Lean function name


def kinds_tuple(node):
    elts = node.elts if isinstance(node, ast.Tuple) else [node]
    out = []
    for e in elts:
        if isinstance(e, ast.Name) and e.id in KINDS:
            out.append(KINDS[e.id])
        else:
            raise TranslateError("class list with unknown class " + ast.dump(e))
    return "[" + ", ".join(out) + "]"


def expr(node, c):
    if isinstance(node, ast.Constant):
        if node.value is True:
            return "true"
        if node.value is False:
            return "false"
        if node.value is None:
            return "none"
        if isinstance(node.value, int):
            return f"({node.value} : Int)"
        raise TranslateError("constant " + repr(node.value))
    if isinstance(node, ast.Name):
        if node.id in KINDS:
            return KINDS[node.id]
        return node.id
    if isinstance(node, ast.Attribute):
        if isinstance(node.value, ast.Name):
            base = node.value.id
            if node.attr in ("kind", "nullable"):
                return f"{base}.{node.attr}"
            if node.attr in c.properties:
                return f"({c.properties[node.attr]} {base})"
        raise TranslateError("attribute " + ast.dump(node))
    if isinstance(node, ast.BoolOp):
        op = " && " if isinstance(node.op, ast.And) else " || "
        return "(" + op.join(expr(v, c) for v in node.values) + ")"
    if isinstance(node, ast.UnaryOp) and isinstance(node.op, ast.Not):
        return f"(!{expr(node.operand, c)})"
    if isinstance(node, ast.UnaryOp) and isinstance(node.op, ast.USub):
        return f"(-{expr(node.operand, c)})"
    if isinstance(node, ast.BinOp):
        l, r = expr(node.left, c), expr(node.right, c)
        if isinstance(node.op, ast.Add):
            return f"({l} + {r})"
        if isinstance(node.op, ast.Sub):
            return f"({l} - {r})"
        if isinstance(node.op, ast.Mult):
            return f"({l} * {r})"
        if isinstance(node.op, ast.FloorDiv):
            return f"(Int.fdiv {l} {r})"      # Python's // is floor division
        if isinstance(node.op, ast.Mod):
            return f"(Int.fmod {l} {r})"
        raise TranslateError("operator " + ast.dump(node.op))
    if isinstance(node, ast.IfExp):
        return f"(if {expr(node.test, c)} then {expr(node.body, c)} else {expr(node.orelse, c)})"
    if isinstance(node, ast.Compare) and len(node.ops) == 1:
        l, op, r = node.left, node.ops[0], node.comparators[0]
        if isinstance(op, (ast.Is, ast.IsNot)) and isinstance(r, ast.Constant) and r.value is None:
            e = expr(l, c)
            base = f"({e} == Tag.none)" if not (isinstance(l, ast.Name) and l.id in c.optional) else f"({e}).isNone"
            return base if isinstance(op, ast.Is) else f"(!{base})"
        if isinstance(op, (ast.Is, ast.Eq)):
            return f"({expr(l, c)} == {expr(r, c)})"
        if isinstance(op, (ast.IsNot, ast.NotEq)):
            return f"({expr(l, c)} != {expr(r, c)})"
        if isinstance(op, ast.In):
            return f"({kinds_tuple(r)}.contains {expr(l, c)})"
        if isinstance(op, ast.Gt):
            return f"(decide ({expr(l, c)} > {expr(r, c)}))"
        if isinstance(op, ast.Lt):
            return f"(decide ({expr(l, c)} < {expr(r, c)}))"
        raise TranslateError("comparison " + ast.dump(op))
    if isinstance(node, ast.Call):
        f = node.func
        if isinstance(f, ast.Name):
            if f.id == "type" and len(node.args) == 1:
                return f"({expr(node.args[0], c)}).typeOf"
            if f.id == "infer_kind" and len(node.args) == 1 and getattr(c, "kind_of", False):
                a = expr(node.args[0], c)
                return f"((inferKindT {a}).getD ({a}).typeOf)"
            if f.id == "isinstance" and len(node.args) == 2:
                return f"(Kind.isInstanceAny ({expr(node.args[0], c)}).typeOf {kinds_tuple(node.args[1])})"
            if f.id == "issubclass" and len(node.args) == 2:
                return f"(Kind.isSubclassAny {expr(node.args[0], c)} {kinds_tuple(node.args[1])})"
            if f.id == "DataType":
                k = expr(node.args[0], c)
                n = "false"
                if len(node.args) > 1:
                    n = expr(node.args[1], c)
                for kw in node.keywords:
                    if kw.arg == "nullable":
                        n = expr(kw.value, c)
                return f"({{ kind := {k}, nullable := {n} }} : DType)"
            if f.id in ("max", "min") and len(node.args) == 2:
                return f"({f.id} {expr(node.args[0], c)} {expr(node.args[1], c)})"
            if f.id in c.funcs:
                return "(" + c.funcs[f.id] + " " + " ".join(expr(a, c) for a in node.args) + ")"
        if isinstance(f, ast.Attribute) and f.attr in c.funcs and isinstance(f.value, ast.Name):
            return "(" + c.funcs[f.attr] + " " + f.value.id + " " + " ".join(expr(a, c) for a in node.args) + ")"
        raise TranslateError("call " + ast.dump(node)[:120])
    raise TranslateError("expression " + ast.dump(node)[:120])


def always_returns(stmts):
    for s in stmts:
        if isinstance(s, ast.Return):
            return True
        if isinstance(s, ast.If) and s.orelse and always_returns(s.body) and always_returns(s.orelse):
            return True
        if isinstance(s, ast.Raise):
            return True
    return False


def is_noise(s):
    """statements without influence on the returned value"""
    if isinstance(s, ast.Expr) and isinstance(s.value, ast.Constant):
        return True                                   # docstring
    if isinstance(s, ast.Expr) and isinstance(s.value, ast.Call):
        return True                                   # warnings.warn(...)
    return False


def assigned_var(stmts):
    """if the statement list is a pure assignment chain to ONE local variable, return its name"""
    names = set()
    for s in stmts:
        if isinstance(s, ast.Assign) and len(s.targets) == 1 and isinstance(s.targets[0], ast.Name):
            names.add(s.targets[0].id)
        elif isinstance(s, ast.If):
            for part in (s.body, s.orelse):
                v = assigned_var(part)
                if v is None:
                    return None
                names.add(v)
        elif is_noise(s):
            continue
        else:
            return None
    return names.pop() if len(names) == 1 else None


def assign_value(stmts, var, c):
    """value of `var` after a pure assignment chain"""
    val = None
    for s in stmts:
        if isinstance(s, ast.Assign):
            val = expr(s.value, c)
        elif isinstance(s, ast.If):
            orelse = assign_value(s.orelse, var, c) if s.orelse else val
            if orelse is None:
                raise TranslateError("variable may be unassigned")
            val = f"(if {expr(s.test, c)} then {assign_value(s.body, var, c)} else {orelse})"
    return val


def opt_test(node, c):
    """`X is None` / `X is not None` on an Optional variable -> (name, is_none_first)"""
    if isinstance(node, ast.Compare) and len(node.ops) == 1 and isinstance(node.comparators[0], ast.Constant) \
            and node.comparators[0].value is None and isinstance(node.left, ast.Name) and node.left.id in c.optional:
        return node.left.id, isinstance(node.ops[0], ast.Is)
    return None


def block(stmts, c, ret_wrap=lambda e: e, indent=2):
    """translate a statement list that ends by returning on every path into one Lean term"""
    pad = " " * indent
    stmts = [s for s in stmts if not is_noise(s)]
    if not stmts:
        raise TranslateError("path without return")
    s, rest = stmts[0], stmts[1:]
    if isinstance(s, ast.Return):
        return pad + ret_wrap(expr(s.value, c))
    if isinstance(s, ast.Assign) and len(s.targets) == 1 and isinstance(s.targets[0], ast.Name):
        return pad + f"let {s.targets[0].id} := {expr(s.value, c)}\n" + block(rest, c, ret_wrap, indent)
    if isinstance(s, ast.Try):
        # try: return X  except TypeError: return False   — the guarded call cannot raise on classes
        return block(s.body + rest, c, ret_wrap, indent)
    if isinstance(s, ast.If):
        ot = opt_test(s.test, c)
        if ot and always_returns(s.body):
            name, none_first = ot
            c2 = Ctx(c.self_name, c.optional - {name}, c.properties, c.funcs)
            a, b = (s.body, (s.orelse or []) + rest) if none_first else ((s.orelse or []) + rest, s.body)
            if not none_first and not always_returns(s.body):
                raise TranslateError("optional test shape")
            return (pad + f"match {name} with\n" + pad + "| none =>\n" + block(a, c, ret_wrap, indent + 4) + "\n"
                    + pad + f"| some {name} =>\n" + block(b, c2, ret_wrap, indent + 4))
        if always_returns(s.body) and not s.orelse:
            return (pad + f"if {expr(s.test, c)} then\n" + block(s.body, c, ret_wrap, indent + 2) + "\n" + pad + "else\n"
                    + block(rest, c, ret_wrap, indent + 2))
        if s.orelse and always_returns(s.body) and always_returns(s.orelse):
            return (pad + f"if {expr(s.test, c)} then\n" + block(s.body, c, ret_wrap, indent + 2) + "\n" + pad + "else\n"
                    + block(s.orelse, c, ret_wrap, indent + 2))
        var = assigned_var([s])
        if var is not None:
            return pad + f"let {var} := {assign_value([s], var, c)}\n" + block(rest, c, ret_wrap, indent)
        if always_returns(s.body) and s.orelse:
            return (pad + f"if {expr(s.test, c)} then\n" + block(s.body, c, ret_wrap, indent + 2) + "\n" + pad + "else\n"
                    + block(s.orelse + rest, c, ret_wrap, indent + 2))
    raise TranslateError("statement " + ast.dump(s)[:160])


def find_func(tree, name, cls=None):
    for node in ast.walk(tree):
        if cls and isinstance(node, ast.ClassDef) and node.name == cls:
            for sub in node.body:
                if isinstance(sub, ast.FunctionDef) and sub.name == name:
                    return sub
        if not cls and isinstance(node, ast.FunctionDef) and node.name == name:
            return node
    raise TranslateError(f"function {name} not found")


def _kind_ctx():
    c = Ctx()
    c.kind_of = True          # `infer_kind(x)` used as a class (after the None case has returned)
    return c


def translate_typing(src):
    """-> list of Lean definition strings (may raise TranslateError)"""
    tree = ast.parse(src)
    out = []
    props = {"is_numeric": "isNumericT", "is_temporal": "isTemporalT"}
    for pname, lname in props.items():
        f = find_func(tree, pname, "DataType")
        c = Ctx("self")
        out.append(f"/-- translated from `DataType.{pname}` -/\ndef {lname} (self : DType) : Bool :=\n" + block(f.body, c))
    f = find_func(tree, "infer_kind")
    c = Ctx()
    out.append("/-- translated from `infer_kind` (Python's `None` result is `none`) -/\ndef inferKindT (value : Tag) : Option Kind :=\n"
               + block(f.body, c, ret_wrap=lambda e: e if e == "none" else f"some ({e})"))
    f = find_func(tree, "promote_with", "DataType")
    c = Ctx("self", properties=props)
    # `infer_kind(x)` used as a class (after the `is None` case has returned): the class it names; for None (unreachable there)
    # the translation falls back on `type(x)`
    c.kind_of = True
    out.append("/-- translated from `DataType.promote_with` -/\ndef promoteWithT (self : DType) (value : Tag) : DType :=\n" + block(f.body, c))
    f = find_func(tree, "validate_scalar")
    # validate_scalar returns the (possibly coerced) value or raises TypeError: translate to "accepts?"
    out.append("/-- translated from `validate_scalar`: `true` = returns, `false` = raises TypeError -/\n"
               "def validatesT (value : Tag) (dtype : DType) : Bool :=\n" + block_accepts(f.body, _kind_ctx()))
    out.append(translate_infer_dtype(find_func(tree, "infer_dtype")))
    return out


def block_accepts(stmts, c, indent=2):
    """like `block`, for a function whose result is 'returns normally' (true) vs 'raises' (false)"""
    pad = " " * indent
    stmts = [s for s in stmts if not is_noise(s)]
    if not stmts:
        raise TranslateError("path without return/raise")
    s, rest = stmts[0], stmts[1:]
    if isinstance(s, ast.Return):
        return pad + "true"
    if isinstance(s, ast.Raise):
        return pad + "false"
    if isinstance(s, ast.Assign) and len(s.targets) == 1 and isinstance(s.targets[0], ast.Name):
        return pad + f"let {s.targets[0].id} := {expr(s.value, c)}\n" + block_accepts(rest, c, indent)
    if isinstance(s, ast.If):
        els = (s.orelse or []) + ([] if (s.orelse and always_returns(s.orelse)) else rest)
        body = s.body + ([] if always_returns(s.body) else rest)
        return (pad + f"if {expr(s.test, c)} then\n" + block_accepts(body, c, indent + 2) + "\n" + pad + "else\n"
                + block_accepts(els, c, indent + 2))
    if isinstance(s, ast.Try) and not s.orelse and not s.finalbody and s.handlers and always_returns(s.body) \
            and all(always_returns(h.body) for h in s.handlers):
        # `try: return f(value) / except E: return g(value)`: whichever path runs, the outcome (returns / raises) must be the
        # same for the translation to say anything without modelling when `f` raises `E`
        outcomes = {block_accepts(s.body, c, indent)} | {block_accepts(h.body, c, indent) for h in s.handlers}
        if len(outcomes) == 1:
            return outcomes.pop()
        raise TranslateError("try/except whose paths differ in outcome")
    raise TranslateError("statement " + ast.dump(s)[:160])


def translate_infer_dtype(f):
    """the accumulating loop of infer_dtype -> a step function over the loop state and a fold"""
    body = [s for s in f.body if not is_noise(s)]
    # expected shape: dtype = None ; leading_none = False ; for v in values: <body> ; if dtype is None: return D ; return dtype
    inits, loop, tail = {}, None, []
    for s in body:
        if loop is None and isinstance(s, (ast.Assign, ast.AnnAssign)):
            tgt = s.targets[0] if isinstance(s, ast.Assign) else s.target
            inits[tgt.id] = s.value
        elif isinstance(s, ast.For) and loop is None:
            loop = s
        else:
            tail.append(s)
    if loop is None or set(inits) != {"dtype", "leading_none"}:
        raise TranslateError("infer_dtype: unexpected shape (state variables %s)" % sorted(inits))
    v = loop.target.id
    c = Ctx(optional={"dtype"}, funcs={"infer_kind": "inferKindT", "promote_with": "promoteWithT"})

    def state_block(stmts, c, indent):
        """statement list that only updates dtype / leading_none -> Lean term of type InferStT"""
        pad = " " * indent
        stmts = [s for s in stmts if not is_noise(s)]
        if not stmts:
            return pad + "{ dtype := dtype, leading_none := leading_none }"
        s, rest = stmts[0], stmts[1:]
        if isinstance(s, ast.Assign) and len(s.targets) == 1 and isinstance(s.targets[0], ast.Name):
            name = s.targets[0].id
            if name == "dtype":
                val = expr(s.value, c)
                c2 = Ctx(c.self_name, c.optional | {"dtype"}, c.properties, c.funcs)
                return pad + f"let dtype : Option DType := some {val}\n" + state_block(rest, c2, indent)
            if name == "leading_none":
                return pad + f"let leading_none : Bool := {expr(s.value, c)}\n" + state_block(rest, c, indent)
            # a local that may be Optional (result of infer_kind)
            c2 = Ctx(c.self_name, c.optional | ({name} if isinstance(s.value, ast.Call) and getattr(s.value.func, "id", "") == "infer_kind" else set()),
                     c.properties, c.funcs)
            return pad + f"let {name} := {expr(s.value, c)}\n" + state_block(rest, c2, indent)
        if isinstance(s, ast.If):
            ot = opt_test(s.test, c)
            if ot:
                name, none_first = ot
                c2 = Ctx(c.self_name, c.optional - {name}, c.properties, c.funcs)
                a, b = (s.body, s.orelse) if none_first else (s.orelse, s.body)
                return (pad + f"match {name} with\n" + pad + "| none =>\n" + state_block(list(a) + rest, c, indent + 4) + "\n"
                        + pad + f"| some {name} =>\n" + state_block(list(b) + rest, c2, indent + 4))
            return (pad + f"if {expr(s.test, c)} then\n" + state_block(list(s.body) + rest, c, indent + 2) + "\n" + pad + "else\n"
                    + state_block(list(s.orelse) + rest, c, indent + 2))
        raise TranslateError("infer_dtype loop statement " + ast.dump(s)[:120])

    # dtype inside the `some dtype` arm is a DType; re-wrap when stored back
    step = state_block(loop.body, c, 2)
    step = step.replace("{ dtype := dtype, leading_none := leading_none }", "{ dtype := DTYPE_PLACEHOLDER, leading_none := leading_none }")
    # after `match dtype with | some dtype =>` without reassignment the state keeps `some dtype`; our loop body always
    # reassigns dtype in that arm, so the placeholder is simply the current binding
    step = step.replace("DTYPE_PLACEHOLDER", "dtype")
    ctail = Ctx(optional={"dtype"})
    fin = block(tail, ctail, indent=2)
    init_d = expr(inits["dtype"], c)
    init_l = expr(inits["leading_none"], c)
    return ("/-- loop state of `infer_dtype` -/\nstructure InferStT where\n  dtype : Option DType\n  leading_none : Bool\n\n"
            f"/-- translated from the body of the `for {v} in values` loop of `infer_dtype` -/\n"
            f"def inferStepT (st : InferStT) ({v} : Tag) : InferStT :=\n  let dtype := st.dtype\n  let leading_none := st.leading_none\n"
            + step + "\n\n"
            "/-- translated from `infer_dtype`: initial state, loop, final test -/\n"
            "def inferDtypeT (values : List Tag) : DType :=\n"
            f"  let st := values.foldl inferStepT {{ dtype := {init_d}, leading_none := {init_l} }}\n"
            "  let dtype := st.dtype\n" + fin)


def translate_slice_length(src):
    tree = ast.parse(src)
    f = find_func(tree, "slice_length")
    ret = [s for s in f.body if isinstance(s, ast.Return)]
    asg = [s for s in f.body if isinstance(s, ast.Assign)]
    if len(ret) != 1 or len(asg) != 1 or not isinstance(asg[0].targets[0], ast.Tuple):
        raise TranslateError("slice_length: unexpected shape")
    names = [e.id for e in asg[0].targets[0].elts]
    if ast.unparse(asg[0].value).replace(" ", "") not in ("s.indices(sequence_length)",):
        raise TranslateError("slice_length: the triple is not s.indices(sequence_length)")
    e = expr(ret[0].value, Ctx())
    e = e.replace("(0 : Int)", "0")
    return (f"/-- translated from the return expression of `typeutils.slice_length`, where\n"
            f"    `{', '.join(names)} = s.indices(sequence_length)` -/\n"
            f"def sliceLengthT ({' '.join(names)} : Int) : Int :=\n  {e}")


def translate_resolve_binary_name(src):
    """_resolve_binary_name(left_name, right_name) -> first component of the returned pair, over Option String"""
    tree = ast.parse(src)
    f = find_func(tree, "_resolve_binary_name")

    def e(node):
        if isinstance(node, ast.Name):
            return node.id
        if isinstance(node, ast.Constant) and node.value is None:
            return "none"
        if isinstance(node, ast.BoolOp):
            return "(" + (" && " if isinstance(node.op, ast.And) else " || ").join(e(v) for v in node.values) + ")"
        if isinstance(node, ast.Compare) and len(node.ops) == 1:
            l, op, r = node.left, node.ops[0], node.comparators[0]
            if isinstance(r, ast.Constant) and r.value is None and isinstance(op, (ast.Is, ast.IsNot)):
                return f"({e(l)}).isNone" if isinstance(op, ast.Is) else f"({e(l)}).isSome"
            if isinstance(op, ast.Eq):
                return f"({e(l)} == {e(r)})"
            if isinstance(op, ast.NotEq):
                return f"({e(l)} != {e(r)})"
        raise TranslateError("_resolve_binary_name expression " + ast.dump(node)[:100])

    def blk(stmts, indent=2):
        pad = " " * indent
        stmts = [s for s in stmts if not is_noise(s)]
        s, rest = stmts[0], stmts[1:]
        if isinstance(s, ast.Return):
            v = s.value
            if isinstance(v, ast.Tuple):
                v = v.elts[0]
            return pad + e(v)
        if isinstance(s, ast.If) and always_returns(s.body):
            return pad + f"if {e(s.test)} then\n" + blk(s.body, indent + 2) + "\n" + pad + "else\n" + blk((s.orelse or []) + rest, indent + 2)
        raise TranslateError("_resolve_binary_name statement")
    args = [a.arg for a in f.args.args]
    return ("/-- translated from `table._resolve_binary_name` (first component of the returned pair: the result name) -/\n"
            f"def resolveBinaryNameT ({' '.join(args)} : Option String) : Option String :=\n" + blk(f.body))


class _HashCallToVar(ast.NodeTransformer):
    """`self._hash_element(x)` / `Vector._hash_element(x)` -> `x`: the element hashes are the oracle inputs"""
    def visit_Call(self, node):
        self.generic_visit(node)
        if isinstance(node.func, ast.Attribute) and node.func.attr == "_hash_element" and len(node.args) == 1 \
                and isinstance(node.args[0], ast.Name):
            return node.args[0]
        return node


def _rolling_loop(stmts, name, doc, consts, init_fn=None, extra=""):
    """[init assigns…, For var in <seq>: assigns…, Return acc] -> Lean fold.  `consts` are names bound outside (P, B).
    `init_fn` translates the accumulator's initial value when it is not a plain arithmetic expression; `extra` are further
    parameters of the generated function."""
    stmts = [s for s in stmts if not is_noise(s)]
    inits, loop, ret = [], None, None
    for s in stmts:
        if isinstance(s, ast.Assign) and loop is None:
            inits.append(s)
        elif isinstance(s, ast.For) and loop is None:
            loop = s
        elif isinstance(s, ast.Return) and loop is not None and ret is None:
            ret = s
        else:
            raise TranslateError(f"{name}: unexpected statement {type(s).__name__}")
    if loop is None or ret is None or not isinstance(ret.value, ast.Name) or not isinstance(loop.target, ast.Name) or loop.orelse:
        raise TranslateError(f"{name}: not init/for/return")
    acc = ret.value.id
    init = None
    for s in inits:
        t = s.targets[0]
        if isinstance(t, ast.Name) and t.id == acc:
            init = init_fn(s.value) if init_fn else expr(s.value, Ctx())
        elif isinstance(t, ast.Name) and t.id in consts:
            pass                                    # P = self._FP_P / B = self._FP_B: parameters of the translation
        else:
            raise TranslateError(f"{name}: unexpected initialisation")
    if init is None:
        raise TranslateError(f"{name}: accumulator not initialised")
    v = loop.target.id
    lines = []
    for s in loop.body:
        if is_noise(s):
            continue
        if not (isinstance(s, ast.Assign) and len(s.targets) == 1 and isinstance(s.targets[0], ast.Name)):
            raise TranslateError(f"{name}: loop body statement {type(s).__name__}")
        val = _HashCallToVar().visit(s.value)
        lines.append(f"  let {s.targets[0].id} : Int := {expr(val, Ctx())}")
    cs = " ".join(consts)
    return (f"/-- translated from the loop body of {doc} (the element hash `_hash_element({v})` is the input `{v}`) -/\n"
            f"def {name}StepT ({cs} : Int) ({acc} : Int) ({v} : Int) : Int :=\n" + "\n".join(lines) + f"\n  {acc}\n\n"
            f"/-- translated from {doc}: initial value, loop, return -/\n"
            f"def {name}T ({cs} : Int) {extra}(xs : List Int) : Int :=\n  xs.foldl ({name}StepT {cs}) {init}")


def translate_fingerprint(vsrc, tsrc):
    vt, tt = ast.parse(vsrc), ast.parse(tsrc)
    out = []
    f = find_func(vt, "_compute_fingerprint_full", "Vector")
    out.append(_rolling_loop(f.body, "computeFingerprintFull", "`Vector._compute_fingerprint_full`", ["P", "B"]))
    # the container branch of _hash_element: `isinstance(x, (set, list, tuple))` with the accumulator seeded by kind and length
    # (or the older `isinstance(x, (list, tuple))` starting from 0)
    he = find_func(vt, "_hash_element", "Vector")
    branch = None
    for s in he.body:
        if isinstance(s, ast.If) and isinstance(s.test, ast.Call) and ast.unparse(s.test.func) == "isinstance" \
                and ast.unparse(s.test.args[0]) == "x" and isinstance(s.test.args[1], ast.Tuple) \
                and {"list", "tuple"} <= {ast.unparse(e) for e in s.test.args[1].elts} <= {"set", "list", "tuple"}:
            branch = s
    if branch is None:
        raise TranslateError("_hash_element: no list/tuple branch")
    body = [b for b in branch.body if not (isinstance(b, ast.Expr) and isinstance(b.value, ast.Constant))]
    seq = "x"
    if body and isinstance(body[0], ast.Assign) and ast.unparse(body[0].targets[0]) == "items":
        if ast.unparse(body[0].value) != "_safe_sortable_list(list(x)) if isinstance(x, set) else x":
            raise TranslateError("_hash_element: items")
        seq, body = "items", body[1:]            # a set is hashed through its sorted items (the sort stays an oracle)
    elif len(body) >= 2 and ast.unparse(body[0]) == "hashes = [Vector._hash_element(elem) for elem in x]" \
            and ast.unparse(body[1]) == "if isinstance(x, set):\n    hashes.sort()":
        # the item hashes first; a set folds them in ascending order (the input list `xs` is given in that order)
        seq, body = "hashes", body[2:]
    loops = [b for b in body if isinstance(b, ast.For)]
    if len(loops) != 1 or ast.unparse(loops[0].iter) != seq:
        raise TranslateError("_hash_element: container loop")

    def seed(node):
        if isinstance(node, ast.Constant) and isinstance(node.value, int) and not isinstance(node.value, bool):
            return f"({node.value} : Int)"
        if isinstance(node, ast.IfExp) and isinstance(node.test, ast.Call) and ast.unparse(node.test.func) == "isinstance" \
                and ast.unparse(node.test.args[0]) == "x" and ast.unparse(node.test.args[1]) in ("set", "tuple", "list"):
            k = {"set": 1, "tuple": 2, "list": 3}[ast.unparse(node.test.args[1])]
            return f"(if kind == {k} then {seed(node.body)} else {seed(node.orelse)})"
        if isinstance(node, ast.BinOp) and isinstance(node.op, (ast.Add, ast.Mult)):
            return f"({seed(node.left)} {'+' if isinstance(node.op, ast.Add) else '*'} {seed(node.right)})"
        if isinstance(node, ast.BinOp) and isinstance(node.op, ast.Mod) and ast.unparse(node.right) == "P":
            return f"(Int.fmod {seed(node.left)} P)"
        if isinstance(node, ast.Call) and ast.unparse(node) == f"len({seq})":
            return "((n : Nat) : Int)"
        raise TranslateError("_hash_element: starting value " + ast.unparse(node)[:60])

    seed_text = []

    def seed_call(node):
        seed_text.append(seed(node))
        return "(hashSequenceSeedT P kind xs.length)"

    loop_text = _rolling_loop(body, "hashSequence", "the container branch of `Vector._hash_element` (`kind`: 1 set — its sorted items —, "
                              "2 tuple, 3 list)", ["P", "B"], init_fn=seed_call, extra="(kind : Nat) ")
    out.append("/-- translated from the starting value of the accumulator in the container branch of `Vector._hash_element`\n"
               "    (`kind`: 1 set, 2 tuple, 3 list; `n` = the number of items) -/\n"
               f"def hashSequenceSeedT (P : Int) (kind n : Nat) : Int :=\n  {seed_text[0]}")
    out.append(loop_text)
    # Vector.fingerprint: memo logic.  `self._fp` is the state, `self._compute_fingerprint_full()` the parameter `compute`
    vf = find_func(vt, "fingerprint", "Vector")
    body = [s for s in vf.body if not is_noise(s)]
    if not (len(body) == 2 and isinstance(body[0], ast.If) and ast.unparse(body[0].test) == "self._fp is None"
            and not body[0].orelse and isinstance(body[1], ast.Return) and ast.unparse(body[1].value) == "self._fp"):
        raise TranslateError("Vector.fingerprint: unexpected shape")
    assigns = []
    def walk(stmts):
        for s in stmts:
            if isinstance(s, ast.If):
                # nested `if` may only prepare the power table
                if "_fp =" in ast.unparse(s).replace("self._fp_powers", ""):
                    raise TranslateError("Vector.fingerprint: conditional memo assignment")
                continue
            if isinstance(s, ast.Assign) and ast.unparse(s.targets[0]) == "self._fp":
                assigns.append(ast.unparse(s.value))
            elif isinstance(s, ast.Expr) and "_fp_powers" in ast.unparse(s) or is_noise(s):
                continue
            elif isinstance(s, ast.Expr) and ast.unparse(s).startswith("self._ensure_fp_powers"):
                continue
            else:
                raise TranslateError("Vector.fingerprint: statement " + ast.unparse(s)[:60])
    walk(body[0].body)
    if assigns != ["self._compute_fingerprint_full()"]:
        raise TranslateError("Vector.fingerprint: memo is not assigned the full computation")
    out.append("/-- translated from `Vector.fingerprint`: `fp` is `self._fp` on entry, `compute` the value of\n"
               "    `self._compute_fingerprint_full()`; returns (returned value, `self._fp` on exit) -/\n"
               "def vectorFingerprintT (compute : Int) (fp : Option Int) : Option Int × Option Int :=\n"
               "  let fp : Option Int := if (fp).isNone then some compute else fp\n"
               "  (fp, fp)")
    inv = find_func(vt, "_invalidate_fp", "Vector")
    ib = [s for s in inv.body if not is_noise(s)]
    if not (len(ib) == 1 and isinstance(ib[0], ast.Assign) and ast.unparse(ib[0]) == "self._fp = None"):
        raise TranslateError("_invalidate_fp: unexpected shape")
    tf = find_func(tt, "fingerprint", "Table")
    tb = [ast.unparse(s) for s in tf.body if not (isinstance(s, ast.Expr) and isinstance(s.value, ast.Constant))]
    if tb != ["self._invalidate_fp()", "return super().fingerprint()"]:
        raise TranslateError("Table.fingerprint: unexpected shape")
    out.append("/-- translated from `Table.fingerprint` (`self._invalidate_fp()` is `self._fp = None`; then `Vector.fingerprint`) -/\n"
               "def tableFingerprintT (compute : Int) (fp : Option Int) : Option Int × Option Int :=\n"
               "  let fp : Option Int := none\n"
               "  vectorFingerprintT compute fp")
    return out


# ---------------------------------------------------------------------------------------------
# Vector.__setitem__: the loop that works out the dtype accommodating every new value
# ---------------------------------------------------------------------------------------------
def translate_setitem_target(src):
    tree = ast.parse(src)
    f = find_func(tree, "__setitem__", "Vector")
    loops = [s for s in ast.walk(f) if isinstance(s, ast.For) and ast.unparse(s.iter) == "new_values" and ast.unparse(s.target) == "val"]
    if len(loops) != 1:
        raise TranslateError("__setitem__: loop over new_values")
    loop = loops[0]
    # the statement list that holds the loop: `target = self._dtype` must precede it, the two tests on `target` follow it
    holder = None
    for node in ast.walk(f):
        for fld in ("body", "orelse"):
            lst = getattr(node, fld, None)
            if isinstance(lst, list) and loop in lst:
                holder = lst
    k = holder.index(loop)
    if k == 0 or ast.unparse(holder[k - 1]) != "target = self._dtype":
        raise TranslateError("__setitem__: target is not initialised with self._dtype")

    def step(stmts, ind):
        pad = " " * ind
        stmts = [s for s in stmts if not is_noise(s)]
        if not stmts:
            return pad + ".ok target"
        s, rest = stmts[0], stmts[1:]
        if isinstance(s, ast.Continue):
            return pad + ".ok target"
        if isinstance(s, ast.Raise):
            if not ast.unparse(s.exc).startswith("SerifTypeError("):
                raise TranslateError("__setitem__: raises " + ast.unparse(s.exc)[:30])
            return pad + ".error Err.type"
        if isinstance(s, ast.Assign) and len(s.targets) == 1 and isinstance(s.targets[0], ast.Name):
            n, v = s.targets[0].id, ast.unparse(s.value)
            if n == "target" and v == "target.with_nullable(True)":
                e = "({ kind := target.kind, nullable := true } : DType)"
            elif n == "target" and v == "DataType(required_kind, target.nullable)":
                e = "({ kind := required_kind, nullable := target.nullable } : DType)"
            elif n == "required_kind" and v == "infer_dtype([val]).kind":
                e = "(inferDtypeT [val]).kind"
            else:
                raise TranslateError("__setitem__: assignment " + ast.unparse(s)[:50])
            return pad + f"let {n} := {e}\n" + step(rest, ind)
        if isinstance(s, ast.Try):
            # try: validate_scalar(val, target)   except TypeError: <handler>
            if not (len(s.body) == 1 and ast.unparse(s.body[0]) == "validate_scalar(val, target)" and len(s.handlers) == 1
                    and ast.unparse(s.handlers[0].type) == "TypeError" and not s.orelse and not s.finalbody):
                raise TranslateError("__setitem__: try shape")
            return (pad + "if validatesT val target then\n" + step(rest, ind + 2) + "\n" + pad + "else\n"
                    + step(s.handlers[0].body + rest, ind + 2))
        if isinstance(s, ast.If):
            t = ast.unparse(s.test)
            if t == "val is None":
                c = "(val == Tag.none)"
            elif t == "(target.kind, required_kind) not in _PROMOTABLE":
                c = "(!(promotable target.kind required_kind))"
            elif t == "(target.kind, required_kind) in _PROMOTABLE":
                c = "(promotable target.kind required_kind)"
            else:
                raise TranslateError("__setitem__: condition " + t[:50])
            return (pad + f"if {c} then\n" + step(s.body + rest, ind + 2) + "\n" + pad + "else\n" + step(s.orelse + rest, ind + 2))
        raise TranslateError("__setitem__: statement " + ast.unparse(s)[:50])

    body = step(loop.body, 2)
    after = [ast.unparse(s.test) for s in holder[k + 1:] if isinstance(s, ast.If)]
    if after != ["target.kind is not self._dtype.kind", "target.nullable and (not self._dtype.nullable)"]:
        raise TranslateError("__setitem__: tests after the loop: " + repr(after)[:80])
    return ["/-- translated from the body of the loop `for val in new_values` in `Vector.__setitem__` (`promotable a b` is\n"
            "    `(a, b) in _PROMOTABLE`; `validate_scalar` returning is `validatesT`, its TypeError the `else`; `.error` = the\n"
            "    `raise SerifTypeError`; a conversion that raises inside `validate_scalar` is outside this translation) -/\n"
            "def setitemTargetStepT (promotable : Kind → Kind → Bool) (target : DType) (val : Tag) : Except Err DType :=\n" + body,
            "/-- translated from `target = self._dtype; for val in new_values: …` -/\n"
            "def setitemTargetT (promotable : Kind → Kind → Bool) (dtype : DType) (new_values : List Tag) : Except Err DType :=\n"
            "  new_values.foldlM (setitemTargetStepT promotable) dtype",
            "/-- translated from the two tests after the loop: `if target.kind is not self._dtype.kind: self._promote(target.kind)` and\n"
            "    (on the dtype as it is then) `if target.nullable and not self._dtype.nullable: …with_nullable(True)` -/\n"
            "def setitemNeedsPromoteT (target dtype : DType) : Bool := (target.kind != dtype.kind)\n"
            "def setitemNeedsNullableT (target dtype : DType) : Bool := (target.nullable && (!dtype.nullable))"]


# ---------------------------------------------------------------------------------------------
# Table._build_column_map: the loop body, as a state transformer (accessor of this column, updated `seen`)
# ---------------------------------------------------------------------------------------------
def _assigned(stmts):
    out = []
    for s in stmts:
        if isinstance(s, ast.Assign):
            t = s.targets[0]
            if isinstance(t, ast.Name) and t.id not in out:
                out.append(t.id)
            elif isinstance(t, ast.Subscript) and isinstance(t.value, ast.Name) and t.value.id not in out:
                out.append(t.value.id)
        elif isinstance(s, ast.If):
            for v in _assigned(s.body) + _assigned(s.orelse):
                if v not in out:
                    out.append(v)
    return out


def translate_build_column_map(src):
    tree = ast.parse(src)
    f = find_func(tree, "_build_column_map", "Table")
    loop = [s for s in f.body if isinstance(s, ast.For)]
    if len(loop) != 1:
        raise TranslateError("_build_column_map: expected one loop")
    loop = loop[0]
    if ast.unparse(loop.target) != "(idx, col)" or ast.unparse(loop.iter) != "enumerate(self._underlying)":
        raise TranslateError("_build_column_map: loop header")
    inits = {ast.unparse(s.targets[0]): ast.unparse(s.value) for s in f.body if isinstance(s, ast.Assign)}
    if inits != {"column_map": "{}", "seen": "{}"}:
        raise TranslateError("_build_column_map: initial state")
    OPT = {"name"}           # variables of type Option Str in the current scope

    def sexpr(node, opt):
        """string-valued expression"""
        if isinstance(node, ast.Constant) and isinstance(node.value, str):
            return '"' + node.value + '".toList'
        if isinstance(node, ast.Name):
            if node.id in opt:
                raise TranslateError("optional used as string: " + node.id)
            return node.id
        if isinstance(node, ast.JoinedStr):
            parts = []
            for v in node.values:
                if isinstance(v, ast.Constant):
                    parts.append('"' + v.value + '".toList')
                elif isinstance(v, ast.FormattedValue) and isinstance(v.value, ast.Name) and v.conversion == -1 and v.format_spec is None:
                    parts.append("showNat idx" if v.value.id == "idx" else sexpr(v.value, opt))
                else:
                    raise TranslateError("f-string part")
            return "(" + " ++ ".join(parts) + ")"
        if isinstance(node, ast.IfExp):
            return f"(if {bexpr(node.test, opt)} then {sexpr(node.body, opt)} else {sexpr(node.orelse, opt)})"
        raise TranslateError("string expression " + ast.dump(node)[:80])

    def bexpr(node, opt):
        if isinstance(node, ast.Call) and isinstance(node.func, ast.Attribute) and node.func.attr == "endswith" \
                and len(node.args) == 1 and isinstance(node.args[0], ast.Constant) and len(node.args[0].value) == 1:
            return f"({sexpr(node.func.value, opt)}.getLast? == some '{node.args[0].value}')"
        if isinstance(node, ast.Compare) and len(node.ops) == 1 and isinstance(node.ops[0], ast.In) \
                and isinstance(node.comparators[0], ast.Name) and node.comparators[0].id == "seen":
            return f"(seen.contains {sexpr(node.left, opt)})"
        raise TranslateError("boolean expression " + ast.dump(node)[:80])

    def noise(s):
        if isinstance(s, ast.Expr):
            return True                                           # warnings.warn(...), col._mark_tame(), docstrings
        if isinstance(s, ast.Assign) and ast.unparse(s.targets[0]) == "other":
            return True                                           # only feeds the warning
        if isinstance(s, ast.If) and all(noise(x) for x in s.body) and not s.orelse:
            return True                                           # `if col._wild or other._wild: warn`
        return False

    LIVE = ["sanitized", "seen"]

    def block(stmts, opt, ind):
        pad = " " * ind
        stmts = [s for s in stmts if not noise(s)]
        if not stmts:
            return pad + "(" + ", ".join(LIVE) + ")"
        s, rest = stmts[0], stmts[1:]
        if isinstance(s, ast.Assign):
            t = s.targets[0]
            if isinstance(t, ast.Name) and ast.unparse(s.value) == "_sanitize_user_name(col._name)":
                return pad + f"let {t.id} := sanitize name\n" + block(rest, opt | {t.id}, ind)
            if isinstance(t, ast.Name):
                return pad + f"let {t.id} := {sexpr(s.value, opt)}\n" + block(rest, opt - {t.id}, ind)
            if isinstance(t, ast.Subscript) and ast.unparse(t.value) == "seen":
                return pad + f"let seen := {sexpr(t.slice, opt)} :: seen\n" + block(rest, opt, ind)
            if isinstance(t, ast.Subscript) and ast.unparse(t.value) == "column_map":
                if ast.unparse(s) != "column_map[sanitized] = idx":
                    raise TranslateError("column_map assignment")
                return block(rest, opt, ind)                       # the dict update is the caller's `upsert`
            raise TranslateError("assignment " + ast.unparse(s)[:60])
        if isinstance(s, ast.If):
            test = ast.unparse(s.test)
            m = None
            for var, pyv in (("name", "col._name"),) + tuple((v, v) for v in opt):
                if test == f"{pyv} is not None":
                    m = (var, s.body, s.orelse)
                elif test == f"{pyv} is None":
                    m = (var, s.orelse, s.body)
            if m:
                var, some_b, none_b = m
                return (pad + f"match {var} with\n" + pad + f"| some {var} =>\n" + block(some_b + rest, opt - {var}, ind + 2) + "\n"
                        + pad + "| none =>\n" + block(none_b + rest, opt - {var}, ind + 2))
            return (pad + f"if {bexpr(s.test, opt)} then\n" + block(s.body + rest, opt, ind + 2) + "\n" + pad + "else\n"
                    + block(s.orelse + rest, opt, ind + 2))
        raise TranslateError("statement " + type(s).__name__)

    body = block(loop.body, set(OPT), 2)
    return ["/-- translated from the loop body of `Table._build_column_map` (`name` is `col._name` lower-cased as `_sanitize_user_name`\n"
            "    sees it, `sanitize` is `_sanitize_user_name`, `seen` the keys of the dict `seen`); returns the accessor assigned to\n"
            "    `column_map[…] = idx` and the updated `seen` -/\n"
            "def buildColumnMapStepT (sanitize : List Char → Option (List Char)) (showNat : Nat → List Char)\n"
            "    (seen : List (List Char)) (idx : Nat) (name : Option (List Char)) : List Char × List (List Char) :=\n" + body,
            "/-- translated from `Table._build_column_map`: `column_map = {}`, `seen = {}`, the loop over `enumerate(self._underlying)` with\n"
            "    `column_map[sanitized] = idx` (a dict assignment: overwrite in place or append), `return column_map` -/\n"
            "def buildColumnMapT (sanitize : List Char → Option (List Char)) (showNat : Nat → List Char)\n"
            "    (names : List (Option (List Char))) : Dict (List Char) Nat :=\n"
            "  (names.zipIdx.foldl (fun (st : Dict (List Char) Nat × List (List Char)) p =>\n"
            "      let r := buildColumnMapStepT sanitize showNat st.2 p.2 p.1\n"
            "      (Dict.upsert st.1 r.1 (fun _ => p.2), r.2)) ([], [])).1"]


# ---------------------------------------------------------------------------------------------
# csv._infer_type and csv._read_csv_from_file
# ---------------------------------------------------------------------------------------------
def translate_csv(src):
    tree = ast.parse(src)
    f = find_func(tree, "_infer_type")
    arg = f.args.args[0].arg
    body = [s for s in f.body if not (isinstance(s, ast.Expr) and isinstance(s.value, ast.Constant))]

    def chain(stmts, stripped):
        if not stmts:
            raise TranslateError("_infer_type: falls off the end")
        s, rest = stmts[0], stmts[1:]
        if isinstance(s, ast.If) and not s.orelse and len(s.body) == 1 and isinstance(s.body[0], ast.Return):
            test = ast.unparse(s.test).replace('"', "'")
            if test != f"not {arg} or {arg}.strip() == ''" or ast.unparse(s.body[0].value) != "None":
                raise TranslateError("_infer_type: unexpected blank test " + test)
            return f"if O.blank {arg} then O.none\n  else " + chain(rest, stripped)
        if isinstance(s, ast.Assign) and ast.unparse(s) == f"{arg} = {arg}.strip()":
            return chain(rest, True)
        if isinstance(s, ast.Try) and len(s.body) == 1 and isinstance(s.body[0], ast.Return) and len(s.handlers) == 1 \
                and ast.unparse(s.handlers[0].type) == "ValueError" and all(isinstance(x, ast.Pass) for x in s.handlers[0].body) \
                and not s.orelse and not s.finalbody:
            call = ast.unparse(s.body[0].value)
            if call not in (f"int({arg})", f"float({arg})"):
                raise TranslateError("_infer_type: unexpected conversion " + call)
            if not stripped:
                raise TranslateError("_infer_type: conversion before strip()")
            fn = "int?" if call.startswith("int") else "float?"
            return f"(match O.{fn} {arg} with\n    | some r => r\n    | none => " + chain(rest, stripped) + ")"
        if isinstance(s, ast.Return) and ast.unparse(s.value) == arg:
            if not stripped:
                raise TranslateError("_infer_type: unstripped text returned")
            return f"O.text {arg}"
        raise TranslateError("_infer_type: statement " + ast.unparse(s)[:60])
    infer = ("/-- translated from `csv._infer_type` (`O` gives Python's scalar semantics on a cell text: blank test, `int()`, `float()` with\n"
             "    `none` = ValueError, the stripped text) -/\n"
             f"def inferTypeT {{τ ν : Type}} (O : Serif.Csv.Oracle τ ν) ({arg} : τ) : ν :=\n  " + chain(body, False))

    # ---- _read_csv_from_file: the part after `all_rows = list(reader)`
    g = find_func(tree, "_read_csv_from_file")
    txt = [ast.unparse(s) for s in g.body if not (isinstance(s, ast.Expr) and isinstance(s.value, ast.Constant))
           and not isinstance(s, (ast.Import, ast.ImportFrom))]
    want = [
        "reader = csv.reader(file_obj, delimiter=delimiter)",
        "all_rows = list(reader)",
        "if not all_rows:\n    return Table()",
        "if has_header:\n    header = all_rows[0]\n    rows = all_rows[1:]\nelse:\n    header = [f'col_{i}' for i in range(len(all_rows[0]))]\n    rows = all_rows",
        "if not rows:\n    return Table([Vector([], name=col) for col in header])",
        "num_cols = len(header)",
        "columns = []",
        "for col_idx in range(num_cols):\n    column_data = []\n    for row in rows:\n        if col_idx < len(row):\n            value = row[col_idx]\n"
        "            column_data.append(_infer_type(value))\n        else:\n            column_data.append(None)\n"
        "    columns.append(Vector(column_data, name=header[col_idx]))",
        "return Table(columns)",
    ]
    if txt != want:
        for a, b in zip(txt, want):
            if a != b:
                raise TranslateError("_read_csv_from_file: statement differs from the understood shape: " + a[:70].replace("\n", " / "))
        raise TranslateError("_read_csv_from_file: statement count")
    read = ("/-- translated from `csv._read_csv_from_file` after `all_rows = list(reader)`: empty input, header / generated names, header-only\n"
            "    input, and the two nested loops (`col_idx < len(row)` → `_infer_type(row[col_idx])`, else None) as maps -/\n"
            "def readCsvT {τ ν : Type} (O : Serif.Csv.Oracle τ ν) (has_header : Bool) (all_rows : List (List τ)) : List (Serif.Csv.Column ν) :=\n"
            "  if all_rows.isEmpty then []\n"
            "  else\n"
            "    let header : List String := if has_header then (all_rows.headD []).map O.raw\n"
            "      else (List.range (all_rows.headD []).length).map (fun i => \"col_\" ++ toString i)\n"
            "    let rows : List (List τ) := if has_header then all_rows.drop 1 else all_rows\n"
            "    if rows.isEmpty then header.map (fun col => { name := col, data := [] })\n"
            "    else\n"
            "      let num_cols := header.length\n"
            "      (List.range num_cols).map (fun col_idx =>\n"
            "        let column_data := rows.map (fun row =>\n"
            "          if col_idx < row.length then\n"
            "            match row[col_idx]? with\n"
            "            | some value => inferTypeT O value\n"
            "            | none => O.none\n"
            "          else O.none)\n"
            "        { name := header.getD col_idx \"\", data := column_data })")
    return [infer, read]


def generate(src_dir):
    """-> (lean text, list of (item, error))"""
    parts, errors = [], []
    items = [("typing", lambda: translate_typing(open(os.path.join(src_dir, "typing.py")).read())),
             ("slice_length", lambda: [translate_slice_length(open(os.path.join(src_dir, "typeutils.py")).read())]),
             ("resolve_binary_name", lambda: [translate_resolve_binary_name(open(os.path.join(src_dir, "table.py")).read())]),
             ("csv", lambda: translate_csv(open(os.path.join(src_dir, "csv.py")).read())),
             ("build_column_map", lambda: translate_build_column_map(open(os.path.join(src_dir, "table.py")).read())),
             ("fingerprint", lambda: translate_fingerprint(open(os.path.join(src_dir, "vector.py")).read(),
                                                           open(os.path.join(src_dir, "table.py")).read())),
             ("setitem_target", lambda: translate_setitem_target(open(os.path.join(src_dir, "vector.py")).read()))]
    for name, fn in items:
        try:
            parts += fn()
        except Exception as ex:      # TranslateError or anything unexpected: the item is simply not available
            errors.append((name, f"{type(ex).__name__}: {ex}"))
            parts.append(f"-- {name}: not translated ({type(ex).__name__})")
    text = ("/- GENERATED by harness/py2lean.py from /repo's working tree — do not edit.\n"
            "   Python source translated statement by statement; see Serif/Props/Tie.lean for the equivalence theorems. -/\n"
            "import Serif.Gen.PySupport\nimport Serif.Model.Csv\n\nnamespace Serif.Gen.T\nopen Serif\n\n" + "\n\n".join(parts) + "\n\nend Serif.Gen.T\n")
    return text, errors


if __name__ == "__main__":
    import sys
    t, e = generate(sys.argv[1] if len(sys.argv) > 1 else "/repo/src/serif")
    print(t)
    print(e, file=sys.stderr)


# ---------------------------------------------------------------------------------------------
# Table.inner_join / join / full_join: the build loop, the uniqueness test after it, the probe loop, the sweep
# ---------------------------------------------------------------------------------------------
def _u(node):
    return ast.unparse(node)


_LEAN_WORDS = {"matches", "from", "at", "end", "then", "else", "do", "fun", "let", "have", "show", "with", "open", "in", "by", "Type", "def"}


def _ln(name):
    """a Python local as a Lean identifier"""
    return name + "_" if name in _LEAN_WORDS else name


class _JoinMethod:
    """One join method. The translation keeps the *decisions* of the code — which row pairs are emitted, in which order,
    when the call raises — and abstracts the copying of cells: a group of loops that appends, for every left column, the
    cell of left row X (or None) and, for every right column, the cell of right row Y (or None) is one output row
    `(X?, Y?)` (the model's `Pair`; `Join.assemble` turns pairs into columns)."""

    def __init__(self, f, tag):
        self.f, self.tag = f, tag
        self.alias = {}          # local name -> ('get', dict) | ('add', set) | ('cells',)
        self.inits = {}
        for s in ast.walk(f):
            if isinstance(s, ast.Assign) and len(s.targets) == 1 and isinstance(s.targets[0], ast.Name):
                n, v = s.targets[0].id, _u(s.value)
                if v in ("right_index.get",):
                    self.alias[n] = ("get", "right_index")
                elif v == "matched_right_rows.add":
                    self.alias[n] = ("add", "matched_right_rows")
                elif v == "[col.append for col in result_data]":
                    self.alias[n] = ("cells",)
                elif v in ("{}", "set()"):
                    self.inits[n] = v
        need = {"right_index": "{}", "duplicates": "{}", "left_keys_seen": "set()"}
        if tag == "Full":
            need["matched_right_rows"] = "set()"
        for k, v in need.items():
            if self.inits.get(k) != v:
                raise TranslateError(f"{f.name}: initial value of {k}")
        for flag, side in (("check_right_unique", "right"), ("check_left_unique", "left")):
            ok = [s for s in f.body if isinstance(s, ast.Assign) and _u(s.targets[0]) == flag
                  and isinstance(s.value, ast.Compare) and _u(s.value.left) == "expect" and isinstance(s.value.ops[0], ast.In)]
            if len(ok) != 1:
                raise TranslateError(f"{f.name}: {flag} is not `expect in (...)` (its members are read by extract_consts)")

    # ---- expressions ------------------------------------------------------------------------
    def bexpr(self, node, optlists):
        if isinstance(node, ast.BoolOp):
            op = " && " if isinstance(node.op, ast.And) else " || "
            return "(" + op.join(self.bexpr(v, optlists) for v in node.values) + ")"
        if isinstance(node, ast.UnaryOp) and isinstance(node.op, ast.Not):
            return f"(!{self.bexpr(node.operand, optlists)})"
        if isinstance(node, ast.Name):
            if node.id in ("check_right_unique", "check_left_unique"):
                return node.id
            if node.id in optlists:
                return f"(pyTruthy {_ln(node.id)})"                     # None or an empty list is falsy
            if node.id == "duplicates":
                return "(!duplicates.isEmpty)"                     # truth value of a dict
        if isinstance(node, ast.Compare) and len(node.ops) == 1 and isinstance(node.comparators[0], ast.Name):
            l, r = _u(node.left), node.comparators[0].id
            if r in ("duplicates", "left_keys_seen", "matched_right_rows") and isinstance(node.left, ast.Name):
                lean = {"matched_right_rows": "matched"}.get(r, r)
                if isinstance(node.ops[0], ast.In):
                    return f"({lean}.contains {l})"
                if isinstance(node.ops[0], ast.NotIn):
                    return f"(!{lean}.contains {l})"
        raise TranslateError(f"{self.f.name}: condition {_u(node)[:60]}")

    def is_key_assign(self, s, cols, var):
        return isinstance(s, ast.Assign) and _u(s) == f"key = tuple((col[{var}] for col in {cols}))"

    def is_hash_guard(self, s):
        return (isinstance(s, ast.If) and _u(s.test) == "validate_hashable" and not s.orelse and len(s.body) == 1
                and isinstance(s.body[0], ast.Expr) and "_validate_key_tuple_hashable" in _u(s.body[0]))

    def get_call(self, node):
        """`right_index.get(key)` or its pre-bound alias"""
        if isinstance(node, ast.Call) and len(node.args) == 1 and _u(node.args[0]) == "key" and not node.keywords:
            f = node.func
            if _u(f) == "right_index.get" or (isinstance(f, ast.Name) and self.alias.get(f.id) == ("get", "right_index")):
                return True
        return False

    # ---- build loop -------------------------------------------------------------------------
    def build(self, loop):
        var = _u(loop.target)
        end = "(right_index, duplicates)"

        def block(stmts, opt, buckets, ind):
            pad = " " * ind
            if not stmts:
                return pad + end
            s, rest = stmts[0], stmts[1:]
            if self.is_key_assign(s, "right_keys", var) or self.is_hash_guard(s):
                return block(rest, opt, buckets, ind)
            if isinstance(s, ast.Assign) and isinstance(s.targets[0], ast.Name) and self.get_call(s.value):
                n = s.targets[0].id
                return pad + f"let {n} := Dict.get? right_index key\n" + block(rest, opt | {n}, buckets | {n}, ind)
            if isinstance(s, ast.Assign) and _u(s) == f"right_index[key] = [{var}]":
                return pad + f"let right_index := Dict.upsert right_index key (fun _ => [{var}])\n" + block(rest, opt, buckets, ind)
            if isinstance(s, ast.Assign) and _u(s.targets[0]) == "duplicates[key]" and isinstance(s.value, ast.Name) \
                    and s.value.id in buckets and s.value.id not in opt:
                # a dict assignment; only the KEYS of `duplicates` are ever used (truth value; the values feed the message)
                return (pad + "let duplicates := (if duplicates.contains key then duplicates else duplicates ++ [key])\n"
                        + block(rest, opt, buckets, ind))
            if isinstance(s, ast.Expr) and isinstance(s.value, ast.Call) and isinstance(s.value.func, ast.Attribute) \
                    and s.value.func.attr == "append" and isinstance(s.value.func.value, ast.Name) \
                    and s.value.func.value.id in buckets and s.value.func.value.id not in opt and _u(s.value.args[0]) == var:
                n = s.value.func.value.id
                # the bucket IS the list stored in the dict: appending to it changes right_index[key]
                return (pad + f"let {n} := {n} ++ [{var}]\n" + pad + f"let right_index := Dict.upsert right_index key (fun _ => {n})\n"
                        + block(rest, opt, buckets, ind))
            if isinstance(s, ast.If):
                t = s.test
                if isinstance(t, ast.Compare) and isinstance(t.left, ast.Name) and t.left.id in opt and len(t.ops) == 1 \
                        and isinstance(t.comparators[0], ast.Constant) and t.comparators[0].value is None:
                    n = t.left.id
                    a, b = (s.body, s.orelse) if isinstance(t.ops[0], ast.Is) else (s.orelse, s.body)
                    return (pad + f"match {n} with\n" + pad + "| none =>\n" + block(a + rest, opt - {n}, buckets - {n}, ind + 4) + "\n"
                            + pad + f"| some {n} =>\n" + block(b + rest, opt - {n}, buckets, ind + 4))
                return (pad + f"if {self.bexpr(t, set())} then\n" + block(s.body + rest, opt, buckets, ind + 2) + "\n" + pad + "else\n"
                        + block(s.orelse + rest, opt, buckets, ind + 2))
            raise TranslateError(f"{self.f.name} build loop: {_u(s)[:60]}")

        body = block(loop.body, set(), set(), 2)
        return (f"/-- translated from the body of the build loop `for {var} in range(right_nrows)` of `Table.{self.f.name}`\n"
                f"    (`key` is the key tuple of right row `{var}`; state: `right_index`, keys of `duplicates`) -/\n"
                f"def buildStepT{self.tag} {{K : Type}} [DecidableEq K] (check_right_unique : Bool)\n"
                f"    (st : Dict K (List Nat) × List K) (key : K) ({var} : Nat) : Dict K (List Nat) × List K :=\n"
                f"  let right_index := st.1\n  let duplicates := st.2\n" + body)

    # ---- rows appended cell by cell -----------------------------------------------------------
    def cell_group(self, stmts):
        """longest prefix of `stmts` that appends ONE output row -> (lean pair, number of statements) or None"""
        left = right = None
        n = 0
        cells = [k for k, v in self.alias.items() if v == ("cells",)]
        for s in stmts:
            if isinstance(s, ast.Assign) and _u(s) == "base = n_left_cols":
                n += 1
                continue
            if not (isinstance(s, ast.For) and len(s.body) == 1 and not s.orelse and isinstance(s.body[0], ast.Expr)):
                break
            call = s.body[0].value
            if not (isinstance(call, ast.Call) and isinstance(call.func, ast.Subscript) and _u(call.func.value) in cells
                    and len(call.args) == 1):
                break
            tgt, it, slot, arg = _u(s.target), _u(s.iter), _u(call.func.slice), call.args[0]
            if (tgt, it, slot) == ("(c_idx, col)", "enumerate(left_cols)", "c_idx") and isinstance(arg, ast.Subscript) and _u(arg.value) == "col":
                side, val = "L", f"some {_u(arg.slice)}"
            elif (tgt, it, slot) == ("c_idx", "range(n_left_cols)", "c_idx") and _u(arg) == "None":
                side, val = "L", "none"
            elif (tgt, it, slot) == ("(offset, col)", "enumerate(right_cols)", "base + offset") and isinstance(arg, ast.Subscript) and _u(arg.value) == "col":
                side, val = "R", f"some {_u(arg.slice)}"
            elif (tgt, it, slot) == ("offset", "range(n_right_cols)", "base + offset") and _u(arg) == "None":
                side, val = "R", "none"
            else:
                break
            if side == "L":
                if left is not None:
                    break
                left = val
            else:
                if right is not None:
                    break
                right = val
            n += 1
        if left is None and right is None:
            return None
        if left is None or right is None:
            raise TranslateError(f"{self.f.name}: a row is appended to one side only")
        return f"({left}, {right})", n

    # ---- probe loop -------------------------------------------------------------------------
    def probe(self, loop):
        var = _u(loop.target)
        end = ".ok (left_keys_seen, out, matched)"

        def inner(stmts, ivar, ind):
            """body of `for right_idx in matches`: no raise, no continue"""
            pad = " " * ind
            if not stmts:
                return pad + "(out, matched)"
            g = self.cell_group(stmts)
            if g:
                return pad + f"let out := out ++ [{g[0]}]\n" + inner(stmts[g[1]:], ivar, ind)
            s, rest = stmts[0], stmts[1:]
            if isinstance(s, ast.Expr) and isinstance(s.value, ast.Call) and len(s.value.args) == 1 and _u(s.value.args[0]) == ivar:
                f = s.value.func
                if _u(f) == "matched_right_rows.add" or (isinstance(f, ast.Name) and self.alias.get(f.id) == ("add", "matched_right_rows")):
                    return pad + f"let matched := matched ++ [{ivar}]\n" + inner(rest, ivar, ind)
            raise TranslateError(f"{self.f.name} match loop: {_u(s)[:60]}")

        def block(stmts, optlists, ind):
            pad = " " * ind
            if not stmts:
                return pad + end
            g = self.cell_group(stmts)
            if g:
                return pad + f"let out := out ++ [{g[0]}]\n" + block(stmts[g[1]:], optlists, ind)
            s, rest = stmts[0], stmts[1:]
            if self.is_key_assign(s, "left_keys", var) or self.is_hash_guard(s):
                return block(rest, optlists, ind)
            if isinstance(s, ast.Continue):
                return pad + end
            if isinstance(s, ast.Raise):
                if not _u(s.exc).startswith("SerifValueError("):
                    raise TranslateError(f"{self.f.name}: raises {_u(s.exc)[:30]}")
                return pad + ".error Err.value"
            if isinstance(s, ast.Expr) and _u(s) == "left_keys_seen.add(key)":
                return pad + "let left_keys_seen := key :: left_keys_seen\n" + block(rest, optlists, ind)
            if isinstance(s, ast.Assign) and isinstance(s.targets[0], ast.Name) and self.get_call(s.value):
                n = s.targets[0].id
                return pad + f"let {_ln(n)} := Dict.get? right_index key\n" + block(rest, optlists | {n}, ind)
            if isinstance(s, ast.For) and isinstance(s.iter, ast.Name) and s.iter.id in optlists and isinstance(s.target, ast.Name) and not s.orelse:
                iv = s.target.id
                return (pad + f"let r := (pyIter {_ln(s.iter.id)}).foldl (fun (st : List Pair × List Nat) {iv} =>\n"
                        + pad + "    let out := st.1\n" + pad + "    let matched := st.2\n" + inner(s.body, iv, ind + 4) + ") (out, matched)\n"
                        + pad + "let out := r.1\n" + pad + "let matched := r.2\n" + block(rest, optlists, ind))
            if isinstance(s, ast.If):
                return (pad + f"if {self.bexpr(s.test, optlists)} then\n" + block(s.body + rest, optlists, ind + 2) + "\n" + pad + "else\n"
                        + block(s.orelse + rest, optlists, ind + 2))
            raise TranslateError(f"{self.f.name} probe loop: {_u(s)[:60]}")

        body = block(loop.body, set(), 2)
        return (f"/-- translated from the body of the probe loop `for {var} in range(left_nrows)` of `Table.{self.f.name}` (`key` is the key\n"
                f"    tuple of left row `{var}`; state: `left_keys_seen`, the output rows so far, the matched right rows; `.error` = the\n"
                f"    `raise SerifValueError`) -/\n"
                f"def probeStepT{self.tag} {{K : Type}} [DecidableEq K] (check_left_unique : Bool) (right_index : Dict K (List Nat))\n"
                f"    (st : List K × List Pair × List Nat) (key : K) ({var} : Nat) : Except Err (List K × List Pair × List Nat) :=\n"
                f"  let left_keys_seen := st.1\n  let out := st.2.1\n  let matched := st.2.2\n" + body)

    # ---- sweep (full join) --------------------------------------------------------------------
    def sweep(self, loop):
        var = _u(loop.target)
        if not (len(loop.body) == 1 and isinstance(loop.body[0], ast.If) and not loop.body[0].orelse):
            raise TranslateError("full_join sweep: shape")
        test = self.bexpr(loop.body[0].test, set())
        g = self.cell_group(loop.body[0].body)
        if not g or g[1] != len(loop.body[0].body):
            raise TranslateError("full_join sweep: body")
        return (f"/-- translated from the sweep `for {var} in range(right_nrows)` of `Table.full_join` -/\n"
                f"def sweepT{self.tag} (right_nrows : Nat) (matched : List Nat) : List Pair :=\n"
                f"  (List.range right_nrows).foldl (fun out {var} => if {test} then out ++ [{g[0]}] else out) []")

    # ---- the method ----------------------------------------------------------------------------
    def translate(self):
        body = self.f.body
        loops = [(i, s) for i, s in enumerate(body) if isinstance(s, ast.For) and _u(s.iter) in ("range(right_nrows)", "range(left_nrows)")]
        want = ["range(right_nrows)", "range(left_nrows)"] + (["range(right_nrows)"] if self.tag == "Full" else [])
        if [_u(s.iter) for _, s in loops] != want:
            raise TranslateError(f"{self.f.name}: loops {[_u(s.iter) for _, s in loops]}")
        # the uniqueness test between the build loop and the probe loop
        between = [s for s in body[loops[0][0] + 1: loops[1][0]] if isinstance(s, ast.If) and any(isinstance(x, ast.Raise) for x in s.body)]
        if len(between) != 1 or between[0].orelse or not _u(between[0].body[-1].exc).startswith("SerifValueError("):
            raise TranslateError(f"{self.f.name}: test after the build loop")
        # nothing else between the phases may raise or return
        for lo, hi in ((loops[0][0], loops[1][0]),) + (((loops[1][0], loops[2][0]),) if self.tag == "Full" else ()):
            for s in body[lo + 1: hi]:
                if s is between[0]:
                    continue
                if any(isinstance(x, (ast.Raise, ast.Return)) for x in ast.walk(s)):
                    raise TranslateError(f"{self.f.name}: unexpected exit between the loops")
        test = self.bexpr(between[0].test, set())
        parts = [self.build(loops[0][1]), self.probe(loops[1][1])]
        tail = "st.2.1"
        if self.tag == "Full":
            parts.append(self.sweep(loops[2][1]))
            tail = f"(st.2.1 ++ sweepT{self.tag} rkeys.length st.2.2)"
        bv, pv = _u(loops[0][1].target), _u(loops[1][1].target)
        parts.append(
            f"/-- translated from `Table.{self.f.name}` after key validation: initial state, build loop, `if {_u(between[0].test)}: raise`,\n"
            f"    probe loop{', sweep' if self.tag == 'Full' else ''}; the result is the list of output rows as (left row?, right row?) -/\n"
            f"def joinCoreT{self.tag} {{K : Type}} [DecidableEq K] (check_right_unique check_left_unique : Bool) (lkeys rkeys : List K) :\n"
            f"    Except Err (List Pair) :=\n"
            f"  let b := rkeys.zipIdx.foldl (fun st p => buildStepT{self.tag} check_right_unique st p.1 p.2) ([], [])\n"
            f"  let right_index := b.1\n  let duplicates := b.2\n"
            f"  if {test} then .error Err.value\n  else\n"
            f"    match lkeys.zipIdx.foldlM (fun st p => probeStepT{self.tag} check_left_unique right_index st p.1 p.2) ([], [], []) with\n"
            f"    | .error e => .error e\n    | .ok st => .ok {tail}")
        return parts


def translate_join(src):
    tree = ast.parse(src)
    out = ["/-- truth value of `d.get(key)`: `None` and the empty list are falsy -/\n"
           "def pyTruthy (m : Option (List Nat)) : Bool := match m with | none => false | some l => !l.isEmpty",
           "/-- `for x in m` (only reached when `m` is truthy, i.e. a list) -/\n"
           "def pyIter (m : Option (List Nat)) : List Nat := m.getD []"]
    for meth, tag in (("inner_join", "Inner"), ("join", "Left"), ("full_join", "Full")):
        out += _JoinMethod(find_func(tree, meth, "Table"), tag).translate()
    return out


def generate_rel(src_dir):
    """second generated file (relational operations): kept apart so that a source the translator does not understand
    here cannot take the other ties down"""
    parts, errors = [], []
    return _gen_file(src_dir, "join", translate_join, "Loops of Table.inner_join / join / full_join translated statement by statement; "
                     "equivalence theorems in Serif/Tie/Join.lean.", "import Serif.Model.Join", "Serif.Gen.TR", "open Serif Serif.Join")


def _gen_file(src_dir, name, fn, what, imports, ns, opens):
    parts, errors = [], []
    try:
        parts += fn(open(os.path.join(src_dir, "table.py")).read())
    except Exception as ex:
        errors.append((name, f"{type(ex).__name__}: {ex}"))
        parts.append(f"-- {name}: not translated ({type(ex).__name__})")
    text = ("/- GENERATED by harness/py2lean.py from /repo's working tree — do not edit.\n   " + what + " -/\n"
            + imports + f"\n\nset_option linter.unusedVariables false\n\nnamespace {ns}\n{opens}\n\n" + "\n\n".join(parts) + f"\n\nend {ns}\n")
    return text, errors


def generate_group(src_dir):
    """third generated file: partition loop and built-in reducers of Table.aggregate / Table.window"""
    def both(tsrc):
        return translate_group(tsrc) + translate_vector_reductions(open(os.path.join(src_dir, "vector.py")).read())
    return _gen_file(src_dir, "group", both, "Partition loop and the six built-in reducers of Table.aggregate / Table.window, and the "
                     "whole-column reductions of Vector, translated; equivalence theorems in Serif/Tie/Group.lean.",
                     "import Serif.Prelude", "Serif.Gen.TG", "open Serif")


# ---------------------------------------------------------------------------------------------
# Table.aggregate / Table.window: the partition loop and the six built-in reducers
# ---------------------------------------------------------------------------------------------
class _Reducer:
    """One built-in reducer (`lambda vals: ...` or `def f(vals): ...`) over a group's values `vals : List (Option Int)`.
    Typed mini-translation: int / rat / nat scalars, `List Int`, `List (Option Int)`, `Option _` results.  Python's `/` is exact
    division in `Rat`; a final `** 0.5` (stdev) is stripped and reported — the square root is the harness's business."""

    def __init__(self, where):
        self.where = where
        self.sqrt = False

    def fail(self, node):
        raise TranslateError(f"{self.where}: {_u(node)[:60]}")

    def as_rat(self, e, t):
        return e if t == "rat" else f"(({e} : Int) : Rat)" if t == "int" else f"(({e} : Nat) : Rat)" if t == "nat" else None

    def as_int(self, e, t):
        return e if t == "int" else f"(({e} : Nat) : Int)" if t == "nat" else None

    def gen(self, node, env):
        """comprehension / generator over one list -> (lean list expr, element type)"""
        if len(node.generators) != 1 or not isinstance(node.generators[0].target, ast.Name):
            self.fail(node)
        g = node.generators[0]
        v = g.target.id
        src, st = self.ex(g.iter, env)
        if st == "listoptint":
            if len(g.ifs) != 1 or _u(g.ifs[0]) != f"{v} is not None":
                self.fail(node)
            src = f"({src}.filterMap id)"
        elif st == "listint":
            if g.ifs:
                self.fail(node)
        else:
            self.fail(node)
        e, t = self.ex(node.elt, dict(env, **{v: "int"}))
        if isinstance(node.elt, ast.Name) and node.elt.id == v:
            return src, "int"
        if t == "nat":
            e, t = self.as_int(e, t), "int"
        return f"({src}.map (fun {v} => {e}))", t

    def ex(self, node, env):
        if isinstance(node, ast.Constant):
            if node.value is None:
                return "none", "none"
            if isinstance(node.value, int) and not isinstance(node.value, bool):
                return f"({node.value} : Int)", "int"
            self.fail(node)
        if isinstance(node, ast.Name):
            if node.id in env:
                if env[node.id] == "boolint":
                    return f"(if {_ln(node.id)} then (1 : Int) else (0 : Int))", "int"      # a bool used as a number
                return _ln(node.id), env[node.id]
            self.fail(node)
        if isinstance(node, ast.Attribute) and _u(node) in env:
            return env["@" + _u(node)], env[_u(node)]
        if isinstance(node, ast.Call) and isinstance(node.func, ast.Name) and len(node.args) == 1 and not node.keywords:
            f, a = node.func.id, node.args[0]
            if f == "len":
                e, t = self.ex(a, env)
                if t in ("listint", "listoptint"):
                    return f"{e}.length", "nat"
            if f in ("sum", "min", "max"):
                if isinstance(a, (ast.GeneratorExp, ast.ListComp)):
                    e, t = self.gen(a, env)
                else:
                    e, t = self.ex(a, env)
                    t = {"listint": "int"}.get(t)
                if f == "sum" and t == "int":
                    return f"(pySumInt {e})", "int"
                if f == "sum" and t == "rat":
                    return f"(pySumRat {e})", "rat"
                if f in ("min", "max") and t == "int":
                    return f"(py{f.capitalize()} {e})", "optint"          # ValueError on an empty list = none
            self.fail(node)
        if isinstance(node, ast.ListComp):
            e, t = self.gen(node, env)
            if t == "int":
                return e, "listint"
            self.fail(node)
        if isinstance(node, ast.BinOp):
            if isinstance(node.op, ast.Pow) and isinstance(node.right, ast.Constant) and node.right.value == 2:
                e, t = self.ex(node.left, env)
                if t in ("int", "rat"):
                    return f"({e} ^ 2)", t
                self.fail(node)
            l, lt = self.ex(node.left, env)
            r, rt = self.ex(node.right, env)
            if isinstance(node.op, ast.Div):
                a, b = self.as_rat(l, lt), self.as_rat(r, rt)
                if a and b:
                    return f"({a} / {b})", "rat"
            if isinstance(node.op, (ast.Add, ast.Sub, ast.Mult)):
                sym = "+" if isinstance(node.op, ast.Add) else "-" if isinstance(node.op, ast.Sub) else "*"
                if "rat" in (lt, rt):
                    a, b = self.as_rat(l, lt), self.as_rat(r, rt)
                    if a and b:
                        return f"({a} {sym} {b})", "rat"
                a, b = self.as_int(l, lt), self.as_int(r, rt)          # nat - k is computed in Int (Python ints)
                if a and b:
                    return f"({a} {sym} {b})", "int"
            self.fail(node)
        if isinstance(node, ast.IfExp):
            c = self.cond(node.test, env)
            a, at = self.ex(node.body, env)
            b, bt = self.ex(node.orelse, env)
            a, b, t = self.unify(a, at, b, bt, node)
            return f"(if {c} then {a} else {b})", t
        self.fail(node)

    def unify(self, a, at, b, bt, node):
        if at == bt:
            return a, b, at
        for x, xt, y, yt, swap in ((a, at, b, bt, False), (b, bt, a, at, True)):
            if yt == "none":
                if xt in ("int", "rat"):
                    x, xt = f"(some ({x}))", "opt" + xt
                if xt in ("optint", "optrat"):
                    return (y, x, xt) if swap else (x, y, xt)
        self.fail(node)

    def cond(self, node, env):
        if isinstance(node, ast.Name) and env.get(node.id) in ("listint", "listoptint"):
            return f"(!{_ln(node.id)}.isEmpty)"
        if isinstance(node, ast.Compare) and len(node.ops) == 1:
            l, lt = self.ex(node.left, env)
            r, rt = self.ex(node.comparators[0], env)
            a, b = self.as_int(l, lt), self.as_int(r, rt)
            sym = {ast.LtE: "≤", ast.Lt: "<", ast.GtE: "≥", ast.Gt: ">", ast.Eq: "="}.get(type(node.ops[0]))
            if a and b and sym:
                return f"(decide ({a} {sym} {b}))"
        self.fail(node)

    def ret(self, node, env):
        if isinstance(node, ast.BinOp) and isinstance(node.op, ast.Pow) and isinstance(node.right, ast.Constant) and node.right.value == 0.5:
            self.sqrt = True
            return self.ex(node.left, env)
        return self.ex(node, env)

    def body(self, stmts, env):
        """-> [(lean lines, ...)], final (expr, type); straight-line code with `if c: return None` guards"""
        if not stmts:
            raise TranslateError(f"{self.where}: path without return")
        s, rest = stmts[0], stmts[1:]
        if isinstance(s, ast.Expr) and isinstance(s.value, ast.Constant):
            return self.body(rest, env)
        if isinstance(s, ast.Return):
            e, t = self.ret(s.value, env)
            return e, t
        if isinstance(s, ast.Assign) and isinstance(s.targets[0], ast.Name):
            n = s.targets[0].id
            e, t = self.ret(s.value, env) if (rest and isinstance(rest[0], ast.Return) and False) else self.ex(s.value, env)
            r, rt = self.body(rest, dict(env, **{n: t}))
            return f"let {_ln(n)} := {e}\n  {r}", rt
        if isinstance(s, ast.If) and not s.orelse and len(s.body) == 1 and isinstance(s.body[0], ast.Return):
            c = self.cond(s.test, env)
            a, at = self.ret(s.body[0].value, env)
            b, bt = self.body(rest, env)
            a, b, t = self.unify(a, at, b, bt, s)
            return f"if {c} then {a}\n  else\n  {b}", t
        self.fail(s)

    def translate(self, fn):
        args = fn.args
        names = [a.arg for a in args.args]
        if not names or names[0] != "vals" or any(n not in ("vals", "d") for n in names) or args.vararg or args.kwarg:
            raise TranslateError(f"{self.where}: signature")
        env = {"vals": "listoptint"}
        if isinstance(fn, ast.Lambda):
            return self.ret(fn.body, env)
        return self.body(fn.body, env)

    def translate_method(self, fn):
        """a whole-column reduction of `Vector`: `self._underlying` is the list of values, the 2-D branch is skipped"""
        names = [a.arg for a in fn.args.args]
        if names[:1] != ["self"] or any(n not in ("self", "population") for n in names):
            raise TranslateError(f"{self.where}: signature")
        body = [s for s in fn.body if not (isinstance(s, ast.Expr) and isinstance(s.value, ast.Constant))]
        if not (body and isinstance(body[0], ast.If) and _u(body[0].test) == "self.ndims() == 2" and not body[0].orelse):
            raise TranslateError(f"{self.where}: 2-D guard")
        env = {"self._underlying": "listoptint", "@self._underlying": "vals"}
        if "population" in names:
            env["population"] = "boolint"
        return self.body(body[1:], env)


_RED = {"sum": "int", "count": "int", "min": "optint", "max": "optint", "mean": "optrat", "stdev": "optrat"}
_LTYPE = {"int": "Int", "optint": "Option Int", "optrat": "Option Rat"}


def _partition_loop(f, tag):
    """`for i in range(nrows): key = tuple(...); [row_keys[i] = key]; bucket = partition_index.get(key); if bucket is None: ... else: ...`"""
    loops = [s for s in f.body if isinstance(s, ast.For) and _u(s.iter) == "range(nrows)"]
    if len(loops) != 1:
        raise TranslateError(f"{f.name}: partition loop")
    loop = loops[0]
    var = _u(loop.target)
    inits = {_u(s.targets[0]): _u(s.value) for s in f.body if isinstance(s, ast.Assign)}
    if inits.get("partition_index") != "{}" or inits.get("group_items") != "list(partition_index.items())":
        raise TranslateError(f"{f.name}: partition_index / group_items")
    lines, opt = [], set()

    def block(stmts, opt, ind):
        pad = " " * ind
        if not stmts:
            return pad + "partition_index"
        s, rest = stmts[0], stmts[1:]
        if isinstance(s, ast.Assign):
            t, v = _u(s.targets[0]), _u(s.value)
            if t == "key" and v.startswith("tuple((over_data[") and v.endswith("in range(pk_len)))"):
                return block(rest, opt, ind)
            if t == f"row_keys[{var}]" and v == "key":
                return block(rest, opt, ind)                  # the key list the caller passes in
            if v == "partition_index.get(key)" and isinstance(s.targets[0], ast.Name):
                return pad + f"let {t} := Dict.get? partition_index key\n" + block(rest, opt | {t}, ind)
            if t == "partition_index[key]" and v == f"[{var}]":
                return pad + f"let partition_index := Dict.upsert partition_index key (fun _ => [{var}])\n" + block(rest, opt, ind)
        if isinstance(s, ast.Expr) and isinstance(s.value, ast.Call) and isinstance(s.value.func, ast.Attribute) \
                and s.value.func.attr == "append" and isinstance(s.value.func.value, ast.Name) and _u(s.value.args[0]) == var:
            n = s.value.func.value.id
            return (pad + f"let {n} := {n} ++ [{var}]\n" + pad + f"let partition_index := Dict.upsert partition_index key (fun _ => {n})\n"
                    + block(rest, opt, ind))
        if isinstance(s, ast.If) and isinstance(s.test, ast.Compare) and isinstance(s.test.left, ast.Name) and s.test.left.id in opt \
                and isinstance(s.test.comparators[0], ast.Constant) and s.test.comparators[0].value is None:
            n = s.test.left.id
            a, b = (s.body, s.orelse) if isinstance(s.test.ops[0], ast.Is) else (s.orelse, s.body)
            return (pad + f"match {n} with\n" + pad + "| none =>\n" + block(a + rest, opt - {n}, ind + 4) + "\n"
                    + pad + f"| some {n} =>\n" + block(b + rest, opt - {n}, ind + 4))
        raise TranslateError(f"{f.name} partition loop: {_u(s)[:60]}")

    return (f"/-- translated from the body of the partition loop `for {var} in range(nrows)` of `Table.{f.name}` -/\n"
            f"def partitionStepT{tag} {{K : Type}} [DecidableEq K] (partition_index : Dict K (List Nat)) (key : K) ({var} : Nat) :\n"
            f"    Dict K (List Nat) :=\n" + block(loop.body, set(), 2))


def translate_group(src):
    tree = ast.parse(src)
    out = ["/-- `sum(xs)` over ints: left fold from 0 -/\ndef pySumInt (xs : List Int) : Int := xs.foldl (· + ·) 0",
           "/-- `sum(xs)` over exact fractions -/\ndef pySumRat (xs : List Rat) : Rat := xs.foldl (· + ·) 0",
           "/-- `min(xs)`: the first of equal minima; `none` = ValueError on an empty list -/\n"
           "def pyMin : List Int → Option Int\n  | [] => none\n  | x :: xs => some (xs.foldl (fun m v => if v < m then v else m) x)",
           "/-- `max(xs)` -/\n"
           "def pyMax : List Int → Option Int\n  | [] => none\n  | x :: xs => some (xs.foldl (fun m v => if v > m then v else m) x)"]
    for meth, tag in (("aggregate", "Agg"), ("window", "Win")):
        f = find_func(tree, meth, "Table")
        out.append(_partition_loop(f, tag))
        for name, want in _RED.items():
            # the `for col in <name>_over:` loop under `if <name>_over:`
            loops = [s for s in ast.walk(f) if isinstance(s, ast.For) and _u(s.iter) == f"{name}_over"]
            if len(loops) != 1:
                raise TranslateError(f"{meth}: loop over {name}_over")
            body = loops[0].body
            if not any(isinstance(c, ast.Constant) and c.value == name for s in body for c in ast.walk(s)):
                raise TranslateError(f"{meth}: suffix {name!r} not used in its loop")
            fns = [n for s in body for n in ast.walk(s) if isinstance(n, (ast.Lambda, ast.FunctionDef))]
            if len(fns) != 1:
                raise TranslateError(f"{meth}: reducer of {name}")
            r = _Reducer(f"{meth}/{name}")
            e, t = r.translate(fns[0])
            if t in ("int", "rat") and want.startswith("opt"):
                self_t = t
                e, t = f"some ({e})", "opt" + self_t
            if t != want:
                raise TranslateError(f"{meth}/{name}: result type {t}, expected {want}")
            if r.sqrt != (name == "stdev"):
                raise TranslateError(f"{meth}/{name}: square root")
            out.append(f"/-- translated from the `{name}` reducer of `Table.{meth}`" + (" without its final `** 0.5`" if r.sqrt else "") + " -/\n"
                       f"def {name}T{tag} (vals : List (Option Int)) : {_LTYPE[want]} :=\n  {e}")
    return out


# ---------------------------------------------------------------------------------------------
# alias_tracker.py: register / unregister / check_writable over a functional registry
# ---------------------------------------------------------------------------------------------
def translate_alias_tracker(src):
    """The registry `dict[int, list[weakref]]` is translated as a function `Nat → List Nat` (a missing key and an empty list are
    the same thing to every reader: `if not refs`), a weak reference as the number of its object, `r()` as `live r` (`None` when
    the object is dead), `r() is vec` as `r == vec` (object numbers are never reused)."""
    tree = ast.parse(src)
    cls = [n for n in tree.body if isinstance(n, ast.ClassDef) and n.name == "_AliasTracker"]
    if not cls:
        raise TranslateError("alias_tracker: class _AliasTracker")
    meth = {f.name: f for f in cls[0].body if isinstance(f, ast.FunctionDef)}
    cl = [s for s in meth["_cleanup_dead_refs"].body if not (isinstance(s, ast.Expr) and isinstance(s.value, ast.Constant))]
    if not (len(cl) == 1 and ast.unparse(cl[0]) == "return [r for r in refs if r() is not None]"):
        raise TranslateError("_cleanup_dead_refs")

    SET = "(fun k => if k = tuple_id then {v} else registry k)"

    def block(stmts, env, ret, ind):
        """env: local name -> 'list' | 'alias' (the list stored under registry[tuple_id]); ret(registry_expr, value) -> lean"""
        pad = " " * ind
        stmts = [s for s in stmts if not (isinstance(s, ast.Expr) and isinstance(s.value, ast.Constant))]     # docstrings only
        if not stmts:
            return pad + ret(None)
        s, rest = stmts[0], stmts[1:]
        u = ast.unparse(s)
        if isinstance(s, ast.Return):
            v = None if s.value is None else ast.unparse(s.value)
            if v not in (None, "True"):
                raise TranslateError("alias_tracker: return " + v)
            return pad + ret(True if v == "True" else None)
        if isinstance(s, ast.Raise):
            if not ast.unparse(s.exc).startswith("AliasError("):
                raise TranslateError("alias_tracker: raise")
            return pad + ret(False)
        if isinstance(s, ast.Assign) and len(s.targets) == 1:
            t, v = ast.unparse(s.targets[0]), ast.unparse(s.value)
            if isinstance(s.targets[0], ast.Name):
                n = s.targets[0].id
                ln = n + "_" if n in ("alive",) else n
                if v in ("self._registry.setdefault(tuple_id, [])", "self._registry.get(tuple_id)"):
                    return pad + f"let {ln} := registry tuple_id\n" + block(rest, dict(env, **{n: "list"}), ret, ind)
                if v.startswith("self._cleanup_dead_refs(") and v[len("self._cleanup_dead_refs("):-1] in env:
                    src_n = v[len("self._cleanup_dead_refs("):-1]
                    sl = src_n + "_" if src_n == "alive" else src_n
                    return pad + f"let {ln} := {sl}.filter live\n" + block(rest, dict(env, **{n: "list"}), ret, ind)
                if v == "[]" and rest and isinstance(rest[0], ast.For):
                    # alive = []; for r in refs: obj = r(); if obj is None: continue; if obj is vec: continue; alive.append(r)
                    loop = rest[0]
                    want = ["obj = r()", "if obj is None:\n    continue", "if obj is vec:\n    continue", f"{n}.append(r)"]
                    if ast.unparse(loop.target) != "r" or ast.unparse(loop.iter) not in env or [ast.unparse(x) for x in loop.body] != want:
                        raise TranslateError("alias_tracker: filter loop")
                    it = ast.unparse(loop.iter)
                    return (pad + f"let {ln} := {it}.filter (fun r => live r && r != vec)\n"
                            + block(rest[1:], dict(env, **{n: "list"}), ret, ind))
                if v == "[r() for r in alive if r() is not None]" and "alive" in env:
                    return pad + f"let {ln} := alive_.filter live\n" + block(rest, dict(env, **{n: "list"}), ret, ind)
            if t == "self._registry[tuple_id]" and v in env:
                vl = v + "_" if v == "alive" else v
                e2 = {k: ("list" if x == "alias" else x) for k, x in env.items()}
                e2[v] = "alias"
                return pad + "let registry := " + SET.format(v=vl) + "\n" + block(rest, e2, ret, ind)
            raise TranslateError("alias_tracker: assignment " + u[:50])
        if isinstance(s, ast.Delete) and u == "del self._registry[tuple_id]":
            return pad + "let registry := " + SET.format(v="[]") + "\n" + block(rest, env, ret, ind)
        if isinstance(s, ast.Expr) and isinstance(s.value, ast.Call) and u.endswith(".append(weakref.ref(vec))"):
            n = u[:-len(".append(weakref.ref(vec))")]
            if env.get(n) != "alias":
                raise TranslateError("alias_tracker: append to a list that is not the stored one")
            nl = n + "_" if n == "alive" else n
            return (pad + f"let {nl} := {nl} ++ [vec]\n" + pad + "let registry := " + SET.format(v=nl) + "\n"
                    + block(rest, env, ret, ind))
        if isinstance(s, ast.For) and ast.unparse(s.target) == "r" and ast.unparse(s.iter) in env \
                and [ast.unparse(x) for x in s.body] == ["if r() is vec:\n    return"]:
            it = ast.unparse(s.iter)
            return (pad + f"if {it}.contains vec then\n" + pad + "  " + ret(None) + "\n" + pad + "else\n" + block(rest, env, ret, ind + 2))
        if isinstance(s, ast.If):
            t = ast.unparse(s.test)
            if t.startswith("not ") and t[4:] in env:
                c = f"{t[4:] + '_' if t[4:] == 'alive' else t[4:]}.isEmpty"
            elif t in env:
                c = f"(!{t + '_' if t == 'alive' else t}.isEmpty)"
            elif t.startswith("len(") and t.endswith(") <= 1") and t[4:-6] in env:
                c = f"decide ({t[4:-6]}.length ≤ 1)"
            else:
                raise TranslateError("alias_tracker: condition " + t[:40])
            return (pad + f"if {c} then\n" + block(s.body + rest, env, ret, ind + 2) + "\n" + pad + "else\n"
                    + block(s.orelse + rest, env, ret, ind + 2))
        raise TranslateError("alias_tracker: statement " + u[:50])

    out = []
    for name, lean, rtype, ret in (
            ("register", "registerT", "Nat → List Nat", lambda v: "registry"),
            ("unregister", "unregisterT", "Nat → List Nat", lambda v: "registry"),
            ("check_writable", "checkWritableT", "(Nat → List Nat) × Bool", lambda v: f"(registry, {'false' if v is False else 'true'})")):
        f = meth[name]
        if [a.arg for a in f.args.args] != ["self", "vec", "tuple_id"]:
            raise TranslateError(f"alias_tracker: signature of {name}")
        out.append(f"/-- translated from `_AliasTracker.{name}`" + (" (`false` = `raise AliasError`)" if name == "check_writable" else "") + " -/\n"
                   f"def {lean} (live : Nat → Bool) (registry : Nat → List Nat) (vec tuple_id : Nat) : {rtype} :=\n"
                   + block(f.body, {}, ret, 2))
    return out


def generate_alias(src_dir):
    """fourth generated file: the three methods of alias_tracker._AliasTracker"""
    parts, errors = [], []
    try:
        parts += translate_alias_tracker(open(os.path.join(src_dir, "alias_tracker.py")).read())
    except Exception as ex:
        errors.append(("alias_tracker", f"{type(ex).__name__}: {ex}"))
        parts.append(f"-- alias_tracker: not translated ({type(ex).__name__})")
    text = ("/- GENERATED by harness/py2lean.py from /repo's working tree — do not edit.\n"
            "   register / unregister / check_writable of alias_tracker._AliasTracker, translated; equivalence theorems in Serif/Tie/AliasTracker.lean. -/\n"
            "import Serif.Prelude\n\nset_option linter.unusedVariables false\n\nnamespace Serif.Gen.TA\nopen Serif\n\n"
            + "\n\n".join(parts) + "\n\nend Serif.Gen.TA\n")
    return text, errors


# ---------------------------------------------------------------------------------------------
# display._format_column: the symmetric preview and the per-value dispatch chain
# ---------------------------------------------------------------------------------------------
def translate_format_column(src):
    tree = ast.parse(src)
    f = find_func(tree, "_format_column")
    body = [s for s in f.body if not (isinstance(s, ast.Expr) and isinstance(s.value, ast.Constant))]
    # 1. the preview
    pv = [s for s in body if isinstance(s, ast.If) and any(isinstance(t, ast.Name) and t.id == "preview"
                                                           for a in ast.walk(s) if isinstance(a, ast.Assign) for t in a.targets)]
    if len(pv) != 1 or not any(ast.unparse(s) == "vals = col._underlying" for s in body):
        raise TranslateError("_format_column: preview block")
    pv = pv[0]

    def lst(node):
        """list-valued expression over `vals`"""
        if isinstance(node, ast.BinOp) and isinstance(node.op, ast.Add):
            return f"{lst(node.left)} ++ {lst(node.right)}"
        if isinstance(node, ast.Call) and ast.unparse(node.func) == "list" and len(node.args) == 1:
            return lst(node.args[0])
        if isinstance(node, ast.List) and len(node.elts) == 1 and isinstance(node.elts[0], ast.Constant) and node.elts[0].value == "...":
            return "[Shown.ellipsis]"
        if isinstance(node, ast.Name) and node.id == "vals":
            return "vals.map Shown.cell"
        if isinstance(node, ast.Subscript) and ast.unparse(node.value) == "vals" and isinstance(node.slice, ast.Slice) and node.slice.step is None:
            lo, hi = node.slice.lower, node.slice.upper
            if lo is None and hi is not None:
                return f"(vals.take {nat(hi)}).map Shown.cell"
            if hi is None and lo is not None:
                return f"(vals.drop {nat(lo)}).map Shown.cell"      # a start that is not negative (guarded by the test)
        raise TranslateError("_format_column: list expression " + ast.unparse(node)[:50])

    def nat(node):
        if isinstance(node, ast.Name) and node.id == "max_preview":
            return "max_preview"
        if isinstance(node, ast.Constant) and isinstance(node.value, int) and node.value >= 0:
            return str(node.value)
        if isinstance(node, ast.Call) and ast.unparse(node) == "len(vals)":
            return "vals.length"
        if isinstance(node, ast.BinOp) and isinstance(node.op, (ast.Mult, ast.Sub, ast.Add)):
            sym = {"Mult": "*", "Sub": "-", "Add": "+"}[type(node.op).__name__]
            return f"({nat(node.left)} {sym} {nat(node.right)})"
        raise TranslateError("_format_column: size expression " + ast.unparse(node)[:40])

    if not (isinstance(pv.test, ast.Compare) and len(pv.test.ops) == 1 and isinstance(pv.test.ops[0], ast.Gt)
            and len(pv.body) == 1 and len(pv.orelse) == 1):
        raise TranslateError("_format_column: preview test")
    out = ["/-- translated from the first half of `display._format_column` (`vals[len(vals) - max_preview:]` is `drop`: the start is\n"
           "    not negative under the test) -/\n"
           "def previewT {α : Type} (max_preview : Nat) (vals : List α) : List (Shown α) :=\n"
           f"  if {nat(pv.test.left)} > {nat(pv.test.comparators[0])} then\n    {lst(pv.body[0].value)}\n  else\n    {lst(pv.orelse[0].value)}"]
    # 2. the per-value chain
    loops = [s for s in body if isinstance(s, ast.For) and ast.unparse(s.iter) == "preview" and ast.unparse(s.target) == "v"]
    if len(loops) != 1 or len(loops[0].body) != 1 or not isinstance(loops[0].body[0], ast.If):
        raise TranslateError("_format_column: value loop")

    def label(stmts, none_excluded):
        stmts = [s for s in stmts if not (isinstance(s, ast.Expr) and isinstance(s.value, ast.Constant))]
        if len(stmts) == 1 and isinstance(stmts[0], ast.Expr) and ast.unparse(stmts[0]).startswith("out.append("):
            a = ast.unparse(stmts[0].value.args[0])
            if a in ("'...'", "'None'"):
                return f'(Fmt.lit "{a[1:-1]}")'
            if a == "str(v)" or (a == "str(v) if v is not None else 'None'" and none_excluded):
                return "Fmt.str"
            if a == "v.isoformat()":
                return "Fmt.iso"
            if a == "repr(v)":
                return "Fmt.repr"
        txt = "\n".join(ast.unparse(s) for s in stmts)
        if "is_whole = v == v and v not in (float('inf'), float('-inf')) and (v == int(v))" in txt \
                and "out.append(f'{v:.1f}' if is_whole else f'{v:g}')" in txt and "except OverflowError" in txt:
            return "Fmt.floatRule"
        raise TranslateError("_format_column: branch body " + txt[:60])

    def cond(node):
        t = ast.unparse(node)
        if t == "isinstance(v, str) and v == '...'":
            return "isEllipsis", False
        if t == "v is None":
            return "isNone", True
        if t == "isinstance(v, str)":
            return "isStr", False
        for k in ("float", "int", "date", "str"):
            if t == f"col._dtype and col._dtype.kind is {k}":
                return f"(kind == some Kind.{k})", False
        raise TranslateError("_format_column: condition " + t[:50])

    def chain(node, ne, ind):
        pad = " " * ind
        c, excl = cond(node.test)
        els = node.orelse
        tail = chain(els[0], ne or excl, ind).lstrip() if len(els) == 1 and isinstance(els[0], ast.If) else label(els, ne or excl)
        return pad + f"if {c} then {label(node.body, ne)}\n" + pad + "else " + tail

    out.append("/-- which formatting rule `_format_column` applies to one previewed value: the `if`/`elif` chain of its loop, in order\n"
               "    (`isEllipsis`: `isinstance(v, str) and v == '...'`; `kind`: the column's `_dtype.kind`, `none` without dtype) -/\n"
               "def fmtBranchT (kind : Option Kind) (isEllipsis isNone isStr : Bool) : Fmt :=\n" + chain(loops[0].body[0], False, 2))
    return out


def generate_repr(src_dir):
    """fifth generated file: display._format_column"""
    parts, errors = [], []
    try:
        parts += translate_format_column(open(os.path.join(src_dir, "display.py")).read())
    except Exception as ex:
        errors.append(("format_column", f"{type(ex).__name__}: {ex}"))
        parts.append(f"-- format_column: not translated ({type(ex).__name__})")
    text = ("/- GENERATED by harness/py2lean.py from /repo's working tree — do not edit.\n"
            "   The preview and the per-value dispatch of display._format_column, translated; equivalence theorems in Serif/Tie/Repr.lean. -/\n"
            "import Serif.Model.Repr\n\nset_option linter.unusedVariables false\n\nnamespace Serif.Gen.TD\nopen Serif Serif.Repr\n\n"
            "/-- the formatting rules of `_format_column` (labels; `Serif/Tie/Repr.lean` interprets them on the model's `Cell`) -/\n"
            "inductive Fmt where\n  | lit (s : String) | floatRule | str | iso | repr\n  deriving DecidableEq, Repr\n\n"
            + "\n\n".join(parts) + "\n\nend Serif.Gen.TD\n")
    return text, errors


# ---------------------------------------------------------------------------------------------
# naming._sanitize_user_name: the pipeline (the regular expressions and str methods are named oracles)
# ---------------------------------------------------------------------------------------------
def translate_sanitize(src):
    """Statement-by-statement translation of `_sanitize_user_name` after `name = name.lower()`.  The primitives are parameters whose
    defining Python expression is checked literally: `subRuns` = `re.sub(r'[^a-z0-9_]+', '_', ·)`, `strip` = `·.strip('_')`,
    `isDigit` = `str.isdigit` on the first character, `matchesIndexed` = `re.match(r'^.+__\\d+$', ·)`, `reserved` =
    `· in _get_reserved_names()`."""
    tree = ast.parse(src)
    f = find_func(tree, "_sanitize_user_name")
    body = [s for s in f.body if not (isinstance(s, ast.Expr) and isinstance(s.value, ast.Constant))]
    pre = [ast.unparse(s) for s in body[:2]]
    if pre != ["if not isinstance(name, str):\n    name = str(name)", "name = name.lower()"]:
        raise TranslateError("_sanitize_user_name: prologue")

    def sx(node):
        u = ast.unparse(node)
        if u == "re.sub('[^a-z0-9_]+', '_', name)":
            return "subRuns name"
        if u == "sanitized.strip('_')":
            return "strip sanitized"
        if u == "'c' + sanitized":
            return "'c' :: sanitized"
        if u == "sanitized + '_'":
            return "sanitized ++ ['_']"
        raise TranslateError("_sanitize_user_name: expression " + u[:50])

    def cx(node):
        u = ast.unparse(node)
        if u == "sanitized == ''":
            return "sanitized.isEmpty"
        if u == "sanitized[0].isdigit()":
            return "(match sanitized with | c :: _ => isDigit c | [] => false)"
        if u == "re.match('^.+__\\\\d+$', sanitized)":
            return "matchesIndexed sanitized"
        if u == "sanitized in _get_reserved_names()":
            return "reserved sanitized"
        raise TranslateError("_sanitize_user_name: condition " + u[:50])

    def block(stmts, ind):
        pad = " " * ind
        if not stmts:
            raise TranslateError("_sanitize_user_name: path without return")
        s, rest = stmts[0], stmts[1:]
        if isinstance(s, ast.Return):
            u = ast.unparse(s.value)
            if u == "None":
                return pad + "none"
            if u == "sanitized":
                return pad + "some sanitized"
            raise TranslateError("_sanitize_user_name: return " + u)
        if isinstance(s, ast.Assign) and ast.unparse(s.targets[0]) == "sanitized":
            return pad + f"let sanitized := {sx(s.value)}\n" + block(rest, ind)
        if isinstance(s, ast.If) and not s.orelse:
            if len(s.body) == 1 and isinstance(s.body[0], ast.Return):
                return pad + f"if {cx(s.test)} then\n" + block(s.body, ind + 2) + "\n" + pad + "else\n" + block(rest, ind + 2)
            if len(s.body) == 1 and isinstance(s.body[0], ast.Assign) and ast.unparse(s.body[0].targets[0]) == "sanitized":
                return pad + f"let sanitized := if {cx(s.test)} then {sx(s.body[0].value)} else sanitized\n" + block(rest, ind)
        raise TranslateError("_sanitize_user_name: statement " + ast.unparse(s)[:50])

    return ["/-- translated from `naming._sanitize_user_name` after `name = name.lower()` (`none` = returns None) -/\n"
            "def sanitizeUserNameT (subRuns strip : List Char → List Char) (isDigit : Char → Bool)\n"
            "    (matchesIndexed reserved : List Char → Bool) (name : List Char) : Option (List Char) :=\n" + block(body[2:], 2)]


def generate_names(src_dir):
    """sixth generated file: naming._sanitize_user_name"""
    parts, errors = [], []
    try:
        parts += translate_sanitize(open(os.path.join(src_dir, "naming.py")).read())
    except Exception as ex:
        errors.append(("sanitize", f"{type(ex).__name__}: {ex}"))
        parts.append(f"-- sanitize: not translated ({type(ex).__name__})")
    text = ("/- GENERATED by harness/py2lean.py from /repo's working tree — do not edit.\n"
            "   naming._sanitize_user_name, translated; equivalence theorem in Serif/Tie/Sanitize.lean. -/\n"
            "import Serif.Prelude\n\nset_option linter.unusedVariables false\n\nnamespace Serif.Gen.TN\nopen Serif\n\n"
            + "\n\n".join(parts) + "\n\nend Serif.Gen.TN\n")
    return text, errors


# ---------------------------------------------------------------------------------------------
# Vector._elementwise_operation / _elementwise_compare / _unary_operation: the per-element rules and the branch structure
# ---------------------------------------------------------------------------------------------
def translate_elementwise(src):
    """Every generator `tuple(<rule> for x, y in zip(self, other, strict=True))` / `tuple(<rule> for x in self…)` of the three
    helpers: `<rule>` is a conditional expression whose test is a disjunction of `is None` tests on the loop variables; it is
    translated as a match on exactly those variables (all present -> the else-branch with the values bound; otherwise the
    then-branch).  The scalar function (`op_func`, `op`) is a parameter that may raise (`Res`)."""
    tree = ast.parse(src)
    out = []

    def rule(gen, fname, tag, scalar_name):
        if len(gen.generators) != 1 or gen.generators[0].ifs or not isinstance(gen.elt, ast.IfExp):
            raise TranslateError(f"{fname}: generator shape")
        g = gen.generators[0]
        tgt, it = ast.unparse(g.target), ast.unparse(g.iter)
        if tgt == "(x, y)" and it == "zip(self, other, strict=True)":
            vs = ["x", "y"]
        elif tgt == "x" and it in ("self", "self._underlying"):
            vs = ["x"]
        else:
            raise TranslateError(f"{fname}: generator over {it}")
        test = ast.unparse(gen.elt.test)
        if test != " or ".join(f"{v} is None" for v in vs):
            raise TranslateError(f"{fname}: guard {test}")
        then, els = ast.unparse(gen.elt.body), ast.unparse(gen.elt.orelse)
        args = ", ".join(vs + ([] if len(vs) == 2 or scalar_name is None else [scalar_name]))
        if then == "None" and els in (f"op_func({args})",):
            kind, absent, present = "arith", ".ok none", "(match op_func " + " ".join(args.split(", ")) + " with | .ok r => .ok (some r) | .error e => .error e)"
            rtype = "Res (Option γ)"
        elif then == "False" and els == f"bool(op({args}))":
            kind, absent, present = "cmp", ".ok false", "op_func " + " ".join(args.split(", "))
            rtype = "Res Bool"
        else:
            raise TranslateError(f"{fname}: rule {then} / {els}")
        if len(vs) == 2:
            sig = "(op_func : α → β → " + ("Res γ" if kind == "arith" else "Res Bool") + ") (x : Option α) (y : Option β)"
            body = f"  match x, y with\n  | some x, some y => {present}\n  | _, _ => {absent}"
        elif scalar_name:
            sig = "(op_func : α → β → " + ("Res γ" if kind == "arith" else "Res Bool") + f") ({scalar_name} : β) (x : Option α)"
            body = f"  match x with\n  | some x => {present}\n  | none => {absent}"
        else:
            sig = "(op_func : α → " + ("Res γ" if kind == "arith" else "Res Bool") + ") (x : Option α)"
            body = f"  match x with\n  | some x => {present}\n  | none => {absent}"
        tv = "{α β γ : Type} " if kind == "arith" and (len(vs) == 2 or scalar_name) else "{α γ : Type} " if kind == "arith" else "{α β : Type} "
        return (f"/-- translated from `{ast.unparse(gen.elt)}` in `Vector.{fname}` ({tag}) -/\n"
                f"def {tag} {tv}{sig} : {rtype} :=\n{body}")

    def gens_of(node):
        return [n.args[0] for n in ast.walk(node) if isinstance(n, ast.Call) and ast.unparse(n.func) == "tuple" and n.args
                and isinstance(n.args[0], ast.GeneratorExp) and isinstance(n.args[0].elt, ast.IfExp)]

    for fname, pre in (("_elementwise_operation", "arith"), ("_elementwise_compare", "cmp")):
        f = find_func(tree, fname, "Vector")
        tops = [s for s in f.body if isinstance(s, (ast.If, ast.Try, ast.Assign, ast.Return))]
        # the three operand branches, in order: Vector, other iterable, scalar
        vec = [s for s in f.body if isinstance(s, ast.If) and ast.unparse(s.test) == "isinstance(other, Vector)"]
        itb = [s for s in f.body if isinstance(s, ast.If)
               and ast.unparse(s.test) == "isinstance(other, Iterable) and (not isinstance(other, (str, bytes, bytearray)))"]
        if len(vec) != 1 or len(itb) != 1 or f.body.index(vec[0]) > f.body.index(itb[0]):
            raise TranslateError(f"{fname}: operand branches")
        for br, tag in ((vec[0], "Vec"), (itb[0], "Seq")):
            chk = br.body[0]
            if not (isinstance(chk, ast.If) and ast.unparse(chk.test) == "len(self) != len(other)" and len(chk.body) == 1
                    and isinstance(chk.body[0], ast.Raise) and ast.unparse(chk.body[0].exc).startswith("ValueError(")):
                raise TranslateError(f"{fname}: length check of the {tag} branch")
            gs = gens_of(br)
            if not gs:
                raise TranslateError(f"{fname}: no generator in the {tag} branch")
            out.append(rule(gs[0], fname, f"{pre}Cell{tag}T", None))
        after = f.body[f.body.index(itb[0]) + 1:]
        gs = [g for s in after for g in gens_of(s)]
        if len(gs) != 1:
            raise TranslateError(f"{fname}: scalar branch")
        out.append(rule(gs[0], fname, f"{pre}CellScalarT", "other"))
        out.append(f"/-- translated from the branch structure of `Vector.{fname}` for a 1-D `self`: another Vector and any other iterable\n"
                   f"    (not str / bytes / bytearray) first raise ValueError on a length difference and then zip strictly; everything else is a\n"
                   f"    scalar.  `zipT` / `mapT` are the two generator forms. -/\n"
                   f"def {pre}BranchesT {{ρ : Type}} (isVec isSeq : Bool) (lenSelf lenOther : Nat) (zipVec zipSeq mapScalar : Res ρ) : Res ρ :=\n"
                   f"  if isVec then (if lenSelf != lenOther then .error Err.value else zipVec)\n"
                   f"  else if isSeq then (if lenSelf != lenOther then .error Err.value else zipSeq)\n"
                   f"  else mapScalar")
    f = find_func(tree, "_unary_operation", "Vector")
    gs = gens_of(f)
    if len(gs) != 1:
        raise TranslateError("_unary_operation: generator")
    g = gs[0]
    if not (ast.unparse(g.generators[0].target) == "x" and ast.unparse(g.generators[0].iter) == "self"
            and ast.unparse(g.elt) == "None if x is None else op_func(x)"):
        raise TranslateError("_unary_operation: rule")
    out.append("/-- translated from `None if x is None else op_func(x)` in `Vector._unary_operation` -/\n"
               "def unaryCellT {α γ : Type} (op_func : α → Res γ) (x : Option α) : Res (Option γ) :=\n"
               "  match x with\n  | some x => (match op_func x with | .ok r => .ok (some r) | .error e => .error e)\n  | none => .ok none")
    return out


def generate_vec(src_dir):
    """seventh generated file: the per-element rules of the elementwise helpers"""
    parts, errors = [], []
    try:
        parts += translate_elementwise(open(os.path.join(src_dir, "vector.py")).read())
    except Exception as ex:
        errors.append(("elementwise", f"{type(ex).__name__}: {ex}"))
        parts.append(f"-- elementwise: not translated ({type(ex).__name__})")
    text = ("/- GENERATED by harness/py2lean.py from /repo's working tree — do not edit.\n"
            "   Per-element rules and branch structure of Vector._elementwise_operation / _elementwise_compare / _unary_operation;\n"
            "   equivalence theorems in Serif/Tie/Vec.lean. -/\n"
            "import Serif.Prelude\n\nset_option linter.unusedVariables false\n\nnamespace Serif.Gen.TV\nopen Serif\n\n"
            + "\n\n".join(parts) + "\n\nend Serif.Gen.TV\n")
    return text, errors


# ---------------------------------------------------------------------------------------------
# Table.__init__ / Table.__setattr__: the length validation that keeps tables rectangular
# ---------------------------------------------------------------------------------------------
def translate_table_lengths(src):
    tree = ast.parse(src)
    init = find_func(tree, "__init__", "Table")
    stmts = [s for s in init.body if not (isinstance(s, ast.Expr) and isinstance(s.value, ast.Constant))]
    k = [i for i, s in enumerate(stmts) if ast.unparse(s) == "self._length = len(initial[0]) if initial else 0"]
    if len(k) != 1 or k[0] + 1 >= len(stmts):
        raise TranslateError("Table.__init__: _length")
    loop = stmts[k[0] + 1]
    if not (isinstance(loop, ast.For) and ast.unparse(loop.target) == "vec" and ast.unparse(loop.iter) == "initial"
            and len(loop.body) == 1 and isinstance(loop.body[0], ast.If) and ast.unparse(loop.body[0].test) == "len(vec) != self._length"
            and len(loop.body[0].body) == 1 and isinstance(loop.body[0].body[0], ast.Raise)
            and ast.unparse(loop.body[0].body[0].exc).startswith("SerifValueError(") and not loop.body[0].orelse):
        raise TranslateError("Table.__init__: length loop")
    # nothing between the two statements and no earlier statement may assign _length
    if any("_length" in ast.unparse(s) for s in stmts[:k[0]]):
        raise TranslateError("Table.__init__: _length assigned earlier")
    out = ["/-- translated from `Table.__init__`: `self._length = len(initial[0]) if initial else 0`, then `for vec in initial: if len(vec)\n"
           "    != self._length: raise SerifValueError` (`lens` are the lengths of the given columns; `.ok` carries `_length`) -/\n"
           "def tableInitLengthT (lens : List Nat) : Except Err Nat :=\n"
           "  let length := if !lens.isEmpty then lens.headD 0 else 0\n"
           "  match lens.foldlM (fun (_ : Unit) len_vec => if len_vec != length then (.error Err.value : Except Err Unit) else .ok ()) () with\n"
           "  | .error e => .error e\n  | .ok _ => .ok length"]
    sa = find_func(tree, "__setattr__", "Table")
    guards = [s for s in ast.walk(sa) if isinstance(s, ast.If) and "len(value)" in ast.unparse(s.test)]
    if len(guards) != 2:
        raise TranslateError("Table.__setattr__: two length guards expected")
    for g in guards:
        if ast.unparse(g.test) != "self._underlying and len(value) != self._length" or g.orelse or len(g.body) != 1 \
                or not isinstance(g.body[0], ast.Raise) or not ast.unparse(g.body[0].exc).startswith("ValueError("):
            raise TranslateError("Table.__setattr__: guard " + ast.unparse(g.test)[:60])
    out.append("/-- translated from both column-replacement paths of `Table.__setattr__`: `if self._underlying and len(value) !=\n"
               "    self._length: raise ValueError` (`ncols` = `len(self._underlying)`) -/\n"
               "def setattrRefusesT (ncols lenValue length : Nat) : Bool :=\n  (ncols != 0) && (lenValue != length)")
    ln = find_func(tree, "__len__", "Table")
    want = ["if len(self._underlying) == 0:\n    return 0", "if isinstance(self._underlying[0], Table):\n    return len(self._underlying)",
            "return self._length"]
    if [ast.unparse(s) for s in ln.body if not (isinstance(s, ast.Expr) and isinstance(s.value, ast.Constant))] != want:
        raise TranslateError("Table.__len__")
    out.append("/-- translated from `Table.__len__` (`firstIsTable`: the first column is itself a Table) -/\n"
               "def tableLenT (ncols : Nat) (firstIsTable : Bool) (length : Nat) : Nat :=\n"
               "  if ncols == 0 then 0 else if firstIsTable then ncols else length")
    return out


def generate_tab(src_dir):
    """eighth generated file: the length validation of Table"""
    parts, errors = [], []
    try:
        parts += translate_table_lengths(open(os.path.join(src_dir, "table.py")).read())
    except Exception as ex:
        errors.append(("table_lengths", f"{type(ex).__name__}: {ex}"))
        parts.append(f"-- table_lengths: not translated ({type(ex).__name__})")
    text = ("/- GENERATED by harness/py2lean.py from /repo's working tree — do not edit.\n"
            "   Length validation of Table.__init__ / __setattr__ and Table.__len__; theorems in Serif/Tie/Tab.lean. -/\n"
            "import Serif.Prelude\n\nset_option linter.unusedVariables false\n\nnamespace Serif.Gen.TT\nopen Serif\n\n"
            + "\n\n".join(parts) + "\n\nend Serif.Gen.TT\n")
    return text, errors


# ---------------------------------------------------------------------------------------------
# sort_by: the None flag of the sort keys (Table.sort_by's key_fn, Vector.sort_by's two lambdas)
# ---------------------------------------------------------------------------------------------
def translate_sort_flags(vsrc, tsrc):
    def bx(node, env):
        """boolean expression over the names in env (python name -> lean name)"""
        if isinstance(node, ast.Name) and node.id in env:
            return env[node.id]
        if isinstance(node, ast.Constant) and isinstance(node.value, bool):
            return "true" if node.value else "false"
        if isinstance(node, ast.UnaryOp) and isinstance(node.op, ast.Not):
            return f"(!{bx(node.operand, env)})"
        if isinstance(node, ast.BoolOp):
            return "(" + (" && " if isinstance(node.op, ast.And) else " || ").join(bx(v, env) for v in node.values) + ")"
        if isinstance(node, ast.IfExp):
            return f"(if {bx(node.test, env)} then {bx(node.body, env)} else {bx(node.orelse, env)})"
        if isinstance(node, ast.Compare) and len(node.ops) == 1:
            l, r = node.left, node.comparators[0]
            if isinstance(r, ast.Constant) and r.value is None and isinstance(l, ast.Name) and env.get("@elem") == l.id:
                return "isNone" if isinstance(node.ops[0], ast.Is) else "(!isNone)"
            if isinstance(node.ops[0], (ast.NotEq, ast.Eq)):
                a, b = bx(l, env), bx(r, env)
                return f"({a} != {b})" if isinstance(node.ops[0], ast.NotEq) else f"({a} == {b})"
        raise TranslateError("sort flag: " + ast.unparse(node)[:50])

    out = []
    # Table.sort_by: the nested key_fn
    tf = find_func(ast.parse(tsrc), "sort_by", "Table")
    loops = [s for s in ast.walk(tf) if isinstance(s, ast.For) and ast.unparse(s.iter) == "reversed(list(zip(resolved, rev_flags)))"]
    if len(loops) != 1 or ast.unparse(loops[0].target) != "(col, rev)":
        raise TranslateError("Table.sort_by: key loop (keys applied from last to first)")
    if ast.unparse(loops[0].body[-1]) != "indices.sort(key=key_fn, reverse=rev)":
        raise TranslateError("Table.sort_by: sort call")
    kf = [s for s in loops[0].body if isinstance(s, ast.FunctionDef) and s.name == "key_fn"]
    if len(kf) != 1:
        raise TranslateError("Table.sort_by: key_fn")
    body = [s for s in kf[0].body if not (isinstance(s, ast.Expr) and isinstance(s.value, ast.Constant))]
    if [ast.unparse(s) for s in body[:2]] != ["v = data[i]", "is_none = v is None"] or ast.unparse(body[-1]) != "return (flag, v)":
        raise TranslateError("Table.sort_by: key_fn frame")
    env = {"na_last": "naLast", "rev": "rev", "is_none": "isNone"}

    def flag_of(stmts):
        if len(stmts) == 1 and isinstance(stmts[0], ast.Assign) and ast.unparse(stmts[0].targets[0]) == "flag":
            return bx(stmts[0].value, env)
        if len(stmts) == 1 and isinstance(stmts[0], ast.If):
            return f"(if {bx(stmts[0].test, env)} then {flag_of(stmts[0].body)} else {flag_of(stmts[0].orelse)})"
        raise TranslateError("Table.sort_by: flag assignment")

    out.append("/-- translated from `key_fn` inside `Table.sort_by`: the first component of the key tuple `(flag, v)` -/\n"
               f"def tableSortFlagT (isNone rev naLast : Bool) : Bool :=\n  {flag_of(body[2:-1])}")
    # Vector.sort_by: two lambdas chosen by a test
    vf = find_func(ast.parse(vsrc), "sort_by", "Vector")
    sel = [s for s in vf.body if isinstance(s, ast.If) and any(isinstance(n, ast.Lambda) for n in ast.walk(s))]
    if len(sel) != 1 or len(sel[0].body) != 1 or len(sel[0].orelse) != 1:
        raise TranslateError("Vector.sort_by: key selection")
    if not any(ast.unparse(s) == "new_values = tuple(sorted(self._underlying, key=key_fn, reverse=reverse))" for s in vf.body):
        raise TranslateError("Vector.sort_by: sorted call")

    def lam(stmt):
        if not (isinstance(stmt, ast.Assign) and ast.unparse(stmt.targets[0]) == "key_fn" and isinstance(stmt.value, ast.Lambda)
                and isinstance(stmt.value.body, ast.Tuple) and len(stmt.value.body.elts) == 2):
            raise TranslateError("Vector.sort_by: lambda")
        x = stmt.value.args.args[0].arg
        if ast.unparse(stmt.value.body.elts[1]) != f"{x} if {x} is not None else 0":
            raise TranslateError("Vector.sort_by: value component")
        return bx(stmt.value.body.elts[0], {"@elem": x})

    venv = {"na_last": "naLast", "reverse": "rev"}
    out.append("/-- translated from `Vector.sort_by`: the first component of the key its chosen lambda returns -/\n"
               f"def vectorSortFlagT (isNone rev naLast : Bool) : Bool :=\n"
               f"  if {bx(sel[0].test, venv)} then {lam(sel[0].body[0])} else {lam(sel[0].orelse[0])}")
    return out


def generate_sort(src_dir):
    """ninth generated file: the None flags of the sort keys"""
    parts, errors = [], []
    try:
        parts += translate_sort_flags(open(os.path.join(src_dir, "vector.py")).read(), open(os.path.join(src_dir, "table.py")).read())
    except Exception as ex:
        errors.append(("sort_flags", f"{type(ex).__name__}: {ex}"))
        parts.append(f"-- sort_flags: not translated ({type(ex).__name__})")
    text = ("/- GENERATED by harness/py2lean.py from /repo's working tree — do not edit.\n"
            "   The None flag of the sort keys of Table.sort_by / Vector.sort_by; theorems in Serif/Tie/Sort.lean. -/\n"
            "import Serif.Prelude\n\nset_option linter.unusedVariables false\n\nnamespace Serif.Gen.TS\nopen Serif\n\n"
            + "\n\n".join(parts) + "\n\nend Serif.Gen.TS\n")
    return text, errors


def translate_vector_reductions(vsrc):
    tree = ast.parse(vsrc)
    out = []
    for name, want in (("sum", "int"), ("min", "optint"), ("max", "optint"), ("mean", "optrat"), ("stdev", "optrat")):
        f = find_func(tree, name, "Vector")
        r = _Reducer(f"Vector.{name}")
        e, t = r.translate_method(f)
        if t in ("int", "rat") and want.startswith("opt"):
            e, t = f"some ({e})", "opt" + t
        if t != want:
            raise TranslateError(f"Vector.{name}: result type {t}, expected {want}")
        if r.sqrt != (name == "stdev"):
            raise TranslateError(f"Vector.{name}: square root")
        par = "(population : Bool) " if name == "stdev" else ""
        note = " without its final `** 0.5`" if r.sqrt else ""
        note += "; `none` = `min()`/`max()` of no values raises ValueError" if name in ("min", "max") else ""
        out.append(f"/-- translated from the 1-D branch of `Vector.{name}`{note} -/\n"
                   f"def vector{name.capitalize()}T {par}(vals : List (Option Int)) : {_LTYPE[want]} :=\n  {e}")
    return out
