"""C01 — value semantics: writes stay local, read-only operations are pure."""
from props import histcommon as H

PID = "C01"
RULE = ("random histories (quick: 12 steps, thorough: up to 40) over up to 6 simultaneously live vectors/tables of 3 rows "
        "drawn from the whole public alphabet (construction from lists/dicts/vectors, copy, slice, mask, column selection, "
        ">>, <<, T, joins, aggregate, window, sort, arithmetic, comparison, fillna, column views by attribute / name / cols(), "
        "attribute assignment, renames, vector and table item assignment in every key form, fingerprint, repr, drop, gc); "
        "after a derivation the next step is with probability 0.55 an in-place write through one of the objects involved; plus "
        "~600 scripted histories: every derivation with a degenerate partner or key (its own empty slice, itself, an empty vector "
        "or table, whole-range slice, all-True mask, all columns selected, double transpose, identity arithmetic) followed by "
        "every write form through the result and through the source. "
        "After EVERY step every live handle is observed through the public API (elements, dtype, name per column) and must "
        "show what the Lean heap model shows. non-trivial = the history contains at least one accepted in-place write "
        "while at least two handles are live")
ASSUMPTIONS = ["element values are small ints/floats/strs/bools/None; tables have 3 rows and at most 3+ columns",
               "nested vectors / higher-dimensional results (e.g. t >> Vector(wrong length)) are dropped from the history",
               "what a derived or written object shows is taken from the implementation (its correctness is C05–C14's business); "
               "the check decides which OTHER handles may change"]
BUDGET_S = {"quick": 30, "thorough": 420}
LEVEL_TEXT = ("Proof over an object-identity model of the heap (Lean, Model/ObjHeap.lean): every reachable heap is well-formed "
              "(each column object belongs to at most one table, once — reachable_wf, by induction over arbitrary operation "
              "sequences); an accepted write through a handle changes what another handle shows only if that handle is the same "
              "object or the one table holding it (write_frame, value_semantics, owner_unique); table item assignment changes only "
              "that table and its live column views (tab_write_frame); every operation returning a new object yields an object "
              "graph disjoint from everything that existed (derive_frame, derive_independent); column replacement stores a copy "
              "(setAttr_frame); fingerprint/repr/failed/refused operations change nothing (readonly_frame, refusal_is_noop). "
              "The model is tied to the code by trace validation: random histories over the whole public alphabet are executed on "
              "the real objects and after every step every live handle must show exactly what the model heap shows.")
LEVEL_NOTE = ("Trusted: Lean kernel + standard axioms; the translation of API steps into the 8 model operations in harness/props/c01.py "
              "(which operations are 'derive', which hand out a live column); the observation code. The theorem is about the model; "
              "that serif's operations allocate fresh objects where the model says so is established only on the executed histories "
              "(counts in the evidence).")

DERIVE = {"newvec", "newtab", "tabfrom", "copy", "slice", "mask", "select", "stack", "stackvt", "stackdict", "stackdictv", "append", "appendt", "T",
          "sort", "sortv", "aggregate", "window", "join", "arith", "tarith", "compare", "unary", "fillna", "sharevec",
          "keep", "concat", "sel2d"}


def model_op(st, res, extra, obs):
    op = st["op"]
    if res != "ok":
        if res == "err:alias":
            return {"m": "noop"}
        if op == "write" and obs[st["r"]] is not None and obs[st["r"]]["k"] == "v":
            return {"m": "mutate", "r": st["r"]}
        if op in ("tabwrite", "setattr", "setattr_list", "rename", "renames") and obs[st["t"]] is not None and obs[st["t"]]["k"] == "t":
            return {"m": "tabmutate", "t": st["t"]}
        return {"m": "noop"}
    if op == "keep" and not extra.get("kept"):
        return {"m": "noop"}            # the operation gave no vector / table (a scalar, a list …): nothing was stored
    if op in DERIVE:
        if extra.get("note") == "dropped-unmodelled" or obs[st["dst"]] is None:
            return {"m": "drop", "r": st["dst"]}
        return {"m": "derive", "dst": st["dst"]}
    if op == "getcol":
        if extra.get("is_col") is None:
            return {"m": "derive", "dst": st["dst"]}
        return {"m": "getcol", "dst": st["dst"], "t": st["t"], "j": extra["is_col"]}
    if op == "setattr":
        return {"m": "setattr", "t": st["t"], "j": st["j"], "src": st["src"]}
    if op == "setattr_list":
        # the column is replaced by a fresh vector built from the list: what it shows is taken from the observation
        col = obs[st["t"]]["cols"][st["j"]]
        return {"m": "setattr_val", "t": st["t"], "j": st["j"], "val": {"k": "v", "data": col["data"], "dtype": col["dtype"], "name": col["name"]}}
    if op in ("write", "setname"):
        return {"m": "mutate", "r": st["r"]}
    if op in ("tabwrite", "rename", "renames"):
        return {"m": "tabmutate", "t": st["t"]}
    if op == "fingerprint":
        return {"m": "fingerprint", "r": st["r"]}
    if op == "drop":
        return {"m": "drop", "r": st["r"]}
    return {"m": "noop"}


def slim(o):
    if o is None:
        return None
    if o["k"] == "v":
        return {"k": "v", "data": o["data"], "dtype": o["dtype"], "name": o["name"]}
    if o["k"] == "t":
        return {"k": "t", "cols": [{"data": c["data"], "dtype": c["dtype"], "name": c["name"]} for c in o["cols"]]}
    return {"k": o["k"]}


def degenerate_histories():
    """scripted: every derivation with a degenerate partner or a degenerate key (zero rows, zero-length vector, empty selection,
    whole-range slice, all-True mask, a table joined / stacked / appended with itself or with its own empty slice), followed by
    every write form through the result and through the source.  A derivation that hands back an operand instead of a new object
    only in such a corner shows up as a non-local write here."""
    T0 = {"op": "newtab", "dst": 0, "cols": [["a", [0, 1, 2]], ["b", ["a", "a", "a"]]], "form": "list"}
    V0 = {"op": "newvec", "dst": 0, "vals": [0, 1, 2], "name": "a"}
    E = {"op": "slice", "dst": 1, "src": 0, "key": ["slice", 0, 0, None]}            # zero rows / empty vector
    FULL = ["slice", None, None, None]
    tab_derives = [
        [E, {"op": "appendt", "dst": 2, "a": 0, "b": 1}], [E, {"op": "appendt", "dst": 2, "a": 1, "b": 0}],
        [{"op": "appendt", "dst": 2, "a": 0, "b": 0}],
        [{"op": "slice", "dst": 2, "src": 0, "key": FULL}], [{"op": "slice", "dst": 2, "src": 0, "key": ["slice", 0, 3, None]}],
        [{"op": "slice", "dst": 2, "src": 0, "key": ["slice", None, None, 1]}],
        [{"op": "mask", "dst": 2, "src": 0, "mask": [True, True, True]}], [{"op": "select", "dst": 2, "src": 0, "names": ["a", "b"]}],
        [{"op": "copy", "dst": 2, "src": 0}], [{"op": "copy", "dst": 2, "src": 0, "how": "py"}], [{"op": "copy", "dst": 2, "src": 0, "how": "deep"}],
        [{"op": "T", "dst": 1, "src": 0}, {"op": "T", "dst": 2, "src": 1}],
        [{"op": "sort", "dst": 2, "src": 0, "by": "a", "rev": False}], [{"op": "sort", "dst": 2, "src": 0, "by": "b", "rev": False}],
        [{"op": "tarith", "dst": 2, "a": 0, "b": ["scalar", 1], "f": "mul"}],
        [{"op": "join", "dst": 2, "L": 0, "R": 0, "kind": "inner_join"}], [{"op": "join", "dst": 2, "L": 0, "R": 0, "kind": "join"}],
        [E, {"op": "join", "dst": 2, "L": 0, "R": 1, "kind": "join"}], [E, {"op": "join", "dst": 2, "L": 0, "R": 1, "kind": "full_join"}],
        [E, {"op": "join", "dst": 2, "L": 1, "R": 0, "kind": "full_join"}],
        [{"op": "aggregate", "dst": 2, "src": 0, "by": "a", "rev": False}], [{"op": "window", "dst": 2, "src": 0, "by": "a", "rev": False}],
        [{"op": "newvec", "dst": 1, "vals": [], "name": "z"}, {"op": "stack", "dst": 2, "a": 0, "b": 1}],
        [{"op": "newtab", "dst": 1, "cols": [], "form": "list"}, {"op": "stack", "dst": 2, "a": 0, "b": 1}],
        [{"op": "newtab", "dst": 1, "cols": [], "form": "list"}, {"op": "stack", "dst": 2, "a": 1, "b": 0}],
        [{"op": "stackdict", "dst": 2, "a": 0, "name": "n", "vals": [5, 6, 7]}],
        [{"op": "getcol", "dst": 1, "t": 0, "j": 0, "how": "cols"}, {"op": "tabfrom", "dst": 2, "srcs": [1], "form": "list"}],
        [{"op": "getcol", "dst": 1, "t": 0, "j": 0, "how": "cols"}, {"op": "setattr", "t": 0, "j": 0, "src": 1},
         {"op": "slice", "dst": 2, "src": 0, "key": FULL}],
    ]
    # derivations through the second indexing dimension, Vector-valued keys, kept results of "nothing to do" operations and the other
    # constructor spellings (each must give a NEW object also when it selects everything / changes nothing)
    tab_derives += [[{"op": "sel2d", "dst": 2, "src": 0, "rows": rows, "cols": cols}]
                    for rows in (FULL, ["slice", 0, 3, None]) for cols in (["int", 0], ["name", "a"], ["slice", None, None], ["slice", 0, 2],
                                                                           ["names", ["a", "b"]], ["names", ["a"]])]
    tab_derives += [[{"op": "keep", "dst": 2, "r": 0, "f": f}] for f in sorted(H.KEEP_T)]
    tab_derives += [[{"op": "mask", "dst": 2, "src": 0, "mask": [True, True, True], "how": "vec"}],
                    [{"op": "mask", "dst": 2, "src": 0, "mask": [], "take": [0, 1, 2], "how": "vec"}],
                    [{"op": "getcol", "dst": 1, "t": 0, "j": 0, "how": "cols"}, {"op": "tabfrom", "dst": 2, "srcs": [1], "form": "dict"}],
                    [{"op": "getcol", "dst": 1, "t": 0, "j": 0, "how": "cols"}, {"op": "tabfrom", "dst": 2, "srcs": [1, 1], "form": "vector"}],
                    [{"op": "getcol", "dst": 1, "t": 0, "j": 0, "how": "cols"}, {"op": "tabfrom", "dst": 2, "srcs": [1, 1], "form": "rshift"}],
                    # a table-level write whose VALUE is a live vector / table: the value is read, never adopted
                    [{"op": "newvec", "dst": 1, "vals": [4, 5, 6], "name": "v"}, {"op": "copy", "dst": 2, "src": 0},
                     {"op": "tabwrite", "t": 2, "form": "colslot", "col": 0, "src": 1, "rows": "all"},
                     {"op": "write", "r": 1, "key": ["int", 0], "val": ["scalar", 8]}],
                    [{"op": "newvec", "dst": 1, "vals": [4, 5, 6], "name": "v"}, {"op": "copy", "dst": 2, "src": 0},
                     {"op": "tabwrite", "t": 2, "form": "colslot", "col": 0, "src": 1, "rows": "range"},
                     {"op": "write", "r": 1, "key": ["int", 0], "val": ["scalar", 8]}],
                    [{"op": "copy", "dst": 2, "src": 0}, {"op": "tabwrite", "t": 2, "form": "tabslot", "src": 0, "how": "whole"}],
                    [{"op": "copy", "dst": 2, "src": 0}, {"op": "tabwrite", "t": 2, "form": "tabslot", "src": 0, "how": "region"}],
                    [{"op": "copy", "dst": 2, "src": 0}, {"op": "tabwrite", "t": 2, "form": "tabslot", "src": 2, "how": "whole"}],
                    [{"op": "getcol", "dst": 1, "t": 0, "j": 0, "how": "cols"}, {"op": "copy", "dst": 2, "src": 0},
                     {"op": "tabwrite", "t": 2, "form": "colslot", "col": 0, "src": 1, "rows": "all"}],
                    [{"op": "getcol", "dst": 1, "t": 0, "j": 0, "how": "cols"}, {"op": "copy", "dst": 2, "src": 0},
                     {"op": "setattr", "t": 2, "j": 0, "src": 1, "indexed": True}]]
    tab_writes = [{"op": "tabwrite", "t": 2, "form": "cell", "row": 0, "col": 0, "val": 9},
                  {"op": "tabwrite", "t": 2, "form": "rowslice", "start": 0, "stop": 2, "val": 7},
                  {"op": "rename", "t": 2, "old": "a", "new": "r1"},
                  {"op": "getcol", "dst": 3, "t": 2, "j": 0, "how": "cols"}]
    tail = [{"op": "write", "r": 3, "key": ["int", 0], "val": ["scalar", 5]}, {"op": "setname", "r": 3, "name": "zz"},
            {"op": "tabwrite", "t": 0, "form": "cell", "row": 1, "col": 0, "val": 7},
            {"op": "tabwrite", "t": 1, "form": "cell", "row": 0, "col": 0, "val": 7}]
    for d in tab_derives:
        for wr in tab_writes:
            yield {"fam": "degenerate", "steps": [T0] + d + [wr] + tail}
    vec_derives = [
        [E, {"op": "arith", "dst": 2, "a": 0, "b": ["scalar", 0], "f": "add"}], [{"op": "arith", "dst": 2, "a": 0, "b": ["scalar", 1], "f": "mul"}],
        [{"op": "slice", "dst": 2, "src": 0, "key": FULL}], [{"op": "slice", "dst": 2, "src": 0, "key": ["slice", 0, 3, None]}],
        [{"op": "mask", "dst": 2, "src": 0, "mask": [True, True, True]}], [{"op": "copy", "dst": 2, "src": 0}],
        [{"op": "copy", "dst": 2, "src": 0, "how": "py"}], [{"op": "copy", "dst": 2, "src": 0, "how": "deep"}],
        [{"op": "sortv", "dst": 2, "src": 0, "rev": False}], [{"op": "fillna", "dst": 2, "a": 0, "val": 0}],
        [{"op": "unary", "dst": 1, "a": 0}, {"op": "unary", "dst": 2, "a": 1}], [{"op": "sharevec", "dst": 2, "src": 0}],
        [{"op": "tabfrom", "dst": 1, "srcs": [0], "form": "list"}, {"op": "getcol", "dst": 2, "t": 1, "j": 0, "how": "cols"}],
    ]
    vec_derives += [[{"op": "keep", "dst": 2, "r": 0, "f": f}] for f in sorted(H.KEEP_V)]
    vec_derives += [[{"op": "mask", "dst": 2, "src": 0, "mask": [True, True, True], "how": "vec"}],
                    [{"op": "mask", "dst": 2, "src": 0, "mask": [], "take": [0, 1, 2], "how": "list"}],
                    [{"op": "mask", "dst": 2, "src": 0, "mask": [], "take": [0, 1, 2], "how": "vec"}],
                    [{"op": "copy", "dst": 2, "src": 0, "how": "ctor"}], [{"op": "copy", "dst": 2, "src": 0, "how": "named"}],
                    [E, {"op": "concat", "dst": 2, "a": 0, "b": ["slot", 1]}], [E, {"op": "concat", "dst": 2, "a": 1, "b": ["slot", 0]}],
                    [{"op": "concat", "dst": 2, "a": 0, "b": ["list", []]}], [{"op": "concat", "dst": 2, "a": 0, "b": ["list", []], "rev": True}],
                    # a write whose VALUE or KEY is a live vector: it is read, never adopted
                    [{"op": "copy", "dst": 2, "src": 0}, {"op": "write", "r": 2, "key": FULL, "val": ["vslot", 0]}],
                    [{"op": "copy", "dst": 2, "src": 0}, {"op": "write", "r": 2, "key": ["slice", 0, 3, None], "val": ["vslot", 0]}],
                    [{"op": "copy", "dst": 2, "src": 0}, {"op": "write", "r": 2, "key": ["kslot", 0], "val": ["vslot", 0]}],
                    [{"op": "copy", "dst": 2, "src": 0}, {"op": "write", "r": 2, "key": ["vmask", [True, True, True]], "val": ["vslot", 0]}]]
    for d in vec_derives:
        for wr in ({"op": "write", "r": 2, "key": ["int", 0], "val": ["scalar", 9]},
                   {"op": "write", "r": 2, "key": ["slice", 0, 2, None], "val": ["scalar", 1.5]}, {"op": "setname", "r": 2, "name": "zz"}):
            yield {"fam": "degenerate", "steps": [V0] + d + [wr, {"op": "write", "r": 0, "key": ["int", 1], "val": ["scalar", 7]}]}


def key_vector_histories():
    """a live vector used as the KEY of a write (positions counted from the end, repeated positions, a mask) is only read: the key
    vector — and a table holding it as a column — shows the same contents afterwards, also when the write is refused half-way"""
    V0 = {"op": "newvec", "dst": 0, "vals": [0, 1, 2], "name": "a"}
    for kvals in ([0, -1], [-1, -3], [-2, -2], [2, -1, 0], [-3, 5], [True, False, True]):
        K = {"op": "newvec", "dst": 1, "vals": list(kvals), "name": "k"}
        n = sum(1 for x in kvals if x is True) if isinstance(kvals[0], bool) else len(kvals)
        for val in (["scalar", 9], ["list", [7, 8, 9][:n]], ["scalar", 1.5]):
            yield {"fam": "degenerate", "steps": [V0, K, {"op": "write", "r": 0, "key": ["kslot", 1], "val": val},
                                                  {"op": "write", "r": 0, "key": ["int", 1], "val": ["scalar", 7]}]}
        # the key is a live column of a table
        yield {"fam": "degenerate", "steps": [V0, {"op": "newtab", "dst": 2, "cols": [["k", list(kvals)]], "form": "list"},
                                              {"op": "getcol", "dst": 1, "t": 2, "j": 0, "how": "cols"},
                                              {"op": "write", "r": 0, "key": ["kslot", 1], "val": ["scalar", 9]}]}


def generate(rng, tier):
    yield from key_vector_histories()
    for spec in degenerate_histories():
        yield spec
    n = 6000 if tier == "quick" else 30000
    for i in range(n):
        yield {"fam": "history", "seed": rng.randrange(1 << 30), "nsteps": 12 if tier == "quick" or i % 3 else 40}


def execute(spec):
    steps, recs = H.run_history(spec, deep=False)
    wsteps = []
    writes = 0
    live = 0
    for r in recs:
        if any(isinstance(c["name"], (int, float)) for o in r["obs"] if o and o["k"] == "t" for c in o["cols"]):
            return {"skip": "non-string column name"}
        m = model_op(r["st"], r["res"], r["extra"], r["obs"])
        if m["m"] in ("mutate", "tabmutate") and r["res"] == "ok":
            writes += 1
            live = max(live, sum(1 for o in r["obs"] if o is not None))
        wsteps.append({"m": m, "desc": {k: v for k, v in r["st"].items()} | {"res": r["res"]}, "obs": [slim(o) for o in r["obs"]]})
    out = {"fam": spec["fam"], "case": {"steps": wsteps}, "impl": {"steps": len(steps), "writes": writes, "live": live},
           "_steps": steps}
    for r in recs:
        c = H.crash_of(r["st"], r["res"])
        if c:
            out["py_fail"] = c
            break
    return out


def nontrivial(spec, wire):
    return wire["impl"]["writes"] >= 1 and wire["impl"]["live"] >= 2


def histogram(spec, wire):
    out = []
    for s in wire["case"]["steps"]:
        out.append("op:" + s["desc"]["op"])
        out.append("model:" + s["m"]["m"])
        if s["desc"]["res"] != "ok":
            out.append("res:" + s["desc"]["res"])
    return out


def shrink(spec):
    return H.shrink_history(spec, execute)


def snippet(spec):
    return H.snippet_history(spec)
