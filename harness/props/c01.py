"""C01 — value semantics: writes stay local, read-only operations are pure."""
from props import histcommon as H

PID = "C01"
RULE = ("random histories (quick: 12 steps, thorough: up to 40) over up to 6 simultaneously live vectors/tables of 3 rows "
        "drawn from the whole public alphabet (construction from lists/dicts/vectors, copy, slice, mask, column selection, "
        ">>, <<, T, joins, aggregate, window, sort, arithmetic, comparison, fillna, column views by attribute / name / cols(), "
        "attribute assignment, renames, vector and table item assignment in every key form, fingerprint, repr, drop, gc); "
        "after a derivation the next step is with probability 0.55 an in-place write through one of the objects involved. "
        "After EVERY step every live handle is observed through the public API (elements, dtype, name per column) and must "
        "show what the Lean heap model shows. non-trivial = the history contains at least one accepted in-place write "
        "while at least two handles are live")
ASSUMPTIONS = ["element values are small ints/floats/strs/bools/None; tables have 3 rows and at most 3+ columns",
               "nested vectors / higher-dimensional results (e.g. t >> Vector(wrong length)) are dropped from the history",
               "what a derived or written object shows is taken from the implementation (its correctness is C05–C14's business); "
               "the check decides which OTHER handles may change"]
BUDGET_S = {"quick": 30, "thorough": 420}
LEVEL_TEXT = ("Proof over an object-identity model of the heap (Lean, Model/ObjHeap.lean): every reachable heap is well-formed "
              "(each column object belongs to at most one table, once — reachable_wf, by induction over arbitrary operation "
              "sequences); an accepted write through a handle changes what another handle shows only if that handle is the same "
              "object or the one table holding it (write_frame, value_semantics, owner_unique); table item assignment changes only "
              "that table and its live column views (tab_write_frame); every operation returning a new object yields an object "
              "graph disjoint from everything that existed (derive_frame, derive_independent); column replacement stores a copy "
              "(setAttr_frame); fingerprint/repr/failed/refused operations change nothing (readonly_frame, refusal_is_noop). "
              "The model is tied to the code by trace validation: random histories over the whole public alphabet are executed on "
              "the real objects and after every step every live handle must show exactly what the model heap shows.")
LEVEL_NOTE = ("Trusted: Lean kernel + standard axioms; the translation of API steps into the 8 model operations in harness/props/c01.py "
              "(which operations are 'derive', which hand out a live column); the observation code. The theorem is about the model; "
              "that serif's operations allocate fresh objects where the model says so is established only on the executed histories "
              "(counts in the evidence).")

DERIVE = {"newvec", "newtab", "tabfrom", "copy", "slice", "mask", "select", "stack", "stackdict", "stackdictv", "append", "appendt", "T",
          "sort", "sortv", "aggregate", "window", "join", "arith", "tarith", "compare", "unary", "fillna", "sharevec"}


def model_op(st, res, extra, obs):
    op = st["op"]
    if res != "ok":
        if res == "err:alias":
            return {"m": "noop"}
        if op == "write" and obs[st["r"]] is not None and obs[st["r"]]["k"] == "v":
            return {"m": "mutate", "r": st["r"]}
        if op in ("tabwrite", "setattr", "setattr_list", "rename", "renames") and obs[st["t"]] is not None and obs[st["t"]]["k"] == "t":
            return {"m": "tabmutate", "t": st["t"]}
        return {"m": "noop"}
    if op in DERIVE:
        if extra.get("note") == "dropped-unmodelled" or obs[st["dst"]] is None:
            return {"m": "drop", "r": st["dst"]}
        return {"m": "derive", "dst": st["dst"]}
    if op == "getcol":
        if extra.get("is_col") is None:
            return {"m": "derive", "dst": st["dst"]}
        return {"m": "getcol", "dst": st["dst"], "t": st["t"], "j": extra["is_col"]}
    if op == "setattr":
        return {"m": "setattr", "t": st["t"], "j": st["j"], "src": st["src"]}
    if op == "setattr_list":
        # the column is replaced by a fresh vector built from the list: what it shows is taken from the observation
        col = obs[st["t"]]["cols"][st["j"]]
        return {"m": "setattr_val", "t": st["t"], "j": st["j"], "val": {"k": "v", "data": col["data"], "dtype": col["dtype"], "name": col["name"]}}
    if op in ("write", "setname"):
        return {"m": "mutate", "r": st["r"]}
    if op in ("tabwrite", "rename", "renames"):
        return {"m": "tabmutate", "t": st["t"]}
    if op == "fingerprint":
        return {"m": "fingerprint", "r": st["r"]}
    if op == "drop":
        return {"m": "drop", "r": st["r"]}
    return {"m": "noop"}


def slim(o):
    if o is None:
        return None
    if o["k"] == "v":
        return {"k": "v", "data": o["data"], "dtype": o["dtype"], "name": o["name"]}
    if o["k"] == "t":
        return {"k": "t", "cols": [{"data": c["data"], "dtype": c["dtype"], "name": c["name"]} for c in o["cols"]]}
    return {"k": o["k"]}


def generate(rng, tier):
    n = 2500 if tier == "quick" else 30000
    for i in range(n):
        yield {"fam": "history", "seed": rng.randrange(1 << 30), "nsteps": 12 if tier == "quick" or i % 3 else 40}


def execute(spec):
    steps, recs = H.run_history(spec, deep=False)
    wsteps = []
    writes = 0
    live = 0
    for r in recs:
        if any(isinstance(c["name"], (int, float)) for o in r["obs"] if o and o["k"] == "t" for c in o["cols"]):
            return {"skip": "non-string column name"}
        m = model_op(r["st"], r["res"], r["extra"], r["obs"])
        if m["m"] in ("mutate", "tabmutate") and r["res"] == "ok":
            writes += 1
            live = max(live, sum(1 for o in r["obs"] if o is not None))
        wsteps.append({"m": m, "desc": {k: v for k, v in r["st"].items()} | {"res": r["res"]}, "obs": [slim(o) for o in r["obs"]]})
    return {"fam": spec["fam"], "case": {"steps": wsteps}, "impl": {"steps": len(steps), "writes": writes, "live": live},
            "_steps": steps}


def nontrivial(spec, wire):
    return wire["impl"]["writes"] >= 1 and wire["impl"]["live"] >= 2


def histogram(spec, wire):
    out = []
    for s in wire["case"]["steps"]:
        out.append("op:" + s["desc"]["op"])
        out.append("model:" + s["m"]["m"])
        if s["desc"]["res"] != "ok":
            out.append("res:" + s["desc"]["res"])
    return out


def shrink(spec):
    return H.shrink_history(spec, execute)


def snippet(spec):
    return H.snippet_history(spec)
