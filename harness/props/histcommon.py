"""Random histories over live serif objects, shared by C01, C02, C16 (and used by C15/C17 variants).

A history is a list of concrete steps (JSON dicts).  The engine owns every object in `World.slots`;
each step runs in its own function frame and after every step all non-empty slots are observed through the
public API.  A spec is either {"fam", "seed", "nsteps", ...} (steps are drawn while executing, depending on
the live slot types, and recorded) or {"fam", "steps": [...]} (replay / shrink form).
"""
import gc, random, warnings, operator
from values import Interner, dtype_wire, err_class, storage

NSLOTS = 6
VALS = [0, 1, 2, None, "a", 1.5, True, 1.0]
DATES = ["D:2020-01-01", "D:2020-01-02", "D:1999-12-31"]
DATETIMES = ["T:2020-01-01T10:30:00", "T:2021-05-06T00:00:00"]


def dv(x):
    """decode a spec value: 'D:yyyy-mm-dd' is a date, 'T:...' a datetime (specs must stay JSON)"""
    import datetime
    if isinstance(x, str) and x.startswith("D:"):
        return datetime.date.fromisoformat(x[2:])
    if isinstance(x, str) and x.startswith("T:"):
        return datetime.datetime.fromisoformat(x[2:])
    if isinstance(x, str) and x == "F:nan":
        return float("nan")          # a NEW NaN object every time (hash(nan) is per object: a fingerprint must not use it)
    if isinstance(x, str) and x.startswith("C:"):
        re_, im_ = x[2:].split(",")
        return complex(float(re_), float(im_))
    return x


def dvs(xs):
    return [dv(x) for x in xs]
NAMES = ["a", "b", "c", "A b", None, "a"]


def _serif():
    import serif
    return serif


def accessor_names(t, j):
    """attribute names under which column j of table t is reachable — found through the public API only (dir + getattr);
    calling the private _build_column_map() directly would tame renamed columns behind the table's back"""
    base = set(dir(type(t)))
    col = t.cols()[j]
    out = []
    for n in dir(t):
        if n in base or n.startswith("_"):
            continue
        try:
            if getattr(t, n) is col:
                out.append(n)
        except Exception:
            pass
    return out


class World:
    def __init__(self):
        self.slots = [None] * NSLOTS
        self.intern = Interner()

    # ---------------- observation ----------------
    def obs_vec(self, v):
        return {"data": [self.intern.uid(x) for x in v], "dtype": dtype_wire(v.schema()), "name": v.name,
                "tags": [self.intern.wire(x)[0] for x in v]}

    def obs(self, i, deep=True):
        s = _serif()
        o = self.slots[i]
        if o is None:
            return None
        if isinstance(o, s.Table):
            cols = list(o.cols())
            d = {"k": "t", "cols": [self.obs_vec(c) for c in cols], "len": len(o), "shape": list(o.shape)}
            if deep:
                n = len(o)
                try:
                    d["rows_idx"] = [[self.intern.uid(x) for x in tuple(o[r])] for r in range(n)] if cols else []
                except Exception as e:     # the observation itself failing is reported by the judge, not by the harness
                    d["rows_idx"] = [["raised " + err_class(e)]]
                if cols:
                    # negative row positions count from the end; positions outside [-n, n) are not rows (reading one must raise)
                    try:
                        d["rows_neg"] = [[self.intern.uid(x) for x in tuple(o[r])] for r in range(-n, 0)]
                    except Exception as e:
                        d["rows_neg"] = [["raised " + err_class(e)]]
                    oob = []
                    for r in (-n - 1, -2 * n, -2 * n - 1, n, n + 2):
                        if -n <= r < n:
                            continue
                        try:
                            tuple(o[r])
                            oob.append(r)
                        except Exception:
                            pass
                    d["rows_oob"] = oob
                try:
                    d["rows_iter"] = [[self.intern.uid(x) for x in tuple(r)] for r in o]
                except Exception as e:
                    d["rows_iter"] = [["raised " + err_class(e)]]
                d["names"] = o.column_names()
            return d
        if isinstance(o, s.Vector):
            d = self.obs_vec(o)
            d["k"] = "v"
            d["len"] = len(o)
            return d
        return {"k": "other"}

    def observe_all(self, deep=True):
        return [self.obs(i, deep) for i in range(NSLOTS)]

    def kinds(self):
        s = _serif()
        out = []
        for o in self.slots:
            if o is None:
                out.append(None)
            elif isinstance(o, s.Table):
                out.append("t")
            elif isinstance(o, s.Vector) and o.ndims() == 1 or (isinstance(o, s.Vector) and len(o) == 0):
                out.append("v")
            else:
                out.append("x")
        return out


# ---------------- step generation ----------------

def rand_vals(rng, n, kind=None):
    kind = kind or rng.choice(["int", "int", "int", "intnone", "intnone", "str", "str", "float", "float", "mixed", "mixed", "date", "date",
                               "datenone", "datenone", "bool", "floatnan", "complex"])
    pool = {"int": [0, 1, 2, 3], "intnone": [0, 1, 2, None], "str": ["a", "b", "c"], "float": [0.5, 1.5, 2.0],
            "mixed": VALS, "bool": [True, False], "date": DATES, "datenone": DATES + [None, None],
            "floatnan": [0.5, 1.5, "F:nan", None], "complex": ["C:1,2", "C:0,0", "C:0.5,-1"]}[kind]
    return [rng.choice(pool) for _ in range(n)]


def rand_key(rng, n):
    c = rng.random()
    if c < 0.35:
        return ["int", rng.randint(-n - 1, n)] if n else ["int", 0]
    if c < 0.6:
        def e():
            return rng.choice([None, rng.randint(-n - 1, n + 1)])
        return ["slice", e(), e(), rng.choice([None, 1, 2, -1])]
    if c < 0.8:
        return ["mask", [rng.random() < 0.5 for _ in range(n if rng.random() < 0.9 else n + 1)]]
    return ["ilist", [rng.randint(-n, max(n - 1, 0)) for _ in range(rng.randint(1, 3))]]


def mk_key(k):
    if k[0] == "int":
        return k[1]
    if k[0] == "slice":
        return slice(k[1], k[2], k[3])
    if k[0] == "mask":
        return list(k[1])
    if k[0] == "ilist":
        return list(k[1])
    if k[0] == "tuple":
        return tuple(k[1])
    if k[0] in ("vmask", "vilist"):
        return _serif().Vector(list(k[1]))      # the key as a fresh Vector (boolean mask / positions)
    raise ValueError(k)


def rand_wkey(rng, n, vecs, r):
    """key of a vector item assignment: the plain forms of rand_key, plus a tuple of positions, a boolean Vector, a Vector of
    positions, and a LIVE vector (any slot, the written vector itself included) used as the key"""
    c = rng.random()
    if c < 0.66:
        return rand_key(rng, n)
    if c < 0.74:
        return ["tuple", [rng.randint(-n, max(n - 1, 0)) for _ in range(rng.randint(1, 3))]]
    if c < 0.83:
        return ["vmask", [rng.random() < 0.5 for _ in range(n if rng.random() < 0.9 else n + 1)]]
    if c < 0.92:
        return ["vilist", [rng.randint(-n, max(n - 1, 0)) for _ in range(rng.randint(1, 3))]]
    return ["kslot", r if rng.random() < 0.3 else rng.choice(vecs)]


def key_count(key, n):
    """how many positions a key addresses (None: not known here)"""
    try:
        if key[0] == "slice":
            return len(range(n)[slice(key[1], key[2], key[3])])
        if key[0] in ("mask", "vmask"):
            return sum(1 for f in key[1] if f)
        if key[0] in ("ilist", "vilist", "tuple"):
            return len(key[1])
    except Exception:
        pass
    return None


def rand_wval(rng, vecs, r, k=None):
    """value of a vector item assignment: scalar, list, tuple, a fresh Vector, or a LIVE vector (possibly the written one);
    a sequence mostly has as many items as the key addresses (`k`)"""
    c = rng.random()
    if k is not None and rng.random() < 0.75:
        if c < 0.45:
            return ["scalar", rng.choice(VALS + [5, 7] + DATETIMES + DATES[:1] + ["C:1,2", "F:nan"])]
        kind = rng.choice(["int", "int", "mixed", "float", "intnone"])
        if c < 0.72:
            return ["list", rand_vals(rng, k, kind)]
        if c < 0.79:
            return ["tuple", rand_vals(rng, k, kind)]
        if c < 0.86 and k:
            return ["vec", rand_vals(rng, k, kind)]
    if c < 0.45:
        return ["scalar", rng.choice(VALS + [5, 7] + DATETIMES + DATES[:1] + ["C:1,2", "F:nan"])]
    if c < 0.72:
        return ["list", rand_vals(rng, rng.randint(0, 3))]
    if c < 0.79:
        return ["tuple", rand_vals(rng, rng.randint(0, 3))]
    if c < 0.86:
        return ["vec", rand_vals(rng, rng.randint(1, 3))]
    return ["vslot", r if rng.random() < 0.3 else rng.choice(vecs)]


def wval_of(sl, v):
    s = _serif()
    if v[0] == "scalar":
        return dv(v[1])
    if v[0] == "tuple":
        return tuple(dvs(v[1]))
    if v[0] == "vec":
        return s.Vector(dvs(v[1]))
    if v[0] == "vslot":
        return sl[v[1]]
    return dvs(v[1])


def sel_key(w, st):
    """a `mask` step's key object and the row positions it selects (None when the key is not a valid selection):
    a list / Vector of booleans, a list / Vector of positions (`take`), or a live vector used as the key (`kslot`)"""
    s = _serif()
    n = len(w.slots[st["src"]])
    how = st.get("how", "list")
    if "kslot" in st:
        key = w.slots[st["kslot"]]
        items = list(key)
    elif "take" in st:
        items = list(st["take"])
        key = s.Vector(items) if how == "vec" else items
    else:
        items = list(st["mask"])
        key = s.Vector(items) if how == "vec" else items
    idxs = None
    if items and all(type(x) is bool for x in items) and len(items) == n:
        idxs = [i for i, f in enumerate(items) if f]
    elif items and all(type(x) is int for x in items) and all(-n <= x < n for x in items):
        idxs = [x % n for x in items]
    return key, idxs


def related_slots(st):
    out = []
    for f in ("dst", "src", "a", "t", "r", "L", "R", "kslot"):   # (stackdictv: a, src, dst)
        if isinstance(st.get(f), int):
            out.append(st[f])
    for f in ("key", "val"):                 # a live vector used as the key / the value of a write
        if isinstance(st.get(f), list) and len(st[f]) == 2 and st[f][0] in ("kslot", "vslot"):
            out.append(st[f][1])
    if isinstance(st.get("b"), list) and st["b"][0] == "slot":
        out.append(st["b"][1])
    out += [i for i in st.get("srcs", []) if isinstance(i, int)]
    return out


def poke_step(rng, w, slot):
    """an in-place write through `slot` (vector item assignment / table cell assignment)"""
    k = w.kinds()[slot] if 0 <= slot < NSLOTS else None
    if k == "v":
        n = len(w.slots[slot])
        if n == 0:
            return None
        return {"op": "write", "r": slot, "key": ["int", rng.randrange(n)], "val": ["scalar", rng.choice([5, 7, 8])]}
    if k == "t":
        tb = w.slots[slot]
        nc, n = len(tb.cols()), len(tb)
        if nc == 0 or n == 0:
            return None
        if rng.random() < 0.5:
            return {"op": "tabwrite", "t": slot, "form": "cell", "row": rng.randrange(n), "col": rng.randrange(nc),
                    "val": rng.choice([5, 7, 8])}
        return {"op": "getcol", "dst": rng.randrange(NSLOTS), "t": slot, "j": rng.randrange(nc), "how": rng.choice(["cols", "attr", "str"])}
    return None


# read-only operations whose result is thrown away (all of them must leave every live object as it was)
PROBES_V = {"unique": lambda o: o.unique(), "invert": lambda o: ~o, "pluck": lambda o: o.pluck(0), "argsort": lambda o: o.argsort(),
            "isna": lambda o: o.isna(), "sum": lambda o: o.sum(), "max": lambda o: o.max(), "min": lambda o: o.min(),
            "mean": lambda o: o.mean(), "stdev": lambda o: o.stdev(), "any": lambda o: o.any(), "all": lambda o: o.all(),
            "iter": lambda o: list(o), "contains": lambda o: 1 in o, "schema": lambda o: o.schema(), "shape": lambda o: o.shape(),
            "upper": lambda o: o.upper(), "year": lambda o: o.year, "eqs": lambda o: o == 1, "matmul": lambda o: o @ o,
            "to_object": lambda o: o.to_object(), "dropna": lambda o: o.dropna(), "cast": lambda o: o.cast(str),
            "radd": lambda o: [0] * len(o) + o, "rlshift": lambda o: [9] << o, "neg": lambda o: -o, "abs": lambda o: abs(o),
            "getneg": lambda o: o[-1], "rev": lambda o: o[::-1], "index": lambda o: o.index(1), "count": lambda o: o.count(1),
            "ndims": lambda o: o.ndims(), "T": lambda o: o.T, "hash": lambda o: o.fingerprint(), "str": lambda o: str(o),
            "eqself": lambda o: o == o, "ltself": lambda o: o < o, "addself": lambda o: o + o,
            "deepcopy": lambda o: __import__("copy").deepcopy(o), "pycopy": lambda o: __import__("copy").copy(o)}
PROBES_T = {"peek": lambda o: o.peek(), "iter": lambda o: [list(r) for r in o], "cols": lambda o: o.cols(),
            "column_names": lambda o: o.column_names(), "schema": lambda o: o.schema(), "shape": lambda o: o.shape(),
            "eqs": lambda o: o == 1, "row0": lambda o: list(o[0]), "rowneg": lambda o: list(o[-1]), "rev": lambda o: o[::-1],
            "selall": lambda o: o[tuple(n for n in o.column_names() if isinstance(n, str))], "isna": lambda o: o.isna(),
            "neg": lambda o: -o, "mul": lambda o: o * 2, "sortall": lambda o: o.sort_by(o.cols()[0], reverse=True),
            "agg": lambda o: o.aggregate(over=o.cols()[0], sum_over=o.cols()[-1], mean_over=o.cols()[-1], min_over=o.cols()[-1],
                                         max_over=o.cols()[-1], stdev_over=o.cols()[-1]),
            "win": lambda o: o.window(over=o.cols()[0], sum_over=o.cols()[-1], max_over=o.cols()[-1]),
            "selfjoin": lambda o: o.inner_join(o, o.cols()[0], o.cols()[0], expect="many_to_many"),
            "fulljoin": lambda o: o.full_join(o[::-1], o.cols()[0], o.cols()[0], expect="many_to_many"),
            "dir": lambda o: dir(o), "str": lambda o: str(o), "T": lambda o: o.T, "to_object": lambda o: o.to_object(),
            "dropna": lambda o: o.dropna(), "unique": lambda o: o.unique(), "sum": lambda o: o.sum(),
            "eqself": lambda o: o == o, "neself": lambda o: o != o, "ltself": lambda o: o < o, "addself": lambda o: o + o,
            "deepcopy": lambda o: __import__("copy").deepcopy(o), "pycopy": lambda o: __import__("copy").copy(o)}


# read-only operations whose result is documented to be a NEW vector / table and is KEPT in a slot (and written through later):
# many of them have nothing to do on most inputs (no None to drop or fill, a cast to the kind the vector has, every position
# selected, nothing appended) — the result is a new object all the same
KEEP_V = {k: PROBES_V[k] for k in ("unique", "invert", "isna", "upper", "year", "eqs", "to_object", "dropna", "radd", "rlshift", "neg", "abs",
                                   "rev", "T", "eqself", "ltself", "addself")}
KEEP_V.update({"pos": lambda o: +o, "castsame": lambda o: o.cast(o.schema().kind), "fillnone": lambda o: o.fillna(None),
               "fillfirst": lambda o: o.fillna(next((x for x in o if x is not None), 0)),
               "sortna": lambda o: o.sort_by(na_last=False), "copyname": lambda o: o.copy(name="k"), "copysame": lambda o: o.copy(list(o)),
               "ctor": lambda o: _serif().Vector(o), "ctorname": lambda o: _serif().Vector(o, name=o.name),
               "lshift0": lambda o: o << [], "lshift0t": lambda o: o << (), "lshift0v": lambda o: o << o[0:0], "rlshift0": lambda o: [] << o,
               "lshiftself": lambda o: o << o, "lshift1": lambda o: o << 1, "takeall": lambda o: o[list(range(len(o)))],
               "maskall": lambda o: o[_serif().Vector([True] * len(o))], "selfmask": lambda o: o[o], "mul1": lambda o: o * 1,
               "add0": lambda o: o + 0, "rmul1": lambda o: 1 * o, "and": lambda o: o & o, "or": lambda o: o | o,
               "tabof": lambda o: _serif().Table({"k": o}), "tabof2": lambda o: _serif().Vector([o, o]), "rshself": lambda o: o >> o})
KEEP_T = {k: PROBES_T[k] for k in ("eqs", "rev", "selall", "isna", "neg", "mul", "sortall", "agg", "win", "selfjoin", "fulljoin", "T",
                                   "to_object", "dropna", "unique", "eqself", "neself", "ltself", "addself")}
KEEP_T.update({"pos": lambda o: +o, "abs": lambda o: abs(o), "rmul": lambda o: 1 * o, "radd": lambda o: 0 + o,
               "allrows": lambda o: o[0:len(o)], "maskall": lambda o: o[[True] * len(o)], "vmaskall": lambda o: o[_serif().Vector([True] * len(o))],
               "takeall": lambda o: o[_serif().Vector(list(range(len(o))))], "col0full": lambda o: o[:, 0], "colsfull": lambda o: o[:, :],
               "rshself": lambda o: o >> o, "lshself": lambda o: o << o, "rsh0": lambda o: o >> {}, "sortcol": lambda o: o.sort_by(o.cols()[0]),
               "sortnames": lambda o: o.sort_by([n for n in o.column_names() if isinstance(n, str)][:2]),
               "copyvals": lambda o: o.copy(list(o.cols())), "ctor": lambda o: _serif().Table(list(o.cols())),
               "ctordict": lambda o: _serif().Table({n: c for n, c in zip(o.column_names(), o.cols()) if isinstance(n, str)}),
               "col0": lambda o: o.cols()[0].copy(), "leftjoin": lambda o: o.join(o[0:0], o.cols()[0], o[0:0].cols()[0], expect="many_to_many")})


def choose_step(rng, w, flavor, last=None):
    """draw one applicable concrete step for the current world"""
    if last is not None and rng.random() < 0.55:
        rel = related_slots(last)
        if rel:
            st = poke_step(rng, w, rng.choice(rel))
            if st is not None and not (st["op"] == "getcol" and st["dst"] in rel):
                return st
    kinds = w.kinds()
    vecs = [i for i, k in enumerate(kinds) if k == "v"]
    tabs = [i for i, k in enumerate(kinds) if k == "t"]
    free = [i for i, k in enumerate(kinds) if k is None]
    dst = rng.choice(free) if free and rng.random() < 0.8 else rng.randrange(NSLOTS)
    nrows = 3
    menu = []
    menu += [("newvec", 3), ("newtab", 3)]
    if vecs:
        menu += [("copy", 1), ("slice", 1), ("mask", 1), ("write", 6), ("setname", 1), ("arith", 1), ("compare", 1),
                 ("fingerprint", 2), ("repr", 1), ("sortv", 1), ("sharevec", 1), ("tabfrom", 2), ("unary", 1), ("fillna", 1),
                 ("probe", 3), ("keep", 3), ("concat", 1)]
    if tabs:
        menu += [("copy", 1), ("slice", 2), ("mask", 1), ("select", 2), ("getcol", 5), ("tabwrite", 5), ("rename", 2),
                 ("T", 1), ("sort", 1), ("join", 1), ("aggregate", 1), ("window", 1), ("tarith", 1), ("fingerprint", 3),
                 ("repr", 1), ("stackdict", 1), ("append", 1), ("renames", 1), ("probe", 3), ("keep", 3), ("sel2d", 3)]
    if tabs and vecs:
        menu += [("setattr", 5), ("stack", 3), ("stackdictv", 2), ("stackvt", 2)]
    if tabs:
        menu += [("setattr_list", 3)]
    if len(tabs) >= 2:
        menu += [("stack", 1), ("appendt", 1)]
    menu += [("drop", 2), ("gc", 1)]
    ops = [m for m, wgt in menu for _ in range(wgt)]
    op = rng.choice(ops)
    s = _serif()

    def anyobj():
        return rng.choice(vecs + tabs)

    if op == "newvec":
        n = rng.choice([nrows, nrows, nrows, 0, 1, 4]) if rng.random() < 0.96 else rng.choice([12, 17, 40])   # … and beyond any size threshold
        st = {"op": "newvec", "dst": dst, "vals": rand_vals(rng, n), "name": rng.choice(NAMES)}
        if rng.random() < 0.12:
            st["dt"] = rng.choice(["nullable", "object"])      # a dtype declared wider than the contents need
        return st
    if op == "newtab":
        nc = rng.randint(1, 3)
        names = [rng.choice(["a", "b", "c", "A b", "a"]) for _ in range(nc)]
        nr = rng.choice([nrows, nrows, nrows, nrows, 0, 1]) if rng.random() < 0.97 else rng.choice([12, 40])
        cols = [[nm, rand_vals(rng, nr)] for nm in names]
        if nc > 1 and rng.random() < 0.15:   # malformed stream: ragged input must be rejected
            j = rng.randrange(nc)
            cols[j][1] = rand_vals(rng, rng.choice([nr + 1, max(nr - 1, 0), 0]))
        return {"op": "newtab", "dst": dst, "cols": cols, "form": rng.choice(["list", "list", "dict"])}
    if op == "tabfrom":
        k = rng.randint(1, min(3, len(vecs)))
        # Table([...]), Table({...: vector}), Vector([...vectors...]), v >> w >> …
        return {"op": "tabfrom", "dst": dst, "srcs": [rng.choice(vecs) for _ in range(k)], "form": rng.choice(["list", "list", "dict", "vector", "rshift"])}
    if op == "copy":
        return {"op": "copy", "dst": dst, "src": anyobj(), "how": rng.choice([None, None, "py", "deep", "ctor", "named"])}
    if op == "slice":
        src = anyobj()
        n = len(w.slots[src])
        k = rand_key(rng, n)
        while k[0] != "slice":
            k = rand_key(rng, n)
        return {"op": "slice", "dst": dst, "src": src, "key": k}
    if op == "mask":
        src = anyobj()
        n = len(w.slots[src])
        c = rng.random()
        st = {"op": "mask", "dst": dst, "src": src, "mask": [rng.random() < 0.5 for _ in range(n)]}
        if c < 0.45:
            return st
        if c < 0.6:
            return dict(st, how="vec")                       # the mask as a boolean Vector
        if c < 0.8:                                            # positions (repeated, negative, sometimes out of range), list or Vector
            return dict(st, take=[rng.randint(-n, n - 1 if rng.random() < 0.9 else n) for _ in range(rng.randint(0, n + 1))] if n else [0],
                        how=rng.choice(["list", "vec", "vec"]))
        if vecs:
            return dict(st, kslot=src if src in vecs and rng.random() < 0.3 else rng.choice(vecs))   # a live vector as the key
        return st
    if op == "select":
        t = rng.choice(tabs)
        names = [c for c in w.slots[t].column_names() if isinstance(c, str)]
        # a column can also be asked for by its advertised accessor (sanitised name, name__N of a repeated name, colN_ of an
        # unnamed column) or by another spelling of its name: the selection is a new table all the same
        try:
            for j in range(len(w.slots[t].cols())):
                names += list(accessor_names(w.slots[t], j))[:1]
            names += [nm.upper() for nm in names[:2]]
        except Exception:
            pass
        if not names:
            return {"op": "gc"}
        return {"op": "select", "dst": dst, "src": t, "names": [rng.choice(names) for _ in range(rng.randint(1, 2))]}
    if op == "getcol":
        t = rng.choice(tabs)
        nc = len(w.slots[t].cols())
        if nc == 0:
            return {"op": "gc"}
        return {"op": "getcol", "dst": dst, "t": t, "j": rng.randrange(nc), "how": rng.choice(["cols", "attr", "str"])}
    if op == "setattr":
        t = rng.choice(tabs)
        nc = len(w.slots[t].cols())
        if nc == 0:
            return {"op": "gc"}
        return {"op": "setattr", "t": t, "j": rng.randrange(nc), "src": rng.choice(vecs), "indexed": rng.random() < 0.4}
    if op == "setattr_list":
        t = rng.choice(tabs)
        nc, n = len(w.slots[t].cols()), len(w.slots[t])
        if nc == 0:
            return {"op": "gc"}
        # column replacement by attribute with a plain list (right or wrong length), through the plain accessor or the
        # indexed form `<name>__<idx>`
        return {"op": "setattr_list", "t": t, "j": rng.randrange(nc), "indexed": rng.random() < 0.5,
                "vals": rand_vals(rng, n if rng.random() < 0.6 else rng.choice([n + 1, max(n - 1, 0)]), rng.choice(["int", "str"])),
                # the values as a list, a tuple or a one-shot iterable without len() (generator, map, zip): the length rule is the same
                "as": rng.choice(["list", "list", "tuple", "gen", "map", "zip", "iter"])}
    if op == "write":
        r = rng.choice(vecs)
        n = len(w.slots[r])
        key = rand_wkey(rng, n, vecs, r)
        if key[0] == "kslot" and rng.random() < 0.7:
            good = [i for i in vecs if len(w.slots[i]) == n and w.obs_vec(w.slots[i])["dtype"] in ([1, False], [2, False])]
            if good:
                key = ["kslot", rng.choice(good)]          # a live boolean / integer vector of the right length
        val = rand_wval(rng, vecs, r, key_count(key, n))
        if val[0] == "vslot" and rng.random() < 0.7:
            fit = [i for i in vecs if len(w.slots[i]) == n]
            if fit:
                key, val = rng.choice([["slice", None, None, None], ["slice", 0, n, None], ["mask", [True] * n]]), ["vslot", rng.choice(fit)]
        if key[0] == "int" and val[0] in ("vec", "vslot"):
            key = ["slice", None, None, None]      # (a vector stored AS an element is a nested vector: outside the modelled space)
        return {"op": "write", "r": r, "key": key, "val": val}
    if op == "tabwrite":
        t = rng.choice(tabs)
        tb = w.slots[t]
        nc, n = len(tb.cols()), len(tb)
        form = rng.choice(["cell", "cell", "cell", "row", "row", "col", "col", "region", "region", "rowslice", "rowslice",
                           "cellname", "colsrow", "rowmask", "rowmask", "colslot", "tabslot", "colslist"])
        if nc == 0:
            return {"op": "gc"}
        if form == "cellname":
            # the column addressed by its name, its advertised accessor, another spelling, or a name that does not exist
            nm = tb.column_names()[rng.randrange(nc)]
            cands = [nm] if isinstance(nm, str) else []
            try:
                cands += accessor_names(tb, rng.randrange(nc))[:1]
            except Exception:
                pass
            cands += [c.upper() for c in cands[:1]]
            cands = cands * 3 + ["nope"]
            return {"op": "tabwrite", "t": t, "form": "cellname", "row": rng.randint(-1, n) if rng.random() < 0.3 else rng.randrange(max(n, 1)),
                    "name": rng.choice(cands), "val": rng.choice(VALS + [9] + DATES[:1] + [5, 7, 8, None, 0, 1])}
        if form == "colsrow":
            # several columns addressed by a list / tuple of positions and names (a column may be named twice)
            names = [c for c in tb.column_names() if isinstance(c, str)]
            cols = [rng.choice(names) if names and rng.random() < 0.4 else rng.randint(-nc, nc - 1 if rng.random() < 0.9 else nc)
                    for _ in range(rng.randint(1, 3))]
            if rng.random() < 0.5:
                return {"op": "tabwrite", "t": t, "form": "colsrow", "row": rng.randint(0, max(n - 1, 0)), "cols": cols, "as": rng.choice(["list", "tuple"]),
                        "val": rand_vals(rng, len(cols) if rng.random() < 0.85 else len(cols) + 1, rng.choice(["int", "mixed"]))}
            return {"op": "tabwrite", "t": t, "form": "colsrow", "row": ["slice", rng.randint(0, n), rng.randint(0, n + 1)], "cols": cols,
                    "as": rng.choice(["list", "tuple"]), "val": rng.choice([0, None, 7, "z", 1.5])}
        if form == "rowmask":
            # rows chosen by a mask / positions (list or Vector), or by a comparison on one of the table's own live columns
            c = rng.random()
            if c < 0.25:
                rows = ["mask", [rng.random() < 0.5 for _ in range(n)]]
            elif c < 0.45:
                rows = ["vmask", [rng.random() < 0.5 for _ in range(n)]]
            elif c < 0.6:
                rows = [rng.choice(["ilist", "vilist"]), [rng.randint(-n, max(n - 1, 0)) for _ in range(rng.randint(1, 3))]]
            elif c < 0.85:
                rows = ["colcmp", rng.randrange(nc), rng.choice([0, 1, "a", None, True])]
            else:
                rows = ["colkey", rng.randrange(nc)]
            return {"op": "tabwrite", "t": t, "form": "rowmask", "rows": rows, "col": rng.choice([None, rng.randrange(nc)]),
                    "val": rng.choice([0, None, 7, "z", 1.5, True])}
        if form == "colslot":
            if not vecs:
                return {"op": "gc"}
            fit = [i for i in vecs if len(w.slots[i]) == n]
            st = {"op": "tabwrite", "t": t, "form": "colslot", "col": rng.randrange(nc), "src": rng.choice(fit if fit and rng.random() < 0.8 else vecs),
                  "rows": rng.choice(["all", "all", "range"])}
            both = [(j, i) for i in fit for j in range(nc) if w.slots[i].schema() == tb.cols()[j].schema()]
            if both and rng.random() < 0.7:
                st["col"], st["src"] = rng.choice(both)       # a live vector that fits the column (length and dtype)
            return st
        if form == "tabslot":
            return {"op": "tabwrite", "t": t, "form": "tabslot", "src": t if rng.random() < 0.25 else rng.choice(tabs),
                    "how": rng.choice(["whole", "region", "rows"])}
        if form == "colslist":
            c0 = rng.randrange(nc)
            c1 = rng.randint(c0 + 1, nc)
            return {"op": "tabwrite", "t": t, "form": "colslist", "c0": c0, "c1": c1, "as": rng.choice(["lists", "vecs", "tuple"]),
                    "val": [rand_vals(rng, n if rng.random() < 0.9 else n + 1, rng.choice(["int", "mixed"])) for _ in range(c1 - c0)]}
        if form == "cell":
            return {"op": "tabwrite", "t": t, "form": "cell", "row": rng.randint(-1, n), "col": rng.randrange(nc),
                    "val": rng.choice(VALS + [9] + DATETIMES + DATES[:1])}
        if form == "row":
            return {"op": "tabwrite", "t": t, "form": "row", "row": rng.randint(0, max(n - 1, 0)),
                    "val": rand_vals(rng, nc if rng.random() < 0.85 else nc + 1, rng.choice(["int", "mixed"]))}
        if form == "col":
            return {"op": "tabwrite", "t": t, "form": "col", "col": rng.randrange(nc),
                    "val": rand_vals(rng, n if rng.random() < 0.85 else n + 1, rng.choice(["int", "mixed"]))}
        if form == "rowslice":
            return {"op": "tabwrite", "t": t, "form": "rowslice", "start": rng.randint(0, n), "stop": rng.randint(0, n + 1),
                    "val": rng.choice([0, None, 7, "z"])}
        return {"op": "tabwrite", "t": t, "form": "region", "start": 0, "stop": min(2, n), "c0": 0, "c1": min(2, nc),
                "val": rng.choice([5, None])}
    if op == "setname":
        return {"op": "setname", "r": rng.choice(vecs), "name": rng.choice(["zz", "a", "b", "Q q", None]),
                "how": rng.choice([None, None, None, "alias", "rename"])}
    if op == "rename":
        t = rng.choice(tabs)
        names = w.slots[t].column_names()
        if not names:
            return {"op": "gc"}
        return {"op": "rename", "t": t, "old": rng.choice(names + ["nope"]), "new": rng.choice(["r1", "a", "b", "x y"])}
    if op == "renames":
        t = rng.choice(tabs)
        names = w.slots[t].column_names()
        if not names:
            return {"op": "gc"}
        k = rng.randint(1, 2)
        olds = [rng.choice(names + (["nope"] if rng.random() < 0.3 else [])) for _ in range(k)]
        return {"op": "renames", "t": t, "olds": olds, "news": [rng.choice(["n1", "n2", "a"]) for _ in range(k)]}
    if op == "stack":
        a = rng.choice(tabs)
        b = rng.choice(vecs + tabs)
        return {"op": "stack", "dst": dst, "a": a, "b": b}
    if op == "stackvt":
        # a vector stacked IN FRONT of a table: `v >> t`
        return {"op": "stackvt", "dst": dst, "a": rng.choice(tabs), "b": rng.choice(vecs)}
    if op == "stackdictv":
        return {"op": "stackdictv", "dst": dst, "a": rng.choice(tabs), "name": rng.choice(["n", "a", "zz"]), "src": rng.choice(vecs)}
    if op == "stackdict":
        t = rng.choice(tabs)
        n = len(w.slots[t])
        return {"op": "stackdict", "dst": dst, "a": t, "name": rng.choice(["n", "a"]), "vals": rand_vals(rng, n if rng.random() < 0.85 else n + 1)}
    if op == "append":
        t = rng.choice(tabs)
        nc = len(w.slots[t].cols())
        return {"op": "append", "dst": dst, "a": t, "vals": rand_vals(rng, nc if rng.random() < 0.85 else nc + 1, "int")}
    if op == "appendt":
        return {"op": "appendt", "dst": dst, "a": rng.choice(tabs), "b": rng.choice(tabs)}
    if op == "T":
        return {"op": "T", "dst": dst, "src": rng.choice(tabs)}
    if op in ("sort", "aggregate", "window"):
        t = rng.choice(tabs)
        names = [c for c in w.slots[t].column_names() if isinstance(c, str)]
        if not names:
            return {"op": "gc"}
        return {"op": op, "dst": dst, "src": t, "by": rng.choice(names), "rev": rng.random() < 0.5}
    if op == "sortv":
        return {"op": "sortv", "dst": dst, "src": rng.choice(vecs), "rev": rng.random() < 0.5}
    if op == "join":
        L = rng.choice(tabs)
        R = rng.choice(tabs)
        return {"op": "join", "dst": dst, "L": L, "R": R, "kind": rng.choice(["inner_join", "join", "full_join"])}
    if op == "arith":
        return {"op": "arith", "dst": dst, "a": rng.choice(vecs), "b": rng.choice([["slot", rng.choice(vecs)], ["scalar", rng.choice([1, 2, 0.5])]]),
                "f": rng.choice(["add", "mul", "sub"])}
    if op == "unary":
        return {"op": "unary", "dst": dst, "a": rng.choice(vecs)}
    if op == "fillna":
        return {"op": "fillna", "dst": dst, "a": rng.choice(vecs), "val": rng.choice([0, 1.5, "z"])}
    if op == "tarith":
        return {"op": "tarith", "dst": dst, "a": rng.choice(tabs), "b": rng.choice([["scalar", 1], ["slot", rng.choice(tabs)]]), "f": rng.choice(["add", "mul"])}
    if op == "compare":
        return {"op": "compare", "dst": dst, "a": rng.choice(vecs), "b": rng.choice([["slot", rng.choice(vecs)], ["scalar", 1]]), "f": rng.choice(["eq", "lt", "ge"])}
    if op == "fingerprint":
        return {"op": "fingerprint", "r": anyobj()}
    if op == "repr":
        return {"op": "repr", "r": anyobj()}
    if op == "probe":
        r = anyobj()
        return {"op": "probe", "r": r, "f": rng.choice(sorted(PROBES_V if r in vecs else PROBES_T))}
    if op == "sharevec":
        return {"op": "sharevec", "dst": dst, "src": rng.choice(vecs)}
    if op == "keep":
        r = anyobj()
        return {"op": "keep", "dst": dst, "r": r, "f": rng.choice(sorted(KEEP_V if r in vecs else KEEP_T))}
    if op == "concat":
        return {"op": "concat", "dst": dst, "a": rng.choice(vecs), "b": rng.choice([["slot", rng.choice(vecs)], ["list", rand_vals(rng, rng.randint(0, 2))],
                                                                              ["scalar", rng.choice([0, 1, None, "a", 1.5])]]),
                "rev": rng.random() < 0.2}
    if op == "sel2d":
        t = rng.choice(tabs)
        tb = w.slots[t]
        nc, n = len(tb.cols()), len(tb)
        if nc == 0:
            return {"op": "gc"}
        k = rand_key(rng, n)
        while k[0] != "slice":
            k = rand_key(rng, n)
        if rng.random() < 0.4:
            k = ["slice", None, None, None]           # every row
        names = [c for c in tb.column_names() if isinstance(c, str)]
        c = rng.random()
        if c < 0.3 or not names:
            cols = ["int", rng.randint(-nc, nc - 1)]
        elif c < 0.55:
            cols = ["name", rng.choice(names)]
        elif c < 0.8:
            cols = ["slice", rng.choice([None, 0, 1]), rng.choice([None, nc, 1, 2])]
        else:
            cols = ["names", [rng.choice(names) for _ in range(rng.randint(1, 2))]]
        return {"op": "sel2d", "dst": dst, "src": t, "rows": k, "cols": cols}
    if op == "drop":
        return {"op": "drop", "r": rng.randrange(NSLOTS)}
    return {"op": "gc"}


# ---------------- step execution (each in its own frame; no lingering references) ----------------

def run_step(w, st):
    """returns ('ok', extra) or ('err', class)"""
    s = _serif()
    Vector, Table = s.Vector, s.Table
    op = st["op"]
    sl = w.slots
    extra = {}
    try:
        if op == "newvec":
            vals_ = dvs(st["vals"])
            if st.get("dt") and vals_:
                from serif.typing import DataType, infer_dtype
                dt_ = (DataType(object, nullable=any(x is None for x in vals_)) if st["dt"] == "object"
                       else infer_dtype(vals_).with_nullable(True))
                sl[st["dst"]] = Vector(vals_, dtype=dt_, name=st.get("name"))
            else:
                sl[st["dst"]] = Vector(vals_, name=st.get("name"))
        elif op == "newtab":
            if st["form"] == "dict":
                sl[st["dst"]] = Table({nm: dvs(vals) for nm, vals in st["cols"]})
            else:
                sl[st["dst"]] = Table([Vector(dvs(vals), name=nm) for nm, vals in st["cols"]])
        elif op == "tabfrom":
            form_ = st.get("form", "list")
            if form_ == "dict":
                sl[st["dst"]] = Table({"k%d" % j: sl[i] for j, i in enumerate(st["srcs"])})
            elif form_ == "vector":
                sl[st["dst"]] = Vector([sl[i] for i in st["srcs"]])
            elif form_ == "rshift" and len(st["srcs"]) >= 2:
                acc_ = sl[st["srcs"][0]] >> sl[st["srcs"][1]]
                for i in st["srcs"][2:]:
                    acc_ = acc_ >> sl[i]
                sl[st["dst"]] = acc_
            else:
                sl[st["dst"]] = Table([sl[i] for i in st["srcs"]])
        elif op == "copy":
            import copy as _copy
            how = st.get("how")
            src_ = sl[st["src"]]
            sl[st["dst"]] = (_copy.copy(src_) if how == "py" else _copy.deepcopy(src_) if how == "deep"
                             else Vector(src_, name=src_.name) if how == "ctor" and not isinstance(src_, Table)
                             else src_.copy(name=src_.name) if how == "named" and not isinstance(src_, Table)
                             else src_.copy())
        elif op == "slice":
            sl[st["dst"]] = sl[st["src"]][mk_key(st["key"])]
        elif op == "mask":
            key_, _idxs = sel_key(w, st)
            sl[st["dst"]] = sl[st["src"]][key_]
        elif op == "select":
            sl[st["dst"]] = sl[st["src"]][tuple(st["names"])]
        elif op == "getcol":
            t = sl[st["t"]]
            j = st["j"]
            if st["how"] == "cols":
                c = t.cols()[j]
            elif st["how"] == "str":
                nm = t.column_names()[j]
                c = t[nm] if isinstance(nm, str) else t.cols()[j]
            else:
                acc = accessor_names(t, j)
                c = getattr(t, acc[0]) if acc else t.cols()[j]
            extra["is_col"] = [c is x for x in t.cols()].index(True) if any(c is x for x in t.cols()) else None
            sl[st["dst"]] = c
        elif op == "setattr":
            t = sl[st["t"]]
            acc = accessor_names(t, st["j"])
            name = acc[0]
            if st.get("indexed"):
                import re
                if not re.search(r"__\d+$", name) and not re.fullmatch(r"col\d+_", name):
                    name = f"{name}{'' if name.endswith('_') else '_'}_{st['j']}"
            setattr(t, name, sl[st["src"]])
        elif op == "setattr_list":
            t = sl[st["t"]]
            acc = accessor_names(t, st["j"])
            name = acc[0] if acc else None
            if st.get("indexed") and name is not None:
                import re
                if not re.search(r"__\d+$", name) and not re.fullmatch(r"col\d+_", name):
                    name = f"{name}{'' if name.endswith('_') else '_'}_{st['j']}"
            if name is None:
                raise KeyError("no accessor")
            vals_ = dvs(st["vals"])
            how_ = st.get("as", "list")
            if how_ == "tuple":
                vals_ = tuple(vals_)
            elif how_ == "gen":
                vals_ = (x for x in vals_)
            elif how_ == "map":
                vals_ = map(lambda x: x, vals_)
            elif how_ == "zip":
                vals_ = (a for a, _b in zip(vals_, vals_))
            elif how_ == "iter":
                vals_ = iter(vals_)
            setattr(t, name, vals_)
        elif op == "write":
            k_ = st["key"]
            sl[st["r"]][sl[k_[1]] if k_[0] == "kslot" else mk_key(k_)] = wval_of(sl, st["val"])
        elif op == "tabwrite":
            t = sl[st["t"]]
            f = st["form"]
            if f == "cell":
                t[st["row"], st["col"]] = dv(st["val"])
            elif f == "row":
                t[st["row"]] = dvs(st["val"])
            elif f == "col":
                t[:, st["col"]] = dvs(st["val"])
            elif f == "rowslice":
                t[st["start"]:st["stop"]] = dv(st["val"])
            elif f == "cellname":
                t[st["row"], st["name"]] = dv(st["val"])
            elif f == "colsrow":
                cols_ = list(st["cols"]) if st.get("as") == "list" else tuple(st["cols"])
                if isinstance(st["row"], list):
                    t[mk_key(st["row"] + [None]), cols_] = dv(st["val"])
                else:
                    t[st["row"], cols_] = dvs(st["val"])
            elif f == "rowmask":
                r_ = st["rows"]
                if r_[0] == "colcmp":
                    key_ = t.cols()[r_[1]] == dv(r_[2])       # a mask computed from the table's own live column
                elif r_[0] == "colkey":
                    key_ = t.cols()[r_[1]]                    # the live column itself as the row key
                else:
                    key_ = mk_key(r_)
                if st.get("col") is None:
                    t[key_] = dv(st["val"])
                else:
                    t[key_, st["col"]] = dv(st["val"])
            elif f == "colslot":
                if st.get("rows") == "range":
                    t[0:len(t), st["col"]] = sl[st["src"]]
                else:
                    t[:, st["col"]] = sl[st["src"]]
            elif f == "tabslot":
                src_ = sl[st["src"]]
                if st.get("how") == "whole":
                    t[:] = src_
                elif st.get("how") == "rows":
                    t[0:len(src_)] = src_
                else:
                    t[0:len(src_), 0:len(src_.cols())] = src_
            elif f == "colslist":
                vals_ = [dvs(c) for c in st["val"]]
                if st.get("as") == "vecs":
                    vals_ = [Vector(c) for c in vals_]
                elif st.get("as") == "tuple":
                    vals_ = tuple(tuple(c) for c in vals_)
                t[:, st["c0"]:st["c1"]] = vals_
            else:
                t[st["start"]:st["stop"], st["c0"]:st["c1"]] = dv(st["val"])
        elif op == "setname":
            if st.get("how") == "alias":
                sl[st["r"]].alias(st["name"])             # in place (refused on a vector that has a name)
            elif st.get("how") == "rename":
                sl[st["r"]].rename(st["name"])            # deprecated spelling of the same write
            else:
                sl[st["r"]].name = st["name"]
        elif op == "rename":
            sl[st["t"]].rename_column(st["old"], st["new"])
        elif op == "renames":
            sl[st["t"]].rename_columns(list(st["olds"]), list(st["news"]))
        elif op == "stack":
            sl[st["dst"]] = sl[st["a"]] >> sl[st["b"]]
        elif op == "stackvt":
            sl[st["dst"]] = sl[st["b"]] >> sl[st["a"]]
        elif op == "stackdictv":
            sl[st["dst"]] = sl[st["a"]] >> {st["name"]: sl[st["src"]]}
        elif op == "stackdict":
            sl[st["dst"]] = sl[st["a"]] >> {st["name"]: dvs(st["vals"])}
        elif op == "append":
            sl[st["dst"]] = sl[st["a"]] << dvs(st["vals"])
        elif op == "appendt":
            sl[st["dst"]] = sl[st["a"]] << sl[st["b"]]
        elif op == "T":
            sl[st["dst"]] = sl[st["src"]].T
        elif op == "sort":
            sl[st["dst"]] = sl[st["src"]].sort_by(st["by"], reverse=st["rev"])
        elif op == "sortv":
            sl[st["dst"]] = sl[st["src"]].sort_by(reverse=st["rev"])
        elif op == "aggregate":
            t = sl[st["src"]]
            sl[st["dst"]] = t.aggregate(over=st["by"], count_over=st["by"])
        elif op == "window":
            t = sl[st["src"]]
            sl[st["dst"]] = t.window(over=st["by"], count_over=st["by"])
        elif op == "join":
            L, R = sl[st["L"]], sl[st["R"]]
            sl[st["dst"]] = getattr(L, st["kind"])(R, L.cols()[0], R.cols()[0], expect="many_to_many")
        elif op in ("arith", "tarith", "compare"):
            b = st["b"]
            other = sl[b[1]] if b[0] == "slot" else b[1]
            sl[st["dst"]] = getattr(operator, st["f"])(sl[st["a"]], other)
        elif op == "unary":
            sl[st["dst"]] = -sl[st["a"]]
        elif op == "fillna":
            sl[st["dst"]] = sl[st["a"]].fillna(st["val"])
        elif op == "fingerprint":
            o = sl[st["r"]]
            extra["fp"] = o.fingerprint()
        elif op == "repr":
            extra["repr_len"] = len(repr(sl[st["r"]]))
        elif op == "probe":
            o = sl[st["r"]]
            f = (PROBES_T if isinstance(o, _serif().Table) else PROBES_V).get(st["f"])
            try:
                if f is not None:
                    f(o)
            except RecursionError:
                raise                       # never a legitimate answer: reported as a crash of the step
            except Exception as e:
                extra["probe_err"] = err_class(e)
        elif op == "sharevec":
            sl[st["dst"]] = Vector(storage(sl[st["src"]]), name=sl[st["src"]].name)
        elif op == "keep":
            o = sl[st["r"]]
            f = (KEEP_T if isinstance(o, Table) else KEEP_V).get(st["f"])
            res_ = f(o) if f is not None else None
            if isinstance(res_, Vector) and type(res_).__name__ != "Row":
                sl[st["dst"]] = res_
                extra["kept"] = True
        elif op == "concat":
            b = st["b"]
            other = sl[b[1]] if b[0] == "slot" else dvs(b[1]) if b[0] == "list" else dv(b[1])
            sl[st["dst"]] = (other << sl[st["a"]]) if st.get("rev") else (sl[st["a"]] << other)
        elif op == "sel2d":
            c_ = st["cols"]
            cs_ = c_[1] if c_[0] in ("int", "name") else slice(c_[1], c_[2]) if c_[0] == "slice" else tuple(c_[1])
            sl[st["dst"]] = sl[st["src"]][mk_key(st["rows"]), cs_]
        elif op == "drop":
            sl[st["r"]] = None
        elif op == "gc":
            gc.collect()
        else:
            raise RuntimeError("unknown op " + op)
        return "ok", extra
    except RuntimeError:
        raise
    except Exception as e:
        return "err:" + err_class(e), extra


# operations that have no business raising AttributeError / NameError / UnboundLocalError / RecursionError: those are crashes on a
# legitimate call, not refusals (attribute-style column access and the read-only probes are excluded: there AttributeError is the
# documented answer for a missing column / a method the element type does not have)
NO_CRASH_OPS = {"newvec", "newtab", "tabfrom", "copy", "slice", "mask", "select", "stack", "stackvt", "stackdict", "stackdictv", "append",
                "appendt", "T", "sort", "sortv", "aggregate", "window", "arith", "tarith", "compare", "unary", "fillna", "write",
                "tabwrite", "rename", "renames", "fingerprint", "repr", "sharevec", "setname", "concat", "sel2d"}
CRASH_CLASSES = {"attr", "other:NameError", "other:UnboundLocalError", "other:RecursionError"}


def crash_of(st, res):
    """a sentence if step `st` ended in a crash class, else None"""
    if st.get("op") == "probe" and res == "err:other:RecursionError":
        return f"read-only operation {st.get('f')!r} ended in RecursionError: {st!r}"
    if isinstance(res, str) and res.startswith("err:") and res[4:] in CRASH_CLASSES and st.get("op") in NO_CRASH_OPS:
        return f"{st['op']} crashed with {res[4:].replace('other:', '').replace('attr', 'AttributeError')} on a legitimate call (a crash, not a refusal): {st!r}"
    return None


def valid_result(w, st):
    """a derived object that is neither a flat vector nor a table of flat vectors is outside the modelled space
    (e.g. `t >> Vector(wrong length)` gives a nested non-Table vector): drop it"""
    s = _serif()
    d = st.get("dst")
    if d is None:
        return
    o = w.slots[d]
    if o is None:
        return
    if isinstance(o, s.Table):
        if all(isinstance(c, s.Vector) and not isinstance(c, s.Table) and not any(isinstance(x, s.Vector) for x in c) for c in o.cols()):
            return
    elif isinstance(o, s.Vector):
        if not any(isinstance(x, s.Vector) for x in o):
            return
    w.slots[d] = None
    return "dropped-unmodelled"


def applicable(w, st):
    """is a recorded step executable in the current world (used when replaying shrunk histories)?"""
    kinds = w.kinds()

    def k(i):
        return kinds[i] if isinstance(i, int) and 0 <= i < NSLOTS else None
    op = st["op"]
    need = {"copy": [("src", "vt")], "slice": [("src", "vt")], "mask": [("src", "vt")], "select": [("src", "t")],
            "getcol": [("t", "t")], "setattr": [("t", "t"), ("src", "v")], "setattr_list": [("t", "t")], "write": [("r", "v")], "tabwrite": [("t", "t")],
            "setname": [("r", "v")], "rename": [("t", "t")], "renames": [("t", "t")], "stack": [("a", "t"), ("b", "vt")],
            "stackdict": [("a", "t")], "stackdictv": [("a", "t"), ("src", "v")], "stackvt": [("a", "t"), ("b", "v")], "append": [("a", "t")], "appendt": [("a", "t"), ("b", "t")], "T": [("src", "t")],
            "sort": [("src", "t")], "sortv": [("src", "v")], "aggregate": [("src", "t")], "window": [("src", "t")],
            "join": [("L", "t"), ("R", "t")], "arith": [("a", "v")], "tarith": [("a", "t")], "compare": [("a", "v")],
            "unary": [("a", "v")], "fillna": [("a", "v")], "fingerprint": [("r", "vt")], "repr": [("r", "vt")], "probe": [("r", "vt")],
            "sharevec": [("src", "v")], "tabfrom": [], "keep": [("r", "vt")], "concat": [("a", "v")], "sel2d": [("src", "t")]}.get(op, [])
    for f, allowed in need:
        if k(st.get(f)) is None or k(st[f]) not in allowed:
            return False
    if op == "tabfrom" and not all(k(i) == "v" for i in st["srcs"]):
        return False
    if op in ("arith", "compare", "tarith", "concat") and st["b"][0] == "slot" and k(st["b"][1]) not in ("v", "t"):
        return False
    if op == "write" and ((st["key"][0] == "kslot" and k(st["key"][1]) != "v") or (st["val"][0] == "vslot" and k(st["val"][1]) != "v")):
        return False
    if op == "mask" and "kslot" in st and k(st["kslot"]) != "v":
        return False
    if op == "tabwrite" and st.get("form") in ("colslot", "tabslot") and k(st.get("src")) != ("v" if st["form"] == "colslot" else "t"):
        return False
    if op == "tabwrite" and st.get("form") == "rowmask" and st["rows"][0] in ("colcmp", "colkey") and st["rows"][1] >= len(w.slots[st["t"]].cols()):
        return False
    if op in ("getcol", "setattr", "setattr_list"):
        t = w.slots[st["t"]]
        if st["j"] >= len(t.cols()):
            return False
    if op == "tabwrite" and isinstance(st.get("col"), int) and st["col"] >= len(w.slots[st["t"]].cols()):
        return False
    return True


def run_history(spec, deep=True, fp_check=False):
    """returns (concrete steps, per-step records). A record: {"st": step, "res": "ok"|"err:cls", "extra": {...},
    "obs": [observation of every slot after the step]}"""
    w = World()
    rng = random.Random(spec.get("seed", 0))
    steps, recs = [], []
    given = spec.get("steps")
    n = len(given) if given is not None else spec.get("nsteps", 10)
    with warnings.catch_warnings():
        warnings.simplefilter("ignore")
        for i in range(n):
            if given is not None:
                st = given[i]
                if not applicable(w, st):
                    continue
            else:
                st = choose_step(rng, w, spec.get("flavor"), steps[-1] if steps else None)
            res, extra = run_step(w, st)
            if res == "ok":
                note = valid_result(w, st)
                if note:
                    extra["note"] = note
            rec = {"st": st, "res": res, "extra": extra, "obs": w.observe_all(deep)}
            if fp_check:
                rec["fps"] = fingerprints(w)
            steps.append(st)
            recs.append(rec)
    w.slots = [None] * NSLOTS
    del w
    gc.collect()
    return steps, recs


def rebuild(o):
    """a freshly built object with the same contents, names and dtypes"""
    s = _serif()
    if isinstance(o, s.Table):
        return s.Table([s.Vector(list(c), dtype=c.schema(), name=c.name) for c in o.cols()])
    return s.Vector(list(o), dtype=o.schema(), name=o.name)


def fingerprints(w):
    out = []
    for o in w.slots:
        if o is None:
            out.append(None)
        else:
            try:
                out.append([o.fingerprint(), rebuild(o).fingerprint()])
            except Exception as e:
                out.append(["err", err_class(e)])
    return out


def shrink_history(spec, execute):
    """generic shrinking for history specs: concretise, then drop steps (from the end first)"""
    if "steps" not in spec:
        steps, _ = run_history(spec)
        yield {k: v for k, v in spec.items() if k not in ("seed", "nsteps")} | {"steps": steps}
        return
    st = spec["steps"]
    for i in range(len(st) - 1, -1, -1):
        yield dict(spec, steps=st[:i] + st[i + 1:])


def snippet_history(spec):
    steps = spec.get("steps")
    if steps is None:
        steps, _ = run_history(spec)
    lines = ["from serif import Vector, Table", "s = [None] * %d   # slots" % NSLOTS]
    for st in steps:
        lines.append("# " + repr(st))
    lines.append("# replay with: ./check <Cnn> --replay <this file>")
    return "\n".join(lines)
