"""C10 — left and full outer joins keep every row and pad with None."""
import itertools
from props import joincommon as jc
from props.joincommon import execute, nontrivial, histogram, shrink, snippet, NVARIANTS

PID = "C10"
RULE = ("join (left join) and full_join on the C09 scopes, judged by the Lean model Join.run (probe loop with None padding, "
        "matched-right set, sweep) and the Lean specification Join.specRun (per left row its matches or one padded row; then "
        "the right rows whose key occurs nowhere on the left, in right order). Exhaustive: all pairs of key-column sets over "
        "{0,1,None}, <=3x<=3 rows with 1 key column and <=2x<=2 with 2 key columns [thorough <=4x<=4 / <=3x<=3 (2 key columns: the two methods take turns over the 672400 pairs), and 3 key columns <=2x<=1 / <=1x<=2] for both "
        "methods - this realises every subset of unmatched rows on each side, first-row-unmatched, duplicated unmatched keys "
        "and empty sides; every full_join case is also run as full_join(R, L) and the two results must have the same rows up "
        "to column and row order; random cases as for C09 up to 40x40; small malformed stream; inputs snapshotted before/after. "
        "non-trivial = both sides non-empty, the call returned, and some key matches or repeats"
        ' Further families (joincommon.extra_cases): key lists in another order than the stored columns / with a column listed twice / mixing names, own vectors and external copies, right key columns stored in another order; one table joined with itself on DIFFERENT key columns; two tables keyed by the same external key vector objects; a join, then columns renamed through a view or rename_column (by the new name, by the old name = refused, names exchanged with a payload column), payload cells edited in place or the key column replaced by attribute assignment, then the judged join; sides and single buckets beyond 1000 rows; wide tables with interleaved key columns; key names that are no identifiers or read alike (NFC/NFD, trailing blank, case); zero-row sides without any column; datetime key columns holding raw dates.')
ASSUMPTIONS = ["as for C09: hashable ladder-type keys, validation mirrored and not judged, key equality supplied by Python ==/hash"]
TRUSTED = ["Table construction from Vector(list, name=...) and Table.cols()/column_names()/Vector.schema() used to build and "
           "observe the inputs and the result"]
BUDGET_S = {"quick": 22, "thorough": 300}


def _rot(i):
    return (i * 173 + 7) % NVARIANTS


def _small(nk, ml, mr, start=0, tag="small", alternate=False):
    """both methods on every pair of key-column sets; with `alternate` the two methods take turns (one per pair)"""
    i = start
    for lk, rk in jc.small_pairs(jc.POOLS["int3"], nk, ml, mr):
        i += 1
        if not alternate or i % 2:
            yield {"fam": "left." + tag, "kind": "left", "expect": "many_to_many", "lk": lk, "rk": rk, "v": _rot(i)}
        if not alternate or not i % 2:
            yield {"fam": "full." + tag, "kind": "full", "expect": "many_to_many", "lk": lk, "rk": rk, "v": _rot(i + 1),
                   "swap": True}


def _random(rng, n):
    for _ in range(n):
        lk, rk = jc.random_keys(rng)
        kind = rng.choice(["left", "full"])
        spec = {"fam": kind + ".random", "kind": kind,
               "expect": "many_to_many" if rng.random() < 0.85 else rng.choice(jc.EXPECTS),
               "lk": lk, "rk": rk, "v": rng.randrange(NVARIANTS), "swap": kind == "full"}
        # every 5th random case is run 'warm': an earlier join on the same objects, then in-place key edits
        yield jc.add_warm(rng, spec) if rng.random() < 0.2 else spec


def generate(rng, tier):
    thorough = tier == "thorough"
    yield from _small(1, 3, 3)
    yield from _small(2, 2, 2, 1600)
    yield from jc.scripted_warm("left", kinds=("left",), expects=["many_to_many", "one_to_one"])
    yield from jc.scripted_warm("full", kinds=("full",), expects=["many_to_many", "many_to_one"])
    yield from jc.self_joins("left", kinds=("left",), expects=["many_to_many"])
    yield from jc.self_joins("full", kinds=("full",), expects=["many_to_many"])
    yield from jc.malformed_stream(rng, ["left", "full"], 240 if not thorough else 2400, "outer.malformed")
    # further shapes / states (see joincommon.extra_cases); every full_join case also runs swapped
    yield from jc.extra_cases(rng, "outer", ["left", "full"], ["many_to_many", "many_to_many", "many_to_many", "one_to_many", "many_to_one"],
                              swap=True, scale=1 if not thorough else 10)
    if not thorough:
        yield from _random(rng, 30000)
        return
    big = itertools.chain(_small(1, 4, 4, 0, "small4"), _small(2, 3, 3, 0, "small3x2", alternate=True),
                          _small(3, 2, 1, 0, "small3k"), _small(3, 1, 2, 0, "small3k"))
    yield from jc.interleave([big, _random(rng, 200000)], 64)


LEVEL_TEXT = ("Proof (Lean 4, all key lists, any key/cell type): the left-join loop emits exactly, per left row in order, its "
              "matches in right order or one row padded with None (left_eq_spec, left_rows_in_left_order); full_join emits that list followed by the right "
              "rows whose key occurs nowhere on the left, ascending (full_eq_spec); hence every left row appears in a left join "
              "and every row of both tables in a full join (every_left_row_appears, every_row_appears_full), inner is a sublist of "
              "left and left a prefix of full (inner_sublist_left, left_prefix_full), padded sides are None in every column "
              "(padded_side_none, padded_rows) and full_join(R,L) is a permutation of full_join(L,R) with the sides swapped "
              "(full_symmetric). Sampled: that join/full_join behave like the model (exhaustive small scopes + random), and the "
              "symmetry on the real code.")
LEVEL_NOTE = ("Trusted: Lean kernel, axioms propext/Classical.choice/Quot.sound only; harness + extractor; CPython dict and set "
              "semantics represented by association list / list membership. Validation mirrored, not proved.")
