"""C20 — repr never fails and never misstates shape, dtype or data."""
import datetime, itertools, math, random
from values import Interner, dtype_wire, err_class, storage
from extract_consts import Foo, Bar, Baz

PID = "C20"
RULE = ("vectors: every dtype family (int, float incl. nan/±inf/overflowed/-0.0 and un-coerced ints, bool, str, date, datetime, "
        "complex, bytes, object mixes, all-None, user class) x lengths {0,1,2,2k-1,2k,2k+1,2k+2,50} x set_repr_rows in "
        "{None,0,1,2,3,4,12,13} x with/without None x name patterns, once with row-indexed (pairwise distinct) values and once "
        "with pool values; tables: widths {0,1,2,9,10,11,14} x the same lengths x global settings x per-table overrides "
        "{None,0,1,4,6,13} with random column kinds and names (repeats, reserved words, spaces, case, empty, None), plus random "
        "tables. The Lean model (preview, dtype dispatch of the cell formatter, column truncation, header rows, footer) renders "
        "the same object from Python's own per-cell texts and the compiled judge compares it with repr() line by line modulo "
        "spaces (gap analysis: dtypes declared or inherited rather than inferred - nullable without a None, object/float over ints, as_row -, "
        "cells equal across types side by side, objects shown before and changed since (name, cell, row budget), repr twice, lengths "
        "1000+, widths 21..101): no exception, object unchanged, footer exact, number of body lines, ellipsis position, cells of the first/last k "
        "rows, names row, dtype row. non-trivial = truncated rows or columns, or a None/NaN/inf cell, or non-uniform dtypes, or a "
        "quoted / empty / repeated name, or an empty object")
ASSUMPTIONS = ["per-cell texts (str, repr, f'{v:g}', f'{v:.1f}', isoformat), name quoting (_needs_quote), _sanitize_user_name and "
               "str.lower are oracles computed by Python; alignment/padding is not part of the property and is not judged",
               "a data cell equal to the string '...' prints exactly like the ellipsis (known ambiguity): not generated; neither "
               "are column names equal to '...', nor strings/names containing line breaks (they break the line structure), "
               "nor ints beyond Python's 4300-digit str() limit; for non-str names only 'no exception, object unchanged' is judged",
               "an empty 1-D vector prints only its footer (count 0 and dtype; since the repair d0def31)",
               "the content of the dot-accessor header row is C17's subject: only its presence is checked here",
               "set_repr_rows is restored to None after every case; the model takes the value set_repr_rows(None) resets to "
               "(Gen.reprRowsReset) and MAX_HEAD_COLS (Gen.maxHeadCols) from the source on every run"]
BUDGET_S = {"quick": 25, "thorough": 300}

D, DT = datetime.date, datetime.datetime
NAN, INF = float("nan"), float("inf")
_FOO, _BAR = Foo(), Bar()

class _NoTruth:
    def __bool__(self):
        raise TypeError("the truth value of this comparison result is ambiguous")


class _ArrayLike:
    """a cell whose == does not give a bool (what a Vector, a numpy array or a pandas object stored in an object column does)"""
    def __eq__(self, other):
        return _NoTruth()

    __hash__ = object.__hash__

    def __repr__(self):
        return "<arraylike>"


_ARR = _ArrayLike()

VALS = {
    "None": None, "arr": _ARR,
    "i0": 0, "i-1": -1, "i7": 7, "iBig": 10 ** 30, "iNeg": -(10 ** 18), "iHuge": 10 ** 400,
    "f1": 1.0, "f2.5": 2.5, "fnan": NAN, "finf": INF, "f-inf": -INF, "fover": 1e308 * 10, "fmax": 1e308, "ftiny": 1e-300,
    "f-0": -0.0, "f1e22": 1e22, "f1e16": 1e16, "f123": 123456.789, "f.1": 0.1, "f-2.25": -2.25, "f1e15": 1e15 + 0.5,
    "T": True, "F": False,
    "s": "", "sa": "a", "sbb": "bb", "sbc": "b c", "su": "héllo", "sNone": "None", "s1": "1", "sq": "it's", "sdots": "..",
    "ssp": " x ", "scjk": "日本",
    "d1": D(2020, 1, 1), "d2": D(1, 1, 1), "d3": D(9999, 12, 31),
    "t1": DT(2020, 1, 1, 5), "t2": DT(1999, 12, 31, 23, 59, 59, 123456),
    "c1": 1j, "c2": 2 + 0j, "cnan": complex(NAN, INF),
    "y1": b"x", "y2": b"",
    "tup": (1, 2), "foo": _FOO, "bar": _BAR,
    # values that are equal (and hash-equal) across types, for the gap families only
    "i1": 1, "f0": 0.0, "c1r": complex(1, 0), "c0": 0j, "sTrue": "True", "s1.0": "1.0",
}
# pools of the gap families (kept apart from POOLS so that the classic streams are unchanged)
POOLS2 = {
    "eqmix": ["i1", "f1", "T", "c1r", "s1", "i0", "F", "f0", "f-0", "c0", "sTrue", "s1.0"],   # object column: 1 == 1.0 == True == (1+0j)
    "floateq": ["f1", "i1", "T", "f0", "f-0", "i0", "F"],                                       # float column with un-coerced equals
    "inteq": ["i1", "T", "i0", "F", "i7"],                                                      # int column holding bools
}
DECLS = ["nullable", "object", "float", "sliced", "asrow"]
POOLS = {
    "int": ["i0", "i-1", "i7", "iBig", "iNeg"],
    "float": ["f1", "f2.5", "fnan", "finf", "f-inf", "fover", "fmax", "ftiny", "f-0", "f1e22", "f1e16", "f123", "f.1", "f-2.25", "f1e15"],
    "floatmix": ["f2.5", "i7", "T", "fnan", "iBig", "f1", "finf", "i0"],
    "bool": ["T", "F"],
    "str": ["s", "sa", "sbb", "sbc", "su", "sNone", "s1", "sq", "sdots", "ssp", "scjk"],
    "date": ["d1", "d2", "d3"],
    "datetime": ["t1", "t2"],
    "temporalmix": ["d1", "t1", "t2"],
    "complex": ["c1", "c2", "cnan"],
    "bytes": ["y1", "y2"],
    "object": ["i7", "sa", "f2.5", "tup", "y1", "T", "d1", "sbc", "fnan", "c1", "arr"],
    "none": ["None"],
    "foo": ["foo"],
    "foobar": ["foo", "bar"],
}
KINDS = list(POOLS)
NAMES = [None, "", "x", "sum", "a b", "A", "1abc", "é", "x", "col__1", "it's", "name", "T", "3", "Total Cost", "_", "x_"]
ROWS = [None, 0, 1, 2, 3, 4, 12, 13]
OVERRIDES = [None, 0, 1, 4, 6, 13]
WIDTHS = [0, 1, 2, 9, 10, 11, 14]


NONSTR_NAMES = [["lit", "5"], ["lit", "1.5"], ["lit", "(1, 2)"], ["lit", "True"], ["lit", "0"], ["lit", "1"], ["lit", "1.0"],
                ["lit", "['k']"], ["lit", "{'k': 1}"], ["lit", "(1.0, 2.0)"], ["lit", "7.0"], ["lit", "7"]]
# hash-equal names of different types side by side (a cache keyed by the name must not confuse them)
NONSTR_TABLES = [[["lit", "2"], ["lit", "2.0"], "b"], [["lit", "True"], ["lit", "1"], ["lit", "1.0"]], [["lit", "(1, 2)"], ["lit", "(1.0, 2.0)"]],
                 [["lit", "0"], ["lit", "0.0"], ["lit", "False"]]]


def decode_name(nm):
    """a name is None, a str, or ["lit", <python literal>] for a non-str name (dict keys such as 1 or (1, 2))"""
    if isinstance(nm, list):
        import ast
        return ast.literal_eval(nm[1])
    return nm


def decode(code):
    """value codes: a key of VALS, or a row-indexed value 'i=<n>', 'f=<n>', 's=<n>', 'd=<n>', 't=<n>', 'c=<n>', 'y=<n>'"""
    if code in VALS:
        return VALS[code]
    k, n = code.split("=")
    n = int(n)
    if k == "i":
        return n
    if k == "f":
        return n + 0.5 if n % 2 else float(n)
    if k == "s":
        return f"r{n}"
    if k == "d":
        return D(2020, 1, 1) + datetime.timedelta(days=n)
    if k == "t":
        return DT(2020, 1, 1) + datetime.timedelta(hours=n)
    if k == "c":
        return complex(n, 1)
    if k == "y":
        return b"r%d" % n
    if k == "b":
        return bool(n % 2)
    raise ValueError(code)


_INDEXED = {"int": "i", "float": "f", "floatmix": "f", "bool": "b", "str": "s", "date": "d", "datetime": "t", "temporalmix": "t",
            "complex": "c", "bytes": "y"}


def _lengths(k):
    return sorted({0, 1, 2, max(0, 2 * k - 1), 2 * k, 2 * k + 1, 2 * k + 2, 50})


def _column(rng, kind, n, nulls, distinct):
    out = []
    for r in range(n):
        if nulls and rng.random() < 0.3:
            out.append("None")
        elif distinct and kind in _INDEXED:
            out.append(f"{_INDEXED[kind]}={r}")
        else:
            out.append(rng.choice(POOLS[kind]))
    return out


def _eff(rows):
    return (12 if rows is None else rows) // 2


DERIVED = {
    "Table() == 1": lambda T, V: T() == 1, "Table() != Table()": lambda T, V: T() != T(), "Table({}) < 5": lambda T, V: T({}) < 5,
    "t == 1": lambda T, V: T({"a": [1, 2], "b": [3, 4]}) == 1, "t < [1, 4]": lambda T, V: T({"a": [1, 2], "b": [3, 4]}) < [1, 4],
    "t == t.copy()": lambda T, V: T({"a": [1, 2]}) == T({"a": [1, 2]}), "~(t > 1)": lambda T, V: ~(T({"a": [1, 2, 3], "b": [4, 5, 6]}) > 1),
    "empty join == 1": lambda T, V: T({"k": [1], "x": [2]}).inner_join(T({"k": [5], "y": [6]}), "k", "k") == 1,
    "t[0:0] == 1": lambda T, V: T({"a": [1, 2]})[0:0] == 1, "t >= t": lambda T, V: (lambda t: t >= t)(T({"a": [1, None]})),
    "v[0:0] == v[0:0]": lambda T, V: V([1, 2])[0:0] == V([1, 2])[0:0], "Vector([]) == 1": lambda T, V: V([]) == 1,
    "-Table({})": lambda T, V: -T({}), "2 + Table({})": lambda T, V: 2 + T({}), "Table({}).T": lambda T, V: T({}).T,
    "Vector(Vector([]))": lambda T, V: V(V([])), "Vector.new(None, 0)": lambda T, V: V.new(None, 0),
}


def _derived(spec):
    """the result of a library operation on degenerate operands is a vector / table like any other: repr returns a string, the
    schema is a schema, a name is None or a str"""
    from serif import Table, Vector
    import warnings
    expr = spec["expr"]
    with warnings.catch_warnings():
        warnings.simplefilter("ignore")
        try:
            r = DERIVED[expr](Table, Vector)
        except Exception as e:
            return {"skip": f"{expr} raised {type(e).__name__}"}
        w = {"fam": "derived", "case": {"expr": expr}, "impl": {}}
        if not isinstance(r, Vector):
            return {"skip": "not a vector or table"}
        try:
            text = repr(r)
            if not isinstance(text, str):
                w["py_fail"] = f"repr({expr}) returned {type(text).__name__}"
        except Exception as e:
            w["py_fail"] = f"repr({expr}) raised {type(e).__name__}: {str(e)[:80]}"
            return w
        nm = getattr(r, "name", None)
        if nm is not None and not isinstance(nm, (str, int, float, tuple)):
            w["py_fail"] = f"the result of {expr} is named {nm!r}, which is not a name"
        cols = r.cols() if isinstance(r, Table) else [r]
        for c in cols:
            sc = c.schema() if isinstance(c, Vector) else None
            if sc is not None and not isinstance(getattr(sc, "kind", None), type):
                w["py_fail"] = f"the result of {expr} reports a dtype whose kind is {getattr(sc, 'kind', None)!r}, not a class"
    return w


def _generate_gaps(rng, thorough):
    reps = 1 if not thorough else 6
    kinds = ["int", "float", "bool", "str", "date", "datetime", "complex", "bytes", "object", "floatmix"]
    for _rep in range(reps):
        # (a) declared / inherited dtypes: nullable without a None, object or float over ints, as_row — vectors and table columns
        for decl in DECLS:
            for kind in kinds:
                for n in (0, 1, 3, 14):
                    distinct = rng.random() < 0.5
                    col = {"name": rng.choice(NAMES), "vals": _column(rng, kind, n, False, distinct), "decl": decl}
                    yield {"fam": "vector", "rows": rng.choice([None, None, 4]), "cols": [col], "twice": True}
            for w in (1, 3, 11):
                for n in (0, 2, 14):
                    cols = [{"name": f"c{c}", "vals": _column(rng, rng.choice(kinds[:5]) if w > 1 else "int", n, False, True),
                             "decl": decl if (c % 2 == 0 or w == 1) else None} for c in range(w)]
                    yield {"fam": "table", "rows": None, "override": None, "cols": cols, "twice": True}
            # a homogeneous-looking table whose columns differ only in DECLARED nullability (shown and hidden columns)
            for w, odd in ((2, 1), (3, 0), (12, 6), (12, 11)):
                cols = [{"name": f"c{c}", "vals": [f"i={r}" for r in range(3)], "decl": ("nullable" if c == odd else None)} for c in range(w)]
                yield {"fam": "table", "rows": None, "override": None, "cols": cols}
        # (b) cells equal across types side by side (1, 1.0, True, (1+0j), '1'; 0, 0.0, -0.0, False): every cell shows its own text
        for kind in POOLS2:
            for n in (2, 5, 12, 13, 30):
                for nulls in (False, True):
                    vals = [("None" if nulls and rng.random() < 0.2 else rng.choice(POOLS2[kind])) for _ in range(n)]
                    yield {"fam": "vector", "rows": None, "cols": [{"name": rng.choice(NAMES), "vals": vals}], "twice": True}
            yield {"fam": "vector", "rows": None, "cols": [{"name": None, "vals": list(POOLS2[kind])}]}
            yield {"fam": "vector", "rows": None, "cols": [{"name": None, "vals": list(reversed(POOLS2[kind]))}]}
            yield {"fam": "table", "rows": None, "override": None,
                   "cols": [{"name": "a", "vals": list(POOLS2[kind])}, {"name": "b", "vals": list(reversed(POOLS2[kind]))}]}
        # (c) an object that was shown before and changed since (name, a cell, the row budget): no stale text
        for kind in ("int", "float", "str", "object", "date"):
            for fam in ("vector", "table"):
                for n in (3, 14):
                    base = {"fam": fam, "rows": None, "cols": [{"name": "x", "vals": _column(rng, kind, n, False, True)}], "twice": True}
                    if fam == "table":
                        base["override"] = None
                        base["cols"].append({"name": "y", "vals": [f"i={r}" for r in range(n)]})
                    yield dict(base, warm=["name", rng.choice(["renamed", "a b", None, "sum"])])
                    yield dict(base, warm=["cell", rng.randrange(n), rng.choice(POOLS[kind])])
                    yield dict(base, warm=["rows", rng.choice([2, 4, 100])])
                    yield dict(base, rows=4, warm=["rows", None])
        # (d) sizes beyond the classic ones: lengths 1000+, widths 21..120, row budgets beyond the length
        for n in (999, 1000, 1001, 1500):
            kind = rng.choice(["int", "float", "str"])
            yield {"fam": "vector", "rows": rng.choice([None, 12, 2000]), "cols": [{"name": "x", "vals": _column(rng, kind, n, False, True)}]}
        yield {"fam": "table", "rows": None, "override": None,
               "cols": [{"name": "a", "vals": [f"i={r}" for r in range(1001)]}, {"name": "b", "vals": [f"s={r}" for r in range(1001)]}]}
        for w in (21, 25, 40, 101):
            n = rng.choice([0, 2, 13])
            ks = [rng.choice(kinds[:5])] * w if rng.random() < 0.5 else [rng.choice(kinds) for _ in range(w)]
            yield {"fam": "table", "rows": None, "override": rng.choice([None, 4]),
                   "cols": [{"name": rng.choice(NAMES + [f"c{c}"] * 10), "vals": _column(rng, kd, n, rng.random() < 0.3, True)} for c, kd in enumerate(ks)]}


def generate(rng, tier):
    thorough = tier == "thorough"
    for expr in DERIVED:
        yield {"fam": "derived", "expr": expr}
    # 1. vectors: dtype family x length around the limit x setting x None x name
    for rep in range(2 if not thorough else 8):
        for rows in ROWS:
            k = _eff(rows)
            for kind in KINDS:
                for n in _lengths(k):
                    for nulls in (False, True):
                        for distinct in (True, False):
                            name = NAMES[(n + len(kind) + rep) % len(NAMES)] if distinct else rng.choice(NAMES)
                            yield {"fam": "vector", "rows": rows, "cols": [{"name": name, "vals": _column(rng, kind, n, nulls, distinct)}]}
    # 2. every name pattern on a short and a truncated vector
    for name in NAMES:
        for n in (1, 14):
            yield {"fam": "vector", "rows": None, "cols": [{"name": name, "vals": [f"i={r}" for r in range(n)]}]}
    # 2b. (gap analysis) dimensions the other families keep fixed; own generator, seeded from rng's state without drawing from it
    yield from _generate_gaps(random.Random(hash(rng.getstate()[1][:8])), thorough)
    # 3. tables: width x length x global setting x per-table override
    for rep in range(3 if not thorough else 24):
        for w in WIDTHS:
            for rows in ROWS:
                for ov in OVERRIDES:
                    k = _eff(rows) if ov is None else ov // 2
                    for n in _lengths(k):
                        if n == 50 and (w > 2 and rng.random() < 0.7):
                            continue
                        mode = rng.choice(["uniform", "mixed", "mixed", "onediff"])
                        base = rng.choice(["int", "float", "str", "date", "bool"])
                        cols = []
                        for c in range(w):
                            kind = base if mode == "uniform" or (mode == "onediff" and c != w // 2 + 1) else rng.choice(KINDS)
                            nm = rng.choice(NAMES) if rng.random() < 0.5 else f"c{c}"
                            cols.append({"name": nm, "vals": _column(rng, kind, n, rng.random() < 0.3, rng.random() < 0.7)})
                        yield {"fam": "table", "rows": rows, "override": ov, "cols": cols}
    # 4. dtype listing in the footer: homogeneous shown columns, one different hidden column (width 11..14)
    for w in (11, 12, 14):
        for hidden in range(5, w - 5):
            for n in (0, 3):
                cols = [{"name": f"c{c}", "vals": [("f=%d" if c == hidden else "i=%d") % r for r in range(n)]} for c in range(w)]
                if n == 0:
                    cols[hidden]["vals"] = []
                yield {"fam": "table", "rows": None, "override": None, "cols": cols}
                cols2 = [dict(c) for c in cols]
                if n:
                    cols2[hidden] = {"name": f"c{hidden}", "vals": ["None"] + [f"i={r}" for r in range(1, n)]}
                    yield {"fam": "table", "rows": None, "override": None, "cols": cols2}
    # 5. the recorded finding: an un-coerced int too large for a float inside a float column (shown / hidden rows)
    for n, pos in ((2, 0), (2, 1), (20, 0), (20, 10), (20, 19)):
        vals = [f"f={r}" for r in range(n)]
        vals[pos] = "iHuge"
        if n == 2:
            vals[1 - pos] = "f2.5"
        yield {"fam": "vector", "rows": None, "cols": [{"name": None, "vals": vals}]}
    yield {"fam": "table", "rows": None, "override": None, "cols": [{"name": "a", "vals": ["iHuge", "f2.5"]}, {"name": "b", "vals": ["i=1", "i=2"]}]}
    # 5b. the recorded finding: non-str names (Table({1: [...]}) is accepted by the constructor)
    for nm in NONSTR_NAMES:
        yield {"fam": "vector", "rows": None, "cols": [{"name": nm, "vals": ["i=0", "i=1"]}]}
        yield {"fam": "table", "rows": None, "override": None, "cols": [{"name": nm, "vals": ["i=0", "i=1"]}, {"name": "b", "vals": ["i=2", "i=3"]}]}
    for nms in NONSTR_TABLES:
        yield {"fam": "table", "rows": None, "override": None,
               "cols": [{"name": nm, "vals": [f"i={k}", f"i={k + 1}"]} for k, nm in enumerate(nms)]}
    # 6. random vectors and tables
    for _ in range(6000 if not thorough else 150000):
        rows = rng.choice(ROWS + [5, 6, 7, 20, 100])
        if rng.random() < 0.4:
            kind = rng.choice(KINDS)
            n = rng.choice([0, 1, 2, 3, 5, 6, 7, 11, 12, 13, 14, 30, 101])
            yield {"fam": "vector", "rows": rows, "cols": [{"name": rng.choice(NAMES), "vals": _column(rng, kind, n, rng.random() < 0.4, rng.random() < 0.5)}]}
        else:
            w = rng.choice([1, 2, 3, 5, 9, 10, 11, 12, 14, 20])
            n = rng.choice([0, 1, 2, 3, 5, 6, 7, 11, 12, 13, 14, 30])
            ov = rng.choice(OVERRIDES + [None, None, 200])
            kinds = [rng.choice(KINDS)] * w if rng.random() < 0.3 else [rng.choice(KINDS) for _ in range(w)]
            cols = [{"name": rng.choice(NAMES), "vals": _column(rng, kd, n, rng.random() < 0.3, rng.random() < 0.5)} for kd in kinds]
            yield {"fam": "table", "rows": rows, "override": ov, "cols": cols}


# ---------------------------------------------------------------------------------------------------------------
# oracles

def _reserved():
    from serif import Vector, Table
    out = set()
    for cls in (Vector, Table):
        for nm in dir(cls):
            if nm.startswith("_"):
                continue
            a = getattr(cls, nm, None)
            if callable(a) or isinstance(a, property):
                out.add(nm.lower())
    return out


def _needs_quote(name):
    try:
        from serif.display import _needs_quote as f
        return f(name)
    except ImportError:
        if not name or not name.isidentifier() or name[0].isdigit():
            return True
        try:
            float(name)
            return True
        except ValueError:
            pass
        return name.lower() in _reserved()


def _sanitize(name):
    try:
        from serif.naming import _sanitize_user_name as f
    except ImportError:
        import re

        def f(name):
            s = re.sub(r"[^a-z0-9_]+", "_", str(name).lower()).strip("_")
            if s == "":
                return None
            if s[0].isdigit():
                s = "c" + s
            if re.match(r"^.+__\d+$", s):
                s += "_"
            if s in _reserved():
                s += "_"
            return s
    return f(name)


def _try(f):
    try:
        return f()
    except Exception:
        return None


def cell_wire(v):
    flags = 1 if v is None else 0
    try:
        eq = bool(v == "...")
    except Exception:
        eq = False
    flags += 2 if eq else 0
    flags += 4 if isinstance(v, str) else 0
    num = None
    if isinstance(v, (int, float)):
        if v != v:
            num = 2
        elif v in (INF, -INF):
            num = 3
        else:
            num = 0 if v == int(v) else 1
    return [flags, num, str(v), repr(v), _try(lambda: f"{v:g}"), _try(lambda: f"{v:.1f}"),
            _try(lambda: v.isoformat()) if hasattr(v, "isoformat") else None]


def col_wire(col):
    n = col.name
    if n is not None and not isinstance(n, str):
        return {"name": None, "shown": "", "san": None, "lower": "", "dtype": dtype_wire(col.schema()),
                "cells": [cell_wire(v) for v in storage(col)]}
    disp = n or ""
    return {"name": n, "shown": repr(disp) if _needs_quote(disp) else disp, "san": _sanitize(n) if n else None,
            "lower": disp.lower(), "dtype": dtype_wire(col.schema()), "cells": [cell_wire(v) for v in storage(col)]}


def _vec_state(I, v):
    return {"vals": I.wires(list(v)), "dtype": dtype_wire(v.schema()), "name": repr(v.name), "fp": str(_try(v.fingerprint))}


OTHER_NAMES = ["Foo", "Bar", "Baz"]


def _mkvec(cs):
    """a column; `decl` = a dtype that is DECLARED (or inherited) rather than inferred from the cells: wider than its contents"""
    from serif import Vector
    from serif.typing import DataType
    vals, name, decl = [decode(c) for c in cs["vals"]], decode_name(cs["name"]), cs.get("decl")
    if decl is None:
        return Vector(vals, name=name)
    if decl == "asrow":
        return Vector(vals, name=name, as_row=True)
    if decl == "sliced":
        # a None that is sliced away again: the vector stays nullable (public route to 'nullable without a None')
        v = Vector(vals + [None], name=name)[0:len(vals)]
        if v.name != name:
            v.name = name
        return v
    inferred = Vector(vals).schema()
    if decl == "object" or inferred is None:
        return Vector(vals, name=name, dtype=DataType(object, nullable=any(x is None for x in vals)))
    if decl == "float" and inferred.kind in (int, bool):
        return Vector(vals, name=name, dtype=DataType(float, nullable=inferred.nullable))
    return Vector(vals, name=name, dtype=DataType(inferred.kind, nullable=True))


def _warm(obj, warm, is_table):
    """repr once, then change the object through its public API: the judged repr must describe the object as it is NOW"""
    repr(obj)
    col = obj.cols()[0] if is_table else obj
    if warm[0] == "name":
        col.name = warm[1]
    elif warm[0] == "cell" and len(col) > 0:
        col[warm[1] % len(col)] = decode(warm[2])
    elif warm[0] == "rows":
        pass    # the row budget is changed by execute (between the two reprs)


def _build(spec):
    from serif import Vector, Table
    cols = [_mkvec(cs) for cs in spec["cols"]]
    if spec["fam"] == "vector":
        return cols[0]
    t = Table(cols)
    if spec.get("override") is not None:
        t._repr_rows = spec["override"]
    return t


def _globals(display):
    """every module-level number of display.py (the row limit lives in one of them, whatever it is called)"""
    return repr(sorted((k, v) for k, v in vars(display).items() if type(v) in (int, float, bool)))


def execute(spec):
    if spec["fam"] == "derived":
        return _derived(spec)
    import serif
    from serif import Table, set_repr_rows
    import serif.display as display
    unpinned = False
    for cs in spec["cols"]:
        if isinstance(cs["name"], list):
            unpinned = True          # non-str name: only "no exception, object unchanged" is pinned
        elif cs["name"] is not None and ("..." == cs["name"] or "\n" in cs["name"]):
            return {"skip": "name outside the generated space"}
    obj = _build(spec)
    is_table = spec["fam"] == "table"
    for c in (obj.cols() if isinstance(obj, Table) else [obj]):
        if c.schema() is not None and c.schema().kind is _ArrayLike:
            return {"skip": "a column of the probe class alone (its class name is not on the wire)"}
    if is_table != isinstance(obj, Table):
        return {"skip": "constructor returned the other class"}
    I = Interner()

    def state():
        if is_table:
            return {"names": [repr(n) for n in obj.column_names()], "cols": [_vec_state(I, c) for c in obj.cols()], "nrows": len(obj),
                    "fp": str(_try(obj.fingerprint)), "override": getattr(obj, "_repr_rows", None), "global": _globals(display)}
        return dict(_vec_state(I, obj), **{"global": _globals(display), "len": len(obj)})

    if spec.get("warm"):
        try:
            if spec["warm"][0] == "rows":
                set_repr_rows(spec["warm"][1])
            _warm(obj, spec["warm"], is_table)
        except Exception as e:
            set_repr_rows(None)
            return {"skip": f"the warm-up step raised {type(e).__name__}"}
    case = {"rows": spec["rows"], "override": spec.get("override"), "other_names": OTHER_NAMES, "unpinned": unpinned,
            "cols": [col_wire(c) for c in (obj.cols() if is_table else [obj])]}
    try:
        set_repr_rows(spec["rows"])
        before = state()
        try:
            s = repr(obj)
        except Exception as e:
            impl = {"err": err_class(e)}
        else:
            after = state()
            if not isinstance(s, str):
                impl = {"err": "other:not-a-str"}
            else:
                impl = {"lines": s.split("\n"), "before": before, "after": after}
                if spec.get("twice"):
                    s2 = _try(lambda: repr(obj))
                    if s2 != s:
                        impl["header_fail"] = "(judged in Python) repr(x) called twice on the unchanged object gives two different results"
                if unpinned:
                    # headers show the stored names: a non-string name is shown by its repr
                    # (a falsy name such as 0 or False is treated as "unnamed" throughout display.py: not judged)
                    want = [repr(decode_name(cs["name"])) if isinstance(cs["name"], list) and decode_name(cs["name"]) else None
                            for cs in spec["cols"]]
                    if not is_table and (want[0] is None or len(obj) == 0):
                        want = []
                    head = s.split("\n")[0]
                    got = [head.strip()] if not is_table else [t for t in head.split("  ") if t.strip()]
                    got = [t.strip() for t in got]
                    if len(got) == len(want) and any(w is not None and g != w for g, w in zip(got, want)):
                        py_header_fail = f"header row shows {got} but the stored names are {[decode_name(cs['name']) for cs in spec['cols']]!r}"
                        impl["header_fail"] = py_header_fail
    finally:
        set_repr_rows(None)
    out = {"fam": spec["fam"], "case": case, "impl": impl}
    if isinstance(impl, dict) and impl.get("header_fail"):
        out["py_fail"] = impl.pop("header_fail")
    return out


def _features(spec, wire):
    out = set()
    c = wire["case"]
    cols = c["cols"]
    n = len(cols[0]["cells"]) if cols else 0
    k = (c["override"] // 2) if (spec["fam"] == "table" and c["override"] is not None) else _eff(c["rows"])
    if n > 2 * k:
        out.add("rows-truncated")
    if len(cols) > 10:
        out.add("cols-truncated")
    if n == 0 or not cols:
        out.add("empty")
    if len({str(x["dtype"]) for x in cols}) > 1:
        out.add("mixed-dtypes")
    for col in cols:
        if col["name"] in (None, ""):
            out.add("unnamed")
        elif col["shown"] != col["name"]:
            out.add("quoted-name")
        for cell in col["cells"]:
            if cell[0] & 1:
                out.add("none-cell")
            if cell[1] in (2, 3):
                out.add("nan-inf-cell")
    names = [x["name"] for x in cols if x["name"]]
    if len(set(names)) < len(names):
        out.add("repeated-name")
    return out


def nontrivial(spec, wire):
    if spec["fam"] == "derived":
        return True
    return bool(_features(spec, wire))


def histogram(spec, wire):
    if spec["fam"] == "derived":
        return ["derived"]
    c = wire["case"]
    cols = c["cols"]
    n = len(cols[0]["cells"]) if cols else 0
    k = (c["override"] // 2) if (spec["fam"] == "table" and c["override"] is not None) else _eff(c["rows"])
    rel = "n=0" if n == 0 else "n<2k" if n < 2 * k else "n=2k" if n == 2 * k else "n=2k+1" if n == 2 * k + 1 else "n>2k+1"
    w = len(cols)
    out = [spec["fam"], f"{spec['fam']}:{rel}", f"rows-setting:{c['rows']}"]
    if spec["fam"] == "table":
        out += [f"width:{'0' if w == 0 else '1' if w == 1 else '2-9' if w < 10 else '10' if w == 10 else '11' if w == 11 else '12+'}",
                f"override:{c['override']}"]
    kinds = {(x["dtype"] or [12])[0] for x in cols}
    out += [f"kind:{kk}" for kk in sorted(kinds)]
    out += sorted(_features(spec, wire))
    if "err" in wire["impl"]:
        out.append("impl-raised:" + wire["impl"]["err"])
    return out


def shrink(spec):
    if spec["fam"] == "derived":
        return
    cols = spec["cols"]
    if spec["fam"] == "table":
        for i in range(len(cols)):
            yield dict(spec, cols=cols[:i] + cols[i + 1:])
        n = len(cols[0]["vals"]) if cols else 0
        for r in range(n):
            yield dict(spec, cols=[dict(c, vals=c["vals"][:r] + c["vals"][r + 1:]) for c in cols])
        if spec.get("override") is not None:
            yield dict(spec, override=None)
    else:
        v = cols[0]["vals"]
        for r in range(len(v)):
            yield dict(spec, cols=[dict(cols[0], vals=v[:r] + v[r + 1:])])
    for i, c in enumerate(cols):
        if c["name"] is not None:
            yield dict(spec, cols=cols[:i] + [dict(c, name=None)] + cols[i + 1:])
    if spec["rows"] is not None:
        yield dict(spec, rows=None)
    for i, c in enumerate(cols):
        for r, code in enumerate(c["vals"]):
            if code not in ("i0", "None") and "=" not in code and code != "iHuge":
                yield dict(spec, cols=cols[:i] + [dict(c, vals=c["vals"][:r] + ["i0"] + c["vals"][r + 1:])] + cols[i + 1:])


def snippet(spec):
    if spec["fam"] == "derived":
        return "from serif import Vector, Table\nr = " + spec["expr"] + "   # (t = a small table)\nprint(repr(r), r.name)"
    lines = ["from serif import Vector, Table, set_repr_rows", "import datetime"]
    def mk(cs):
        vals = "[" + ", ".join("10**400" if c == "iHuge" else repr(decode(c)) for c in cs["vals"]) + "]"
        return f"Vector({vals}, name={decode_name(cs['name'])!r})"
    if spec["fam"] == "vector":
        lines.append(f"x = {mk(spec['cols'][0])}")
    else:
        lines.append("x = Table([" + ", ".join(mk(c) for c in spec["cols"]) + "])")
        if spec.get("override") is not None:
            lines.append(f"x._repr_rows = {spec['override']}")
    if spec["rows"] is not None:
        lines.append(f"set_repr_rows({spec['rows']})")
    lines.append("print(repr(x))")
    return "\n".join(lines)


def _known_huge(spec, wire, verdict):
    """float-kind column holding an int that float() cannot represent, repr raises OverflowError"""
    if (wire or {}).get("impl", {}).get("err") != "other:OverflowError":
        return False
    for col in wire["case"]["cols"]:
        if col["dtype"] and col["dtype"][0] == 3:
            for cell in col["cells"]:
                if cell[1] == 0 and cell[5] is None:      # finite integral number whose f"{v:.1f}" raises
                    return True
    return False


def _known_nonstr_name(spec, wire, verdict):
    """a column / vector name that is not a str, repr raises AttributeError (str methods called on the name)"""
    return ((wire or {}).get("impl", {}).get("err") == "attr"
            and any(isinstance(cs["name"], list) for cs in spec["cols"]))


KNOWN = {"C20/float-column-int-beyond-float-range": _known_huge, "C20/non-str-name": _known_nonstr_name}

LEVEL_TEXT = ("Proof (about the Lean model of display.py, for every column length, every preview budget, every number of columns "
              "and every instantiation of Python's string formatting): the preview of n > 2k rows is exactly the first k rows, one "
              "ellipsis, the last k rows (2k+1 lines, positions given, the shown rows form a sublist of the data: nothing repeated or "
              "reordered) and every row when n <= 2k; the cell formatter is total on all four float classes (finite integral, finite "
              "fractional, nan, inf) and on every dtype whenever Python's formatting of the cell is defined, hence repr of vectors and "
              "tables returns; the footer carries the true element count / rows x columns and the dtype tokens (kind name, '?' iff "
              "nullable, tokens of distinct named dtypes are distinct; homogeneous / listed first-and-last / <mixed> with a dtype "
              "header row); the names row shows the stored names of the displayed columns with '...' where columns are hidden. "
              "A counterexample theorem records that an int beyond float range inside a float column makes the formatter fail "
              "(known finding). Sampled (differential, judged by the compiled Lean model): that repr() of real vectors/tables is "
              "this rendering modulo spaces and leaves the object unchanged.")
LEVEL_NOTE = ("Trusted: Lean kernel; axioms propext/Classical.choice/Quot.sound only; the harness (parsing of repr into lines, "
              "per-cell texts computed by Python: str, repr, :g, :.1f, isoformat, _needs_quote, _sanitize_user_name, lower); "
              "alignment is not judged; cells or names equal to '...' or containing line breaks are not generated; the limits "
              "are read from display.py with ast on every run. The theorems are about the Lean model; the tie to display.py is the "
              "differential run.")
