"""C17 — every column is reachable by exactly one advertised, valid accessor name."""
import keyword
import itertools, random, warnings
from values import err_class

PID = "C17"
RULE = ("static: every column-name list of width 1..3 over the 18-name core pool and width 1..2 over the full adversarial pool (quick); "
        "width 1..4 over the core pool and width 1..3 over the full pool (thorough). Pool (see POOL, 74 names): reserved words, names that look like generated accessors, ''/None/underscores, "
        "case/punctuation variants, leading digits, non-ASCII letters and digits, lone surrogate); san: single-column tables with "
        "random strings over a tricky alphabet; wide: random tables of 5..14 columns drawn from tiny pools so that duplicates sit on "
        "both sides of the repr ellipsis; hist: random histories of rename_column(s) (incl. missing names), rename through a live "
        "view (t.cols()[i].name / getattr(t, accessor).name), attribute replacement, >> (vector and dict form) and dir(), followed by "
        "the observations in a random order so that every lookup path meets a possibly stale cached map. Every observation "
        "(dir, getattr, t[0].name, t[0,name]=x on the live table, t[stored name], dot row of repr, column_names) is judged by the "
        "Lean driver against the accessors of the stored names. forms (gap analysis): the same observations with every key form of item "
        "assignment (t[0,a], t[0,(a,)], t[0,[a]], t[0:1,a], t[0:1,(a,)]), every route to a row (t[0], iteration, t[-1]), on tables derived "
        "from the live one (copy, copy.copy, deepcopy, pickle, slice, masks), with 0/1/2/3 rows, five construction routes, four replacement "
        "value forms, three routes to a live column view, table-valued and self appends, widths 15..40 and 101+. non-trivial = some advertised accessor differs from the stored name "
        "of its column (sanitised, suffixed, generated) or the history is non-empty")
ASSUMPTIONS = ["column names are str or None (other objects as names are outside the quantifier)",
               "the model starts after str.lower(): the harness sends name.lower() as code points (full Unicode case mapping is not available in Lean)",
               "attribute names handed to getattr/setattr/t[0,name] are the advertised ones (over [a-z0-9_], where str.lower is the identity and "
               "str.isdigit coincides with ASCII digits)",
               "an advertised name is valid when str.isidentifier() holds and keyword.iskeyword() does not (t.class is a SyntaxError)"]
TRUSTED = ["re.sub/str.strip/str.rpartition/str.isdigit/int() as modelled structurally in Serif.Model.Names (exercised by every case)",
           "advertised names are taken as set(dir(t)) - set(object.__dir__(t))"]
BUDGET_S = {"quick": 25, "thorough": 300}

CORE = ["a", "A", "a b", "sum", "Sum", "a__1", "col1_", "", None, "1a", "_a_", "cols", "T", "a-b", "col0_", "é", "sum_", "a_b"]
EXTRA = ["max", "name", "t", "column_names", "Column Names", "col__1", "a__0", "a__2", "a__1_", "a__1__2", "x__٣", "col2_", "col1",
         "col_1", "col1__", "_", "__", "  ", "!!!", "a__b", "A B", " a", "a ", "a_", "1", "٣", "٣a", "１", "c1",
         "ß", "İ", "ǅ", "Ａ", "K", "sum__1", "max_", "none", "None", "class", "name_", "a\nb", "\ud800",
         "a.b", "ａ", "sort_by", "Sort By", "c", "col", "col_", "x__1", "x", "X__1", "shape", "copy", "set_index", "a- b"]
POOL = CORE + [n for n in EXTRA if n not in CORE]
ALPHA = list("aAbz09_ -.!é٣１Kİǅ\n\ud800") + ["__", "col", "sum", "1_", "__1", "_1"]
OBS = ["dir", "getattr", "row", "rowitem", "peek", "setitem", "getitem", "repr"]


# --------------------------------------------------------------------------------------------
# generation
# --------------------------------------------------------------------------------------------

def _rename_view(c, new, how):
    """rename a live column view through any of the public routes: the `name` setter, `alias()` (only allowed on an
    unnamed vector) or the deprecated `rename()`"""
    import warnings
    if how == "alias" and c.name is None and new is not None:
        c.alias(new)
    elif how == "rename":
        with warnings.catch_warnings():
            warnings.simplefilter("ignore")
            c.rename(new)
    else:
        c.name = new


def _public_attribute_names():
    import serif
    from values import row_class
    Row = row_class()
    names = set()
    for cls in (serif.Vector, serif.Table, Row):
        names |= {n for n in dir(cls) if not n.startswith("_")}
    return sorted(names)


def _rand_name(rng):
    r = rng.random()
    if r < 0.55:
        return rng.choice(POOL)
    if r < 0.65:
        return None
    return "".join(rng.choice(ALPHA) for _ in range(rng.randint(0, 6)))


def _rand_ops(rng, width, pool):
    ops = []
    for _ in range(rng.randint(1, 6)):
        k = rng.random()
        if k < 0.18:
            ops.append(["view", rng.randrange(16), rng.choice(pool), rng.choice(["name", "name", "alias", "rename"])])
        elif k < 0.34:
            ops.append(["viewattr", rng.randrange(16), rng.choice(pool), rng.choice(["name", "name", "alias", "rename"])])
        elif k < 0.50:
            ops.append(["rename", rng.choice(pool), rng.choice(pool)])
        elif k < 0.60:
            m = rng.randint(0, 3)
            ops.append(["renames", [rng.choice(pool) for _ in range(m)], [rng.choice(pool) for _ in range(m)]])
        elif k < 0.72:
            ops.append(["replace", rng.randrange(16)])
        elif k < 0.82:
            ops.append(["append", rng.choice(pool)])
        elif k < 0.88:
            ops.append(["appenddict", rng.choice([p for p in pool if p is not None] or ["a"])])
        else:
            ops.append(["dir"])
    return ops


# --- dimensions the lookups branch on but the classic families keep fixed (each has a default = the classic behaviour) ------------
SETFORMS = ["scalar", "tuple", "list", "slice", "slicetuple"]   # t[0, a] = x | t[0, (a,)] = [x] | t[0, [a]] = [x] | t[0:1, a] = [x] | t[0:1, (a,)] = [[x]]
ROWVIA = ["index", "iter", "last"]                             # t[0] | next(iter(t)) | t[-1]
DERIVE = [None, "copy", "copy.copy", "deepcopy", "pickle", "slice", "mask", "maskvec"]   # observe a table derived from the live one
NROWS = [2, 0, 1, 3]
BUILD = ["list", "dict", "wild", "rshift", "tuple"]            # how the table is constructed
REPLFORM = ["vec", "named", "list", "wild"]                    # what is assigned by t.<accessor> = value
VIEWROUTE = ["cols", "colsi", "getitem"]                       # how a live column view is obtained before it is renamed
TRICKY = [["a b", "a_b"], ["a", "A"], ["sum", "Sum"], [None, "col0_"], ["a__1", "a", "a"], ["x", "x", "x"],
          ["A B", "a-b", "a_b", None], ["cols", "col1_", ""], ["1a", "c1a"], ["İ", "i"], ["a", "b", "a", "b"],
          ["class", "class_"], ["zz", "a"], ["col1_", None], ["a", "a__1"], ["T", "t", "name"]]
DEFAULTS = {"setform": "scalar", "rowvia": "index", "derive": None, "nrows": 2, "build": "list"}
OBS0 = ["dir", "getattr", "peek", "getitem", "repr"]           # what can be observed on a table without rows


def _variant(spec, **kw):
    out = dict(spec)
    for k, v in kw.items():
        if v != DEFAULTS.get(k):
            out[k] = v
    if out.get("nrows", 2) == 0:
        out["obs"] = [o for o in out["obs"] if o in OBS0]
    return out


def _generate_forms(rng, quick):
    dims = [("setform", SETFORMS), ("rowvia", ROWVIA), ("derive", DERIVE), ("nrows", NROWS), ("build", BUILD)]
    # 5a. scripted: every value of every dimension alone, on tricky name lists, on a fresh table and on one whose cached map
    #     is stale (a column renamed through a live view, nothing asked of the table since)
    for names in TRICKY:
        for stale in (False, True):
            ops = [["view", len(names) - 1, "zz", "name"]] if stale else []
            base = {"fam": "hist" if stale else "static", "var": "forms", "names": names, "ops": ops, "obs": OBS}
            for key, values in dims:
                for v in values:
                    if v != DEFAULTS[key]:
                        yield _variant(base, **{key: v})
            # the stale map met first by each observation kind, on a derived table too
            if stale:
                for first in OBS:
                    yield _variant(dict(base, obs=[first] + [o for o in OBS if o != first]), derive=rng.choice(DERIVE[1:]),
                                   setform=rng.choice(SETFORMS), rowvia=rng.choice(ROWVIA))
                # ... and every form of the row / item-assignment lookups as the FIRST thing that meets the stale map
                for rv in ROWVIA:
                    for first in ("row", "rowitem"):
                        yield _variant(dict(base, obs=[first] + [o for o in OBS if o != first]), rowvia=rv)
                for sf in SETFORMS[1:]:
                    yield _variant(dict(base, obs=["setitem"] + [o for o in OBS if o != "setitem"]), setform=sf)
                for dv in DERIVE[1:]:
                    first = rng.choice(OBS)
                    yield _variant(dict(base, obs=[first] + [o for o in OBS if o != first]), derive=dv)
            # every replacement value form / every route to the view / table-valued and self appends
            for rf in REPLFORM:
                yield dict(base, fam="hist", ops=ops + [["replace", rng.randrange(16), rf, rng.choice(names + ["zz"])]])
            for route in VIEWROUTE:
                for how in ("name", "alias", "rename"):
                    yield dict(base, fam="hist", ops=[["view", rng.randrange(16), rng.choice(["zz", "a", None]), how, route]])
            yield dict(base, fam="hist", ops=ops + [["appendtable", [rng.choice(names), "zz"]]])
            yield dict(base, fam="hist", ops=ops + [["appendself", rng.randrange(16)]])
    # 5b. widths beyond the classic 14: two-digit suffixes on both sides of the repr ellipsis, three-digit suffixes
    for w in list(range(15, 41, 5)) * (2 if quick else 8) + [101, 113] * (1 if quick else 4):
        pool = rng.sample(POOL, rng.randint(1, 3)) + rng.choice([[], [None], ["", None]])
        yield {"fam": "wide", "var": "wider", "names": [rng.choice(pool) for _ in range(w)], "ops": [], "obs": rng.sample(OBS, len(OBS))}
        yield {"fam": "hist", "var": "wider", "names": [rng.choice(pool) for _ in range(w)],
               "ops": [["view", rng.randrange(w), rng.choice(pool), "name"]], "obs": rng.sample(OBS, len(OBS))}
    # 5c. random histories with every dimension drawn at random
    for _ in range(1000 if quick else 30000):
        w = rng.randint(1, 4) if rng.random() < 0.85 else rng.randint(5, 12)
        pool = rng.sample(POOL, rng.randint(2, 5)) + [None]
        names = [rng.choice(pool) for _ in range(w)]
        ops = _rand_ops(rng, w, pool)
        for i, op in enumerate(ops):
            r = rng.random()
            if op[0] == "replace":
                ops[i] = op + [rng.choice(REPLFORM), rng.choice(pool)]
            elif op[0] == "view":
                ops[i] = op + [rng.choice(VIEWROUTE)]
            elif op[0] == "append" and r < 0.3:
                ops[i] = ["appendtable", [rng.choice(pool) for _ in range(rng.randint(1, 3))]]
            elif op[0] == "append" and r < 0.5:
                ops[i] = ["appendself", rng.randrange(16)]
        yield _variant({"fam": "hist", "var": "forms", "names": names, "ops": ops, "obs": rng.sample(OBS, len(OBS))},
                       **{key: (rng.choice(values) if rng.random() < 0.5 else DEFAULTS[key]) for key, values in dims})


def generate(rng, tier):
    quick = tier == "quick"
    # 1. exhaustive small scopes
    if quick:
        scopes = [(CORE, 3), (POOL, 2)]
    else:
        scopes = [(CORE, 4), (POOL, 3)]
    seen_scope = set()
    for pool, w in scopes:
        for n in range(1, w + 1):
            for names in itertools.product(pool, repeat=n):
                if (n, names) in seen_scope:
                    continue
                if pool is CORE:
                    seen_scope.add((n, names))
                yield {"fam": "static", "names": list(names), "ops": [], "obs": OBS}
    # 1b. every public attribute of the classes a column accessor is looked up on, as a column name (alone, and upper-cased
    #     next to a plain column): the advertised accessor must never be such an attribute — whatever kind of attribute it is
    #     (method, property, classmethod, staticmethod …)
    for n in _public_attribute_names():
        yield {"fam": "static", "names": [n], "ops": [], "obs": OBS}
        yield {"fam": "static", "names": ["a", n.upper()], "ops": [], "obs": OBS}
    # 1c. (gap analysis) dimensions the other families keep fixed: key forms of item assignment, routes to a row, derived tables,
    #     row counts 0/1/3, construction routes, replacement value forms, table-valued appends, widths beyond 14. A sub-generator
    #     with a generator of its own (seeded from the state of rng without drawing from it), so the other streams are unchanged
    #     and these cases run before the large random families can exhaust the time budget.
    yield from _generate_forms(random.Random(hash(rng.getstate()[1][:8])), quick)
    # 2. sanitisation of single names
    for _ in range(3000 if quick else 30000):
        yield {"fam": "san", "names": ["".join(rng.choice(ALPHA) for _ in range(rng.randint(0, 9)))], "ops": [], "obs": ["dir", "getattr", "repr"]}
    # 3. wide tables
    for _ in range(2000 if quick else 20000):
        w = rng.randint(5, 14)
        pool = rng.sample(POOL, rng.randint(1, 4)) + rng.choice([[], [None], ["", None]])
        yield {"fam": "wide", "names": [rng.choice(pool) for _ in range(w)], "ops": [],
               "obs": rng.sample(OBS, len(OBS))}
    # 4. histories
    for _ in range(8000 if quick else 150000):
        w = rng.randint(1, 4) if rng.random() < 0.85 else rng.randint(5, 12)
        pool = rng.sample(POOL, rng.randint(2, 5)) + [None]
        if rng.random() < 0.3:
            pool.append(_rand_name(rng))
        names = [rng.choice(pool) for _ in range(w)]
        yield {"fam": "hist", "names": names, "ops": _rand_ops(rng, w, pool), "obs": rng.sample(OBS, len(OBS))}


# --------------------------------------------------------------------------------------------
# execution on the real code
# --------------------------------------------------------------------------------------------

class _Intern:
    def __init__(self):
        self.ids = {}

    def wire(self, n):
        if n is None:
            return None
        if not isinstance(n, str):
            return [10**6 + len(self.ids), [ord(c) for c in repr(n)]]
        i = self.ids.setdefault(n, len(self.ids) + 1)
        return [i, [ord(c) for c in n.lower()]]

    def id(self, n):
        w = self.wire(n)
        return None if w is None else w[0]


def _build(names, nrows=2, how="list"):
    """the table under test; cell (r, i) = 100 * (r + 1) + i. `how` = construction route (all must keep the names)"""
    from serif import Table, Vector
    data = [[100 * (r + 1) + i for r in range(nrows)] for i in range(len(names))]
    if how == "dict" and all(isinstance(n, str) for n in names) and len(set(names)) == len(names):
        return Table({n: d for n, d in zip(names, data)})
    if how == "wild":
        # vectors named after their creation (flagged as renamed when the table receives them)
        cols = [Vector(d) for d in data]
        for c, n in zip(cols, names):
            c.name = n
        return Table(cols)
    if how == "rshift" and len(names) >= 2:
        t = Vector(data[0], name=names[0]) >> Vector(data[1], name=names[1])
        for d, n in zip(data[2:], names[2:]):
            t = t >> Vector(d, name=n)
        return t
    if how == "tuple":
        return Table(tuple(Vector(d, name=n) for d, n in zip(data, names)))
    return Table([Vector(d, name=n) for d, n in zip(data, names)])


def _derive(t, how, nrows):
    """a table obtained from the live one: it must answer to the same accessors (its map must not be a stale copy)"""
    import copy, pickle
    from serif import Vector
    if how == "copy":
        return t.copy()
    if how == "copy.copy":
        return copy.copy(t)
    if how == "deepcopy":
        return copy.deepcopy(t)
    if how == "pickle":
        return pickle.loads(pickle.dumps(t))
    if how == "slice":
        return t[0:nrows]
    if how == "mask":
        return t[[True] * nrows]
    if how == "maskvec":
        return t[Vector([True] * nrows)]
    return t


def _advertised(t):
    return sorted(set(dir(t)) - set(object.__dir__(t)))


def _col_index(t, c):
    for j, col in enumerate(t.cols()):
        if col is c:
            return j
    return -1


def _err(e):
    return "err:" + err_class(e)


def parse_dot(rep, names):
    """the dot row of repr(t) -> (accessors, shown column indices) or None when it is not displayed"""
    lines = rep.split("\n")
    n = len(names)
    for li in (0, 1):
        if li >= len(lines):
            break
        toks = lines[li].split()
        if not toks or not all(x.startswith(".") and len(x) > 1 for x in toks):
            continue
        if toks.count("...") == 0:
            if len(toks) != n:
                continue
            shown = list(range(n))
        elif toks.count("...") == 1:
            k = toks.index("..."); m = len(toks) - k - 1
            if k + m >= n:
                continue
            shown = list(range(k)) + list(range(n - m, n))
        else:
            continue
        any_display = any(names[i] for i in shown)
        if li != (1 if any_display else 0):
            continue
        return [x[1:] for x in toks if x != "..."], shown
    return None


def _fresh_adv(names):
    """the accessors a newly built table with these stored names advertises (names are a function of the name list)"""
    return _advertised(_build(list(names)))


class _Run:
    """executes a spec; `log` collects the equivalent public-API script"""

    def __init__(self, spec):
        self.spec = spec
        self.intern = _Intern()
        self.counter = 1000
        self.log = []

    def fresh_value(self):
        self.counter += 10
        return self.counter

    def run(self):
        from serif import Table, Vector
        from serif.vector import Vector as V
        from serif.table import Table as T
        spec = self.spec
        names = list(spec["names"])
        if not names:
            return {"skip": "zero columns"}
        class_attrs = set(dir(V)) | set(dir(T))
        nrows = spec.get("nrows", 2)
        setform, rowvia = spec.get("setform", "scalar"), spec.get("rowvia", "index")
        t = _build(names, nrows, spec.get("build", "list"))
        if not isinstance(t, Table) or t.column_names() != names or len(t) != nrows:
            return {"skip": "this construction route does not give a table with these names (not C17's subject)"}
        self.log.append(f"t = Table([Vector([100 * (r + 1) + i for r in range({nrows})], name=n) for i, n in enumerate({names!r})])"
                        + (f"   # built by route {spec['build']!r}" if spec.get("build") else ""))
        init_wire = [self.intern.wire(n) for n in names]
        wops, iops = [], []
        for op in spec["ops"]:
            kind = op[0]
            cur = t.column_names()
            if kind == "rename":
                wops.append(["rename", self.intern.wire(op[1]), self.intern.wire(op[2])])
                self.log.append(f"t.rename_column({op[1]!r}, {op[2]!r})")
                try:
                    t.rename_column(op[1], op[2]); iops.append("ok")
                except Exception as e:
                    iops.append(_err(e))
            elif kind == "renames":
                wops.append(["renames", [[self.intern.wire(a), self.intern.wire(b)] for a, b in zip(op[1], op[2])]])
                self.log.append(f"t.rename_columns({op[1]!r}, {op[2]!r})")
                try:
                    t.rename_columns(list(op[1]), list(op[2])); iops.append("ok")
                except Exception as e:
                    iops.append(_err(e))
            elif kind == "view":
                i = op[1] % len(cur)
                wops.append(["view", i, self.intern.wire(op[2])])
                self.log.append(f"c = t.cols()[{i}]; c.name = {op[2]!r}")
                route = op[4] if len(op) > 4 else "cols"
                if route == "getitem" and isinstance(cur[i], str):
                    i = cur.index(cur[i])       # t[stored name] is the first column of that name
                    wops[-1][1] = i
                    self.log[-1] = f"c = t[{cur[i]!r}]; c.name = {op[2]!r}"
                try:
                    c = t.cols(i) if route == "colsi" else t[cur[i]] if route == "getitem" and isinstance(cur[i], str) else t.cols()[i]
                    if c is not t.cols()[i]:
                        return {"skip": "this route does not give the live column (not C17's subject)"}
                    _rename_view(c, op[2], op[3] if len(op) > 3 else "name"); iops.append("ok")
                    del c
                except Exception as e:
                    iops.append(_err(e))
            elif kind == "viewattr":
                adv = _fresh_adv(cur) or [""]
                a = adv[op[1] % len(adv)]
                wops.append(["viewattr", a, self.intern.wire(op[2])])
                self.log.append(f"c = getattr(t, {a!r}); c.name = {op[2]!r}")
                try:
                    c = getattr(t, a)
                    j = _col_index(t, c)
                    if j >= 0:
                        _rename_view(c, op[2], op[3] if len(op) > 3 else "name")
                    iops.append(j)
                    del c
                except Exception as e:
                    iops.append(_err(e))
            elif kind == "replace":
                adv = _fresh_adv(cur) or [""]
                a = adv[op[1] % len(adv)]
                wops.append(["replace", a])
                nv = self.fresh_value()
                form = op[2] if len(op) > 2 else "vec"
                vals = [nv + r for r in range(nrows)]
                if form == "named":
                    value = Vector(vals, name=op[3]); vtxt = f"Vector({vals!r}, name={op[3]!r})"
                elif form == "list":
                    value = vals; vtxt = repr(vals)
                elif form == "wild":
                    value = Vector(vals); value.name = op[3]; vtxt = f"(a vector named {op[3]!r} after its creation)"
                else:
                    value = Vector(vals); vtxt = f"Vector({vals!r})"
                self.log.append(f"setattr(t, {a!r}, {vtxt})   # the column keeps its stored name")
                before = list(t.cols())
                try:
                    setattr(t, a, value)
                    after = list(t.cols())
                    iops.append([j for j in range(len(after)) if j >= len(before) or after[j] is not before[j]])
                except Exception as e:
                    iops.append(_err(e))
                del before
            elif kind in ("append", "appenddict"):
                wops.append(["append", self.intern.wire(op[1])])
                nv = self.fresh_value()
                try:
                    if kind == "append":
                        self.log.append(f"t = t >> Vector({[nv + r for r in range(nrows)]!r}, name={op[1]!r})")
                        t = t >> Vector([nv + r for r in range(nrows)], name=op[1])
                    else:
                        self.log.append(f"t = t >> {{{op[1]!r}: {[nv + r for r in range(nrows)]!r}}}")
                        t = t >> {op[1]: [nv + r for r in range(nrows)]}
                    iops.append("ok")
                except Exception as e:
                    iops.append(_err(e))
                if not isinstance(t, Table):
                    return {"skip": "append did not give a table"}
            elif kind in ("appendtable", "appendself"):
                if kind == "appendself":
                    j = op[1] % len(cur)
                    new_names = [cur[j]]
                    self.log.append(f"t = t >> t.cols()[{j}]")
                else:
                    new_names = list(op[1])
                    self.log.append(f"t = t >> Table([Vector([...], name=n) for n in {new_names!r}])")
                try:
                    if kind == "appendself":
                        t = t >> t.cols()[j]
                        nv = self.fresh_value()
                        for r in range(nrows):      # rows identify a column by its cells: give the new column cells of its own
                            t.cols()[-1][r] = nv + r
                    else:
                        t = t >> Table([Vector([self.fresh_value() + r for r in range(nrows)], name=n) for n in new_names])
                    res = "ok"
                except Exception as e:
                    res = _err(e)
                for n in new_names:
                    wops.append(["append", self.intern.wire(n)]); iops.append(res)
                if not isinstance(t, Table):
                    return {"skip": "append did not give a table"}
            elif kind == "dir":
                wops.append(["dir"])
                self.log.append("dir(t)")
                iops.append(_advertised(t))
            else:
                raise ValueError(kind)
        # ---- observations on the live table, in the requested order
        final = t.column_names()
        if spec.get("derive"):
            d = _derive(t, spec["derive"], nrows)
            self.log.append({"copy": "t = t.copy()", "copy.copy": "t = copy.copy(t)", "deepcopy": "t = copy.deepcopy(t)",
                             "pickle": "t = pickle.loads(pickle.dumps(t))", "slice": f"t = t[0:{nrows}]",
                             "mask": f"t = t[[True] * {nrows}]", "maskvec": f"t = t[Vector([True] * {nrows})]"}[spec["derive"]]
                            + "   # the derived table answers to the same accessors")
            if not isinstance(d, Table) or d.column_names() != final or len(d) != nrows:
                return {"skip": "the derived object is not a table with the same names and rows (not C17's subject)"}
            t = d
            del d
        adv_names = _fresh_adv(final)
        obs = []
        for k in spec["obs"]:
            if nrows == 0 and k in ("row", "rowitem", "setitem"):
                continue
            if k == "dir":
                adv = _advertised(t)
                self.log.append("adv = sorted(set(dir(t)) - set(object.__dir__(t)))")
                obs.append({"k": "dir", "adv": [[a, a.isidentifier() and not keyword.iskeyword(a), a in class_attrs] for a in adv]})
                adv_names = adv
            elif k == "getattr":
                res = []
                for a in adv_names:
                    try:
                        res.append([a, _col_index(t, getattr(t, a))])
                    except Exception as e:
                        res.append([a, _err(e)])
                self.log.append(f"[getattr(t, a) for a in {adv_names!r}]   # each must be the column at its own position")
                obs.append({"k": "getattr", "res": res})
            elif k == "row":
                res = []
                ri = nrows - 1 if rowvia == "last" else 0
                rtxt = {"index": "t[0]", "iter": "next(iter(t))", "last": "t[-1]"}[rowvia]
                self.log.append(f"r = {rtxt}; [getattr(r, a) for a in {adv_names!r}]")
                try:
                    r = t[0] if rowvia == "index" else next(iter(t)) if rowvia == "iter" else t[-1]
                    firsts = [c[ri] for c in t.cols()]
                    for a in adv_names:
                        try:
                            v = getattr(r, a)
                            js = [j for j, x in enumerate(firsts) if type(v) is int and x == v]
                            res.append([a, js[0] if len(js) == 1 else -1])
                        except Exception as e:
                            res.append([a, _err(e)])
                    del r
                except Exception as e:
                    res = [[a, _err(e)] for a in adv_names]
                obs.append({"k": "row", "res": res})
            elif k == "peek":
                # the summary table advertises an accessor per column as well (column 'attr', with a leading dot)
                self.log.append("list(t.peek()['attr'])   # must be the accessors of dir(t), column by column")
                try:
                    pk = t.peek()
                    lst = [str(x) for x in pk["attr"]] if "attr" in pk.column_names() else None
                except Exception as e:
                    lst = None
                if lst is not None:
                    obs.append({"k": "peek", "attr": lst})
            elif k == "rowitem":
                # string keys of a row: an advertised accessor gives the cell of its own column (both spellings, t[0][a] and
                # t[0, a]); a name no column answers to — in particular a method or property of the row object — is an error
                res, non = [], []
                probe = ["sum", "max", "shape", "copy", "name", "cols", "index", "count", "fingerprint", "nope_zz", "T"]
                self.log.append(f"r = t[0]; [r[a] for a in {adv_names!r}]; [t[0, x] for x in {probe!r}]   # the latter: errors unless a column answers")
                try:
                    firsts = [c[0] for c in t.cols()]
                    for a in adv_names:
                        try:
                            v1, v2 = t[0][a], t[0, a]
                            js = [j for j, x in enumerate(firsts) if type(v1) is int and x == v1 and type(v2) is int and v2 == v1]
                            res.append([a, js[0] if len(js) == 1 else -1])
                        except Exception as e:
                            res.append([a, _err(e)])
                    for x in probe:
                        if x in adv_names:
                            continue
                        ok = []
                        for f in (lambda: t[0][x], lambda: t[0, x]):
                            try:
                                f(); ok.append(False)
                            except Exception:
                                ok.append(True)
                        non.append([x, all(ok)])
                except Exception as e:
                    res = [[a, _err(e)] for a in adv_names]
                obs.append({"k": "rowitem", "res": res, "non": non})
            elif k == "setitem":
                res = []
                stxt = {"scalar": "t[0, a] = 5000 + k", "tuple": "t[0, (a,)] = [5000 + k]", "list": "t[0, [a]] = [5000 + k]",
                        "slice": "t[0:1, a] = [5000 + k]", "slicetuple": "t[0:1, (a,)] = [[5000 + k]]"}[setform]
                self.log.append(f"for k, a in enumerate({adv_names!r}): {stxt}   # must change exactly its own column")
                for a in adv_names:
                    before = [c[0] for c in t.cols()]
                    nv = self.fresh_value()
                    try:
                        if setform == "tuple":
                            t[0, (a,)] = [nv]
                        elif setform == "list":
                            t[0, [a]] = [nv]
                        elif setform == "slice":
                            t[0:1, a] = [nv]
                        elif setform == "slicetuple":
                            t[0:1, (a,)] = [[nv]]
                        else:
                            t[0, a] = nv
                        after = [c[0] for c in t.cols()]
                        ch = [j for j in range(len(after)) if after[j] != before[j]]
                        res.append([a, ch[0] if len(ch) == 1 and after[ch[0]] == nv else -1])
                    except Exception as e:
                        res.append([a, _err(e)])
                obs.append({"k": "setitem", "res": res})
            elif k == "getitem":
                res = []
                self.log.append("[t[n] for n in t.column_names() if n is not None]   # first column with that stored name")
                for j, n in enumerate(final):
                    if isinstance(n, str):
                        try:
                            res.append([j, _col_index(t, t[n])])
                        except Exception as e:
                            res.append([j, _err(e)])
                obs.append({"k": "getitem", "res": res})
                # the same through the multi-name form t[(n,)] / t[n, n]: the selected column is a copy, recognised by its cells
                cells = [[(type(x).__name__, repr(x)) for x in c] for c in t.cols()]
                if len({tuple(c) for c in cells}) == len(cells) and cells and cells[0]:
                    res2 = []
                    self.log.append("[t[(n,)] for n in t.column_names() if n is not None]   # first column with that stored name")
                    for j, n in enumerate(final):
                        if isinstance(n, str):
                            try:
                                sel = t[(n,)] if j % 2 == 0 else t[n, n]
                                got = [(type(x).__name__, repr(x)) for x in sel.cols()[0]]
                                res2.append([j, cells.index(got) if got in cells else -1])
                            except Exception as e:
                                res2.append([j, _err(e)])
                    obs.append({"k": "getitem", "res": res2})
            elif k == "repr":
                self.log.append("print(repr(t))   # dot row")
                pd = parse_dot(repr(t), final)
                if pd is not None:
                    obs.append({"k": "repr", "dot": pd[0], "shown": pd[1]})
            else:
                raise ValueError(k)
        now = t.column_names()
        self.log.append("t.column_names()")
        impl = {"ops": iops, "names": [self.intern.id(n) for n in now], "obs": obs}
        return {"fam": spec["fam"], "case": {"init": init_wire, "ops": wops}, "impl": impl}


def _raised_in_serif(e):
    """did the exception originate inside the library (rather than in this harness)?"""
    import serif, os
    root = os.path.dirname(os.path.abspath(serif.__file__))
    tb, last = e.__traceback__, None
    while tb is not None:
        last = tb.tb_frame.f_code.co_filename
        tb = tb.tb_next
    return bool(last) and os.path.abspath(last).startswith(root)


def execute(spec):
    r = _Run(spec)
    try:
        return r.run()
    except Exception as e:
        # construction, dir(), repr(), column_names(), cols() are not expected to raise for any name list
        if not _raised_in_serif(e):
            raise
        return {"fam": spec["fam"], "case": {"init": [], "ops": []}, "impl": {"ops": [], "names": [], "obs": []},
                "py_fail": f"{type(e).__name__} raised by the library outside a judged lookup (after: {r.log[-1] if r.log else 'start'})"}


# --------------------------------------------------------------------------------------------
# reporting
# --------------------------------------------------------------------------------------------

def _adv_of(wire):
    for o in wire["impl"]["obs"]:
        if o["k"] == "dir":
            return [a[0] for a in o["adv"]]
    for o in wire["impl"]["obs"]:
        if "res" in o and o["k"] != "getitem":
            return [a[0] for a in o["res"]]
    return []


def nontrivial(spec, wire):
    if spec["ops"]:
        return True
    stored = {n for n in spec["names"] if isinstance(n, str)}
    return any(a not in stored for a in _adv_of(wire)) or len(stored) < len(spec["names"])


def histogram(spec, wire):
    import re
    adv = _adv_of(wire)
    w = len(wire["impl"]["names"])
    out = [f"{spec['fam']}:width{w if w <= 4 else '5-10' if w <= 10 else '11+'}",
           f"{spec['fam']}:ops{len(spec['ops']) if len(spec['ops']) < 4 else '4+'}"]
    if any(re.search(r"__\d+$", a) for a in adv):
        out.append("has-indexed-suffix")
    if any(re.fullmatch(r"col\d+_", a) for a in adv):
        out.append("has-generated-colN")
    if any(a.endswith("_") and not re.fullmatch(r"col\d+_", a) for a in adv):
        out.append("has-reserved-or-pattern-suffix")
    for o in wire["impl"]["obs"]:
        if o["k"] == "repr":
            out.append("dot-row-shown" + ("-truncated" if len(o["shown"]) < w else ""))
    for op, res in zip(spec["ops"], wire["impl"]["ops"]):
        out.append(f"op:{op[0]}:" + ("err" if isinstance(res, str) and res.startswith("err") else "ok"))
    return out


def shrink(spec):
    names, ops = spec["names"], spec["ops"]
    for i in range(len(ops)):
        yield dict(spec, ops=ops[:i] + ops[i + 1:])
    if len(names) > 1:
        for i in range(len(names)):
            yield dict(spec, names=names[:i] + names[i + 1:])
    for i, n in enumerate(names):
        for simpler in ("a", "b", None):
            if n != simpler and n not in ("a", "b", None):
                yield dict(spec, names=names[:i] + [simpler] + names[i + 1:])
        if isinstance(n, str) and len(n) > 1:
            yield dict(spec, names=names[:i] + [n[:-1]] + names[i + 1:])
            yield dict(spec, names=names[:i] + [n[1:]] + names[i + 1:])
    for i, op in enumerate(ops):
        if op[0] in ("view", "viewattr") and len(op) > 3 and op[2] not in ("a", "b", "zz"):
            yield dict(spec, ops=ops[:i] + [op[:2] + ["zz"] + op[3:]] + ops[i + 1:])
        if op[0] in ("rename", "append", "appenddict") and op[-1] not in ("a", "b", "zz"):
            yield dict(spec, ops=ops[:i] + [op[:-1] + ["zz"]] + ops[i + 1:])
    if len(spec["obs"]) > 1:
        for i in range(len(spec["obs"])):
            yield dict(spec, obs=spec["obs"][:i] + spec["obs"][i + 1:])


def snippet(spec):
    r = _Run(spec)
    try:
        with warnings.catch_warnings():
            warnings.simplefilter("ignore")
            r.run()
    except Exception as e:  # the script so far still documents the case
        r.log.append(f"# harness stopped: {type(e).__name__}")
    return "\n".join(["from serif import Table, Vector"] + r.log)


KNOWN = {}

LEVEL_TEXT = ("Proof (Lean, all inputs): for every string, the sanitised name is None or an identifier over [a-z0-9_] starting with a letter "
              "(so arbitrary Unicode is covered) and never a reserved Vector/Table attribute name (reserved list regenerated from the live "
              "classes on every run, side conditions by kernel decide); for every name list of any width the accessors assigned by "
              "_build_column_map are pairwise distinct, each resolves through __getattr__ / __setattr__ / t[row, name] = x / Row.__getattr__ "
              "to the column at its own position, string indexing by a stored name gives its first occurrence, the dot row computed by "
              "display._compute_headers equals the accessors of the shown columns for any set of shown columns, renames never touch other "
              "stored names, and for every history of rename/replace/append/view-rename/dir/lookup operations the cached map consulted "
              "by a lookup is the map of the current names. Sampled: that the Lean model is what the Python code does (exhaustive name "
              "lists to width 3/4 over an adversarial pool, random wide tables and histories, all lookup paths on the live table).")
LEVEL_NOTE = ("Trusted: Lean kernel; axioms propext/Classical.choice/Quot.sound only; harness and extractor; the model starts after "
              "str.lower() (Unicode case mapping not modelled) and treats re.sub/strip/rpartition/isdigit/int as the structural functions "
              "in Serif.Model.Names; attribute names passed to lookups are the advertised ASCII ones. Python keywords are reserved like method names since the repair a16f1cb (keywords_reserved, accessors_not_keyword). "
              "Theorems are about the Lean model; the tie to table.py/naming.py/display.py is the differential run.")
