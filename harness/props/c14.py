"""C14 — sorting is a stable permutation with direction-independent None placement
(Table.sort_by and Vector.sort_by)."""
import itertools
from values import Interner, err_class

PID = "C14"
RULE = ("table: every table with <=6 rows (thorough: <=7) x 1 key, <=4 rows (thorough: <=5) x 2 keys and <=2 rows (thorough: <=3) x 3 keys over the cell "
        "values {0, 1, None}, for every combination of per-key direction and na_last, every row tagged with its original "
        "position in a payload column so that stability and row integrity are observable; the way the keys are passed "
        "(column name / column object / external Vector; single / list / tuple; reverse as one bool or per-key list) "
        "rotates over the cases; then random tables of 5-40 rows with 1-3 keys drawn from tiny pools (ints, "
        "1/True/1.0, strings, None) so that ties and None are frequent, plus extra payload columns; "
        "vector: every vector with <=4 (thorough: <=6) elements over {None, 0, 1, True, 1.0, 2} (equal values with distinct "
        "identities make stability observable) x reverse x na_last, then random longer ones incl. strings; "
        "malformed: reverse list of wrong length, missing column, wrong-length key vector, empty key list, non-key "
        "objects, non-bool reverse - alone and combined. Judged in Lean: the index list read from the payload column "
        "must satisfy the executable contract checkTable (permutation, pairwise lexicographic order under the "
        "specified key order, every tie class in original order), equal the model's sort loop, every column must be "
        "the input column taken through that index list, and the input must be unchanged. "
        "Gap-analysis additions: key pools of ONE type at the ends of its range (largest/smallest ints, strings, dates, bools, floats, "
        "signed zeros), print-alike strings, tuples; vectors of 64-600 elements (biased to equal values with distinct identities), "
        "temporal vectors, vectors that are named / built with a declared dtype / live table columns / the rewritten result of an earlier "
        "sort_by with the same or the OPPOSITE direction and None placement (warm 1-3, tables likewise); tables renamed through their "
        "live column views after a first sort; tables whose int columns carry a declared non-nullable dtype although they hold None. "
        "non-trivial = at least two rows/elements and a tie or a None among the keys, or a result order that "
        "differs from the input order")
ASSUMPTIONS = [
    "key values are opaque: a key cell is None or the rank of the value among the distinct non-None values of its key "
    "column, computed with Python's own < and == (so the order of values is Python's, as the property says)",
    "list.sort / sorted are stable, also under reverse=True (modelled by the stable insertion sort isort under the "
    "converse relation)",
    "key columns hold mutually comparable values without NaN (boundary: NaN as sort key is not modelled)",
    "column names in generated tables are distinct plain identifiers; name resolution itself belongs to C17",
    "which exception class a malformed request raises is modelled but not judged (the property does not name one): "
    "any exception is a conforming refusal, a returned table is not",
]
BUDGET_S = {"quick": 25, "thorough": 330}

CELLS = [0, 1, None]
VPOOL = [None, 0, 1, True, 1.0, 2]
NAMES = ["a", "b", "c", "d", "e"]


# --------------------------------------------------------------------------------------
# generation
# --------------------------------------------------------------------------------------

def _forms(i, nkeys, revs):
    """rotate the surface form of the arguments deterministically with the case counter"""
    ksrc = ["name", "col", "vec"]
    keys = [ksrc[(i + k) % 3] for k in range(nkeys)]
    if nkeys == 1:
        by_form = ["single", "list", "tuple"][(i // 3) % 3]
    else:
        by_form = ["list", "tuple"][(i // 3) % 2]
    if all(r == revs[0] for r in revs) and (i // 2) % 2 == 0:
        rev_form = "bool"
    else:
        rev_form = ["list", "tuple"][(i // 5) % 2]
    return keys, by_form, rev_form


def _table_spec(i, keycols, revs, na_last, extra=None, pos_at=None, forms=None):
    nkeys = len(keycols)
    n = len(keycols[0]) if keycols else 0
    ksrc, by_form, rev_form = forms or _forms(i, nkeys, revs)
    names, cols, by = [], [], []
    for k, (src, col) in enumerate(zip(ksrc, keycols)):
        if src == "vec":
            by.append({"vec": list(col)})
        else:
            names.append(NAMES[k]); cols.append(list(col))
            by.append({src: NAMES[k]})
    for j, col in enumerate(extra or []):
        names.append("x%d" % j); cols.append(list(col))
    return {"fam": "table", "names": names, "cols": cols, "n": n,
            "pos_at": len(cols) if pos_at is None else min(pos_at, len(cols)),
            "by": by, "by_form": by_form,
            "reverse": revs[0] if rev_form == "bool" else list(revs), "rev_form": rev_form, "na_last": na_last}


def _exhaustive_tables(nkeys, maxrows, counter, minrows=0):
    for n in range(minrows, maxrows + 1):
        for flat in itertools.product(CELLS, repeat=n * nkeys):
            keycols = [flat[k * n:(k + 1) * n] for k in range(nkeys)]
            for revs in itertools.product((False, True), repeat=nkeys):
                for na_last in (True, False):
                    counter[0] += 1
                    yield _table_spec(counter[0], keycols, revs, na_last)


POOLS = [
    [0, 1, 2, None],
    [0, 1, None, None],
    [1, True, 1.0, 0, False, None],
    ["a", "b", "", None],
    [3, 1, 2, 5, 4, 7, 6, None],
    [0.5, -1.0, 2, None, 10 ** 20],
    [0, 1],
    [None],
    # the extreme values of the order next to None: a sentinel standing in for None must not collide with a real key
    [float("inf"), float("-inf"), 1.0, None, None],
    [float("inf"), None], [float("-inf"), None],
    # temporal keys (tagged strings, decoded by _dec): several times of day on one calendar day, and plain dates
    ["T:2020-01-01T05:30:00", "T:2020-01-01T00:00:00", "T:2020-01-01T23:59:59", "T:2020-01-02T00:00:00", "T:2019-12-31T12:00:00", None],
    ["D:2020-01-01", "D:2020-01-02", "D:2019-12-31", None],
    # columns of ONE type at the ends of that type's range: whatever stands in for None on a typed fast path (a largest / smallest
    # int, string, date, bool) is a real key here
    [True, False, None], [True, None], [False, None],
    [2 ** 63 - 1, -2 ** 63, 2 ** 63, 0, None], [2 ** 31 - 1, -2 ** 31, -1, None], [10 ** 30, -10 ** 30, 5, None],
    ["\U0010ffff", "\uffff", "a", "", None], ["", None], ["~", "z", "\x7f", "\x00", None], ["a", "A", "a ", " a", "B", None],
    ["D:0001-01-01", "D:9999-12-31", "D:2020-01-01", None], ["T:0001-01-01T00:00:00", "T:9999-12-31T23:59:59.999999", "T:2020-01-01T00:00:00", None],
    [0.0, -0.0, 0, False, None], [1e308, -1e308, 5e-324, -5e-324, 0.0, None],
    [[1, 2], [1], [], [0, 5], [1, 2, 0], None],          # tuples (decoded by _dec): compared lexicographically
]


def _dec(x):
    import datetime as _dt
    if isinstance(x, list):
        return tuple(x)
    if isinstance(x, str) and x[:2] == "T:":
        return _dt.datetime.fromisoformat(x[2:])
    if isinstance(x, str) and x[:2] == "D:":
        return _dt.date.fromisoformat(x[2:])
    return x


def _random_table(rng, i, big):
    n = rng.randint(5, 40 if big else 12)
    if big and rng.random() < 0.1:
        n = rng.choice([64, 65, 130, 257, 300])  # beyond the sizes at which a sort might switch strategy
    nkeys = rng.randint(1, 3)
    keycols = []
    for _ in range(nkeys):
        pool = rng.choice(POOLS)
        keycols.append([rng.choice(pool) for _ in range(n)])
    revs = [rng.random() < 0.5 for _ in range(nkeys)]
    extra = []
    for _ in range(rng.randint(0, 2)):
        pool = rng.choice(POOLS)
        extra.append([rng.choice(pool) for _ in range(n)])
    ksrc = [rng.choice(["name", "col", "vec"]) for _ in range(nkeys)]
    by_form = rng.choice(["single", "list", "tuple"]) if nkeys == 1 else rng.choice(["list", "tuple"])
    rev_form = rng.choice(["bool", "list", "tuple"]) if len(set(revs)) == 1 else rng.choice(["list", "tuple"])
    s = _table_spec(i, keycols, revs, rng.random() < 0.5, extra, rng.randint(0, 4), (ksrc, by_form, rev_form))
    if rng.random() < 0.15:
        s["renamed"] = True
    if rng.random() < 0.15:
        s["declared"] = True
    for k in s["by"]:
        if "vec" in k and s["names"] and rng.random() < 0.5:
            k["vname"] = rng.choice(s["names"])
    if rng.random() < 0.1 and by_form != "single" and len(s["by"]) < 3:
        # the same key a second time, in the other direction (must change nothing: the first occurrence decides)
        s["by"].append(dict(s["by"][0]))
        full = list(revs) + [not revs[0]]
        s.update(reverse=full, rev_form=rng.choice(["list", "tuple"]))
    return s


def _repeated_keys(rng, tier):
    """a key given more than once — by name, as the same column view, as the very same external vector — anywhere in the key list,
    each occurrence with its own direction: the first occurrence decides, and the directions of the keys after it must stay with
    their own keys"""
    i = 0
    pats = [(0, 0, 1), (0, 1, 0), (0, 1, 1), (1, 0, 0), (0, 0, 1, 1), (0, 1, 0, 1), (0, 0, 0, 1)]
    for rep in range(2 if tier == "quick" else 12):
        n = rng.randint(5, 9)
        a = [rng.choice([0, 1, None]) for _ in range(n)]
        b = [rng.choice([0, 1, 2, None]) for _ in range(n)]
        for pat in pats:
            for dirs in itertools.product((False, True), repeat=len(pat)):
                for src in ("name", "col", "vec"):
                    i += 1
                    base = _table_spec(i, [a, b], [False, False], i % 2 == 0, None, None, ([src, src], "list", "list"))
                    by, first = [], {}
                    for pos, j in enumerate(pat):
                        k = dict(base["by"][j])
                        if j in first and "vec" in k:
                            k["same"] = first[j]
                        first.setdefault(j, pos)
                        by.append(k)
                    base.update(by=by, reverse=list(dirs), rev_form="list" if i % 3 else "tuple", by_form="list" if i % 2 else "tuple")
                    yield base


def _malformed(rng, tier):
    base = [[0, 1, None], [1, 1, 0]]
    i = 0
    for na_last in (True, False):
        for nk in (1, 2):
            keycols = base[:nk]
            ok_revs = [False, True][:nk]
            # reverse list of wrong length (shorter, longer, empty)
            for bad in ([], ok_revs + [False], ok_revs[:-1], ok_revs + [True, False]):
                if len(bad) == nk:
                    continue
                for rf in ("list", "tuple"):
                    i += 1
                    s = _table_spec(i, keycols, ok_revs, na_last)
                    s.update(reverse=list(bad), rev_form=rf, fam="table-bad", bad="reverse-length")
                    yield s
            # non-bool reverse
            for bad in (1, 0, "x", None):
                i += 1
                s = _table_spec(i, keycols, ok_revs, na_last)
                s.update(reverse=bad, rev_form="raw", fam="table-bad", bad="reverse-type")
                yield s
            # missing column, in each key position
            for pos in range(nk):
                i += 1
                s = _table_spec(i, keycols, ok_revs, na_last)
                s["by"][pos] = {"name": "zz"}
                s.update(fam="table-bad", bad="missing-column")
                yield s
            # wrong-length key vector (shorter, longer, empty)
            for pos in range(nk):
                for vec in ([0, 1], [0, 1, None, 1], [], [0]):
                    i += 1
                    s = _table_spec(i, keycols, ok_revs, na_last)
                    s["by"][pos] = {"vec": vec}
                    s.update(fam="table-bad", bad="key-length")
                    yield s
            # a key that is neither a name nor a Vector
            for pos in range(nk):
                for obj in (3, None, 1.5):
                    i += 1
                    s = _table_spec(i, keycols, ok_revs, na_last)
                    s["by"][pos] = {"bad": obj}
                    if s["by_form"] == "single":
                        s["by_form"] = "list"
                    s.update(fam="table-bad", bad="key-type")
                    yield s
        # `by` itself of the wrong type / empty
        for raw in (3, None, 1.5):
            i += 1
            s = _table_spec(i, base[:1], [False], na_last)
            s.update(by=[{"bad": raw}], by_form="single", fam="table-bad", bad="by-type")
            yield s
        for bf in ("list", "tuple"):
            i += 1
            s = _table_spec(i, base[:1], [False], na_last)
            s.update(by=[], by_form=bf, fam="table-bad", bad="by-empty")
            yield s
            s = dict(s, reverse=[], rev_form="list")
            yield s
        # empty table: well-formed and malformed
        for by in ([{"name": "a"}], [{"name": "zz"}], [{"vec": []}], [{"vec": [1]}]):
            i += 1
            s = {"fam": "table-bad" if by[0] in ({"name": "zz"}, {"vec": [1]}) else "table",
                 "names": ["a", "b"], "cols": [[], []], "n": 0, "pos_at": 1, "by": by, "by_form": "list",
                 "reverse": False, "rev_form": "bool", "na_last": na_last}
            if s["fam"] == "table-bad":
                s["bad"] = "empty-table"
            yield s
    # combinations of two faults, random positions
    for _ in range(40 if tier == "quick" else 400):
        n = rng.randint(1, 4)
        nk = rng.randint(1, 3)
        keycols = [[rng.choice(CELLS) for _ in range(n)] for _ in range(nk)]
        s = _table_spec(rng.randint(0, 999), keycols, [rng.random() < 0.5 for _ in range(nk)], rng.random() < 0.5)
        faults = rng.sample(["reverse-length", "missing-column", "key-length", "key-type"], rng.randint(1, 2))
        for f in faults:
            pos = rng.randrange(nk)
            if f == "reverse-length":
                r = [rng.random() < 0.5 for _ in range(rng.choice([x for x in range(0, nk + 3) if x != nk]))]
                s.update(reverse=r, rev_form=rng.choice(["list", "tuple"]))
            elif f == "missing-column":
                s["by"][pos] = {"name": "zz"}
            elif f == "key-length":
                s["by"][pos] = {"vec": [rng.choice(CELLS) for _ in range(rng.choice([x for x in range(0, n + 3) if x != n]))]}
            else:
                s["by"][pos] = {"bad": 7}
                if s["by_form"] == "single":
                    s["by_form"] = "list"
        s.update(fam="table-bad", bad="+".join(sorted(faults)))
        yield s


def _exhaustive_vectors(maxlen, minlen=0):
    for n in range(minlen, maxlen + 1):
        for data in itertools.product(VPOOL, repeat=n):
            for rev in (False, True):
                for na_last in (True, False):
                    yield {"fam": "vector", "data": list(data), "reverse": rev, "na_last": na_last}


def _generate(rng, tier):
    thorough = tier != "quick"
    counter = [0]
    yield from _malformed(rng, tier)
    yield from _repeated_keys(rng, tier)
    yield from _exhaustive_tables(1, 4, counter)
    yield from _exhaustive_vectors(4)
    yield from _exhaustive_tables(2, 3, counter)
    yield from _exhaustive_tables(3, 2, counter)
    nrand = 80000 if thorough else 4000
    for i in range(nrand):
        yield _random_table(rng, i, big=(i % 3 == 0))
    for i in range(nrand):
        pool = rng.choice(POOLS)
        n = rng.randint(5, 30)
        if i % 15 == 0:
            n = rng.choice([64, 65, 129, 130, 257, 300, 600])   # beyond the sizes at which a sort might switch strategy
            if rng.random() < 0.6:
                # equal values with distinct identities: the only elements on which a vector shows whether its sort is stable
                pool = rng.choice([[1, True, 1.0, 0, False, None], [0.0, -0.0, 0, False, None], [1, True, 1.0, 2, 2.0]])
        v = {"fam": "vector", "data": [rng.choice(pool) for _ in range(n)],
             "reverse": rng.random() < 0.5, "na_last": rng.random() < 0.5}
        if i % 2:
            # where the vector comes from: named, with a declared dtype, a live column of a table, the (rewritten) result of an
            # earlier sort_by
            v["vstate"] = {"name": rng.choice([None, "v", "a b"]), "declared": rng.random() < 0.3, "view": rng.random() < 0.3,
                           "warm": rng.choice([0, 0, 1, 2, 3])}
        yield v
    # the larger exhaustive scopes last, so that a budget cut never loses the families above
    yield from _exhaustive_tables(1, 7 if thorough else 6, counter, 5)
    yield from _exhaustive_tables(2, 5 if thorough else 4, counter, 4)
    if thorough:
        yield from _exhaustive_vectors(6, 5)
        yield from _exhaustive_tables(3, 3, counter, 3)



def generate(rng, tier):
    """every table case whose keys are stored columns is also run *warm* now and then: the judged table is the result of an
    earlier sort_by with the same arguments whose cells were then rewritten in place (see _build)"""
    k = 0
    for s in _generate(rng, tier):
        yield s
        if s.get("fam") == "table" and s.get("n") and all("name" in b or "col" in b for b in s.get("by", [])):
            k += 1
            if k % 4 == 0:
                yield dict(s, warm=1 + (k // 4) % 3)

# --------------------------------------------------------------------------------------
# execution on the real code
# --------------------------------------------------------------------------------------

def _ranks(values):
    """key cells: None -> None, else rank of the value among the distinct (by ==/hash) non-None values"""
    distinct = {}
    for v in values:
        if v is not None:
            distinct.setdefault(v, v)
    order = sorted(distinct.values())
    rank = {v: r for r, v in enumerate(order)}
    return [None if v is None else rank[v] for v in values]


def _all_cols(spec):
    names, cols = list(spec["names"]), [[_dec(x) for x in c] for c in spec["cols"]]
    at = spec["pos_at"]
    names.insert(at, "pos"); cols.insert(at, list(range(spec["n"])))
    return names, cols


def _build(spec):
    from serif import Table, Vector
    names, cols = _all_cols(spec)
    def _table(nms, cs):
        if spec.get("declared"):
            # columns built with a DECLARED plain dtype (`Vector(cells, dtype=int)`, non-nullable by construction) although None is
            # present: the sort must go by the cells, not by the schema
            return Table([Vector(list(c), dtype=int, name=nm) if any(x is None for x in c) and any(x is not None for x in c)
                          and all(type(x) is int for x in c if x is not None) else Vector(list(c), name=nm) for nm, c in zip(nms, cs)])
        return Table({nm: list(c) for nm, c in zip(nms, cs)})
    t = _table(names, cols)
    if spec.get("warm") == 3 and not all(isinstance(x, bool) for x in (spec["reverse"] if isinstance(spec["reverse"], list) else [spec["reverse"]])):
        spec = dict(spec, warm=1)
    if spec.get("renamed") and not spec.get("warm"):
        # the table was built and sorted once under other column names (the final ones rotated by one column); the names of the
        # spec are then given through the live column views — a name looked up or remembered before that is stale
        t = _table([names[(j + 1) % len(names)] for j in range(len(names))], cols)
        try:
            t.sort_by(names[0])
            t.sort_by([nm for nm in names])
        except Exception:
            pass
        for c, nm in zip(t.cols(), names):
            c.name = nm
    if spec.get("warm") and spec["n"] and all(("name" in k and k["name"] in names) or "col" in k for k in spec["by"]):
        # the judged table is itself the result of an earlier sort_by with the very same keys, directions and None placement,
        # whose cells were then overwritten in place through its live column views: whatever that result remembers about
        # being sorted (or about its key order) is stale when the judged call runs
        try:
            t0 = _table(names, [list(reversed(c)) for c in cols])
            by0 = [k.get("name", k.get("col")) for k in spec["by"]]
            rv0 = spec["reverse"]
            rev0 = bool(rv0) if spec["rev_form"] == "bool" else list(rv0)
            if spec["warm"] == 3:
                # ... the earlier sort went the opposite way on every key (and put None at the other end)
                rev0 = (not rev0) if isinstance(rev0, bool) else [not x for x in rev0]
            s0 = t0.sort_by(by0 if spec["by_form"] != "single" else by0[0], reverse=rev0,
                            na_last=spec["na_last"] if spec["warm"] != 3 or spec["n"] % 2 else not spec["na_last"])
            if spec["warm"] == 2:
                s0.sort_by(by0 if spec["by_form"] != "single" else by0[0], reverse=rev0, na_last=spec["na_last"])
            views = list(s0.cols())
            for v, c in zip(views, cols):
                for i, x in enumerate(c):
                    if v[i] is not x and not (v[i] == x and type(v[i]) is type(x)):
                        v[i] = x
            if [list(v) for v in s0.cols()] == [list(c) for c in cols] and s0.column_names() == list(names):
                t = s0
        except Exception:
            pass
    keys, vecs, model_keys = [], [], []
    for k in spec["by"]:
        if "name" in k:
            keys.append(k["name"])
            if k["name"] in names:
                model_keys.append({"k": "cells", "cells": _ranks(cols[names.index(k["name"])])})
            else:
                model_keys.append({"k": "missing"})
        elif "col" in k:
            keys.append(t[k["col"]])
            model_keys.append({"k": "cells", "cells": _ranks(cols[names.index(k["col"])])})
        elif "vec" in k and "same" in k and k["same"] < len(keys):
            # the very same key object once more
            keys.append(keys[k["same"]])
            model_keys.append(dict(model_keys[k["same"]]))
        elif "vec" in k:
            # an external key vector may carry the NAME of a stored column (e.g. t.score.fillna(0) keeps the name 'score'):
            # the sort must go by the vector's values, not by the stored column of that name
            v = Vector([_dec(x) for x in k["vec"]], name=k.get("vname"))
            vecs.append(v)
            keys.append(v)
            model_keys.append({"k": "cells", "cells": _ranks([_dec(x) for x in k["vec"]])})
        else:
            keys.append(k["bad"])
            model_keys.append({"k": "bad"})
    bf = spec["by_form"]
    if bf == "single":
        by = keys[0]
        mk = model_keys[0]["k"]
        # a bare object that is neither str nor Vector is rejected as `by` itself (step 1), not as a key (step 3)
        model_by = {"kind": "other"} if mk == "bad" else {"kind": "single", "keys": model_keys}
    else:
        by = list(keys) if bf == "list" else tuple(keys)
        model_by = {"kind": "seq", "keys": model_keys}
    rf, rv = spec["rev_form"], spec["reverse"]
    if rf == "bool":
        rev, model_rev = bool(rv), {"kind": "one", "b": bool(rv)}
    elif rf in ("list", "tuple"):
        rev = list(rv) if rf == "list" else tuple(rv)
        model_rev = {"kind": "many", "bs": [bool(x) for x in rv]}
    else:
        rev, model_rev = rv, {"kind": "other"}
    return t, by, rev, vecs, model_by, model_rev


def _snapshot(t, it):
    return [it.wires(list(c)) for c in t.cols()]


def _uids(ws):
    return [w[2] for w in ws]


def execute(spec):
    fam = spec["fam"]
    it = Interner()
    if fam == "vector":
        return _exec_vector(spec, it)
    from serif import Table
    t, by, rev, vecs, model_by, model_rev = _build(spec)
    n = spec["n"]
    before = [_uids(c) for c in _snapshot(t, it)]
    if len(before) != len(spec["names"]) + 1 or any(len(c) != n for c in before):
        return {"skip": "table could not be built as specified"}
    vec_before = [_uids(it.wires(list(v))) for v in vecs]
    case = {"nrows": n, "cols": before, "by": model_by, "rev": model_rev, "na_last": bool(spec["na_last"])}

    def _argsnap(a):
        # the caller's own argument objects (a list of names / vectors / flags is an input too)
        if isinstance(a, (list, tuple)):
            return (type(a).__name__, [x if isinstance(x, (str, bool)) or x is None else ("obj", id(x)) for x in a])
        return ("scalar", a if isinstance(a, (str, bool)) or a is None else ("obj", id(a)))
    args_before = (_argsnap(by), _argsnap(rev))
    try:
        r = t.sort_by(by, reverse=rev, na_last=spec["na_last"])
        if not isinstance(r, Table):
            impl = {"ok": {"cols": [], "perm": [], "note": "not a Table"}}
        else:
            out = [list(c) for c in r.cols()]
            at = spec["pos_at"]
            perm = []
            if at < len(out):
                for x in out[at]:
                    perm.append(x if type(x) is int and 0 <= x < n else n)
            impl = {"ok": {"cols": [_uids(it.wires(c)) for c in out], "perm": perm}}
    except Exception as e:
        impl = {"err": err_class(e)}
    impl["after"] = [_uids(c) for c in _snapshot(t, it)]
    w = {"fam": "table", "case": case, "impl": impl}
    vec_after = [_uids(it.wires(list(v))) for v in vecs]
    if vec_after != vec_before:
        w["py_fail"] = "an external key vector was modified by sort_by"
    if (_argsnap(by), _argsnap(rev)) != args_before:
        w["py_fail"] = "the caller's `by` / `reverse` argument object was modified by sort_by (the input is not left as it was)"
    return w


def _exec_vector(spec, it):
    from serif import Vector, Table
    data = [_dec(x) for x in spec["data"]]
    st = spec.get("vstate") or {}

    def mk(vals):
        vals = list(vals)
        if st.get("view"):
            return Table({st.get("name") or "a": vals, "zz": list(range(len(vals)))}).cols()[0]
        if st.get("declared") and vals and all(type(x) is int for x in vals if x is not None) and any(x is not None for x in vals):
            return Vector(vals, dtype=int, name=st.get("name"))
        return Vector(vals, name=st.get("name"))
    v = None
    if st.get("warm") and data:
        # the judged vector is the result of an earlier sort_by with the same arguments (sorted once more for warm == 2) whose
        # elements were then overwritten in place: whatever it remembers about being sorted is stale
        try:
            r0 = mk(reversed(data)).sort_by(reverse=spec["reverse"] if st["warm"] != 3 else not spec["reverse"],
                                            na_last=spec["na_last"] if st["warm"] != 3 or len(data) % 2 else not spec["na_last"])
            if st["warm"] == 2:
                r0.sort_by(reverse=spec["reverse"], na_last=spec["na_last"])
            for i, x in enumerate(data):
                if r0[i] is not x and not (r0[i] == x and type(r0[i]) is type(x)):
                    r0[i] = x
            if len(r0) == len(data) and all(a is b or (a == b and type(a) is type(b)) for a, b in zip(list(r0), data)):
                v = r0
        except Exception:
            v = None
    if v is None:
        v = mk(data)
    ws = it.wires(list(v))
    if len(ws) != len(data):
        return {"skip": "vector could not be built as specified"}
    if any(not (a is b or (a == b and type(a) is type(b))) for a, b in zip(list(v), data)):
        return {"skip": "vector does not hold the elements as specified (construction converted them)"}
    cells = _ranks(data)
    case = {"data": [[c, w[2]] for c, w in zip(cells, ws)], "rev": bool(spec["reverse"]), "na_last": bool(spec["na_last"])}
    try:
        r = v.sort_by(reverse=spec["reverse"], na_last=spec["na_last"])
        impl = {"ok": _uids(it.wires(list(r)))}
    except Exception as e:
        impl = {"err": err_class(e)}
    impl["after"] = _uids(it.wires(list(v)))
    return {"fam": "vector", "case": case, "impl": impl}


# --------------------------------------------------------------------------------------
# reporting
# --------------------------------------------------------------------------------------

def _key_cells(wire):
    c = wire["case"]
    if "data" in c:
        return [[d[0] for d in c["data"]]]
    return [k["cells"] for k in c["by"].get("keys", []) if k.get("k") == "cells"]


def nontrivial(spec, wire):
    cols = _key_cells(wire)
    if not cols or "err" in wire["impl"]:
        return False
    n = len(cols[0])
    if n < 2 or any(len(c) != n for c in cols):
        return False
    rows = list(zip(*cols))
    has_tie = len(set(rows)) < n
    has_none = any(x is None for r in rows for x in r)
    ok = wire["impl"].get("ok")
    moved = False
    if isinstance(ok, dict):
        moved = ok.get("perm") != list(range(n))
    elif isinstance(ok, list):
        moved = ok != [d[1] for d in wire["case"]["data"]]
    return has_tie or has_none or moved


def _bucket(n):
    return "0" if n == 0 else "1" if n == 1 else "2-4" if n <= 4 else "5-12" if n <= 12 else "13+"


def histogram(spec, wire):
    fam = spec["fam"]
    out = []
    cols = _key_cells(wire)
    c = wire["case"]
    if fam == "vector":
        n = len(c["data"])
        out.append(f"vector:n={_bucket(n)}")
        out.append(f"vector:rev={c['rev']},na_last={c['na_last']}")
        uids = {}
        for cell, u in c["data"]:
            uids.setdefault(cell, set()).add(u)
        if any(len(s) > 1 for k, s in uids.items() if k is not None):
            out.append("vector:equal-values-distinct-identity")
        if any(cell is None for cell, _ in c["data"]):
            out.append("vector:has-none")
        return out
    if "err" in wire["impl"]:
        out.append(f"{fam}:error={wire['impl']['err']}")
        out.append(f"{fam}:fault={spec.get('bad', 'none')}")
        return out
    n = c["nrows"]
    out.append(f"table:rows={_bucket(n)}")
    out.append(f"table:keys={len(spec['by'])}")
    out.append("table:by=" + "+".join(sorted({next(iter(k)) for k in spec["by"]})) + "/" + spec["by_form"])
    out.append(f"table:reverse-form={spec['rev_form']}")
    rv = spec["reverse"]
    rl = [rv] * len(spec["by"]) if isinstance(rv, bool) else list(rv)
    out.append("table:directions=" + ("mixed" if len(set(rl)) > 1 else ("desc" if rl and rl[0] else "asc")))
    out.append(f"table:na_last={spec['na_last']}")
    if cols and all(len(x) == n for x in cols):
        rows = list(zip(*cols))
        if any(x is None for r in rows for x in r):
            out.append("table:has-none-key")
        if len(set(rows)) < n:
            out.append("table:rows-tied-on-all-keys")
    return out


def shrink(spec):
    fam = spec["fam"]
    if fam == "vector":
        d = spec["data"]
        for i in range(len(d)):
            yield dict(spec, data=d[:i] + d[i + 1:])
        for i, x in enumerate(d):
            if x not in (None, 0, 1):
                yield dict(spec, data=d[:i] + [1] + d[i + 1:])
        return
    n = spec["n"]
    # drop a row everywhere (only when every external key vector has the table's length)
    if all(len(k["vec"]) == n for k in spec["by"] if "vec" in k):
        for i in range(n):
            s = dict(spec, n=n - 1, cols=[c[:i] + c[i + 1:] for c in spec["cols"]],
                     by=[({"vec": k["vec"][:i] + k["vec"][i + 1:]} if "vec" in k else dict(k)) for k in spec["by"]])
            yield s
    # drop a payload column
    used = {k.get("name") or k.get("col") for k in spec["by"]}
    for j, nm in enumerate(spec["names"]):
        if nm not in used:
            yield dict(spec, names=spec["names"][:j] + spec["names"][j + 1:], cols=spec["cols"][:j] + spec["cols"][j + 1:],
                       pos_at=min(spec["pos_at"], len(spec["names"]) - 1))
    # drop a key (with its direction)
    if len(spec["by"]) > 1 and spec["by_form"] != "single":
        for j in range(len(spec["by"])):
            s = dict(spec, by=spec["by"][:j] + spec["by"][j + 1:])
            if isinstance(spec["reverse"], list) and len(spec["reverse"]) == len(spec["by"]):
                s["reverse"] = spec["reverse"][:j] + spec["reverse"][j + 1:]
            yield s
    # simpler surface forms
    for j, k in enumerate(spec["by"]):
        if "col" in k:
            yield dict(spec, by=spec["by"][:j] + [{"name": k["col"]}] + spec["by"][j + 1:])
    if spec["rev_form"] in ("list", "tuple") and isinstance(spec["reverse"], list) and spec["reverse"] \
            and len(spec["reverse"]) == len(spec["by"]) and len(set(spec["reverse"])) == 1:
        yield dict(spec, reverse=spec["reverse"][0], rev_form="bool")
    if spec["by_form"] == "tuple":
        yield dict(spec, by_form="list")
    # smaller values
    for j, c in enumerate(spec["cols"]):
        for i, x in enumerate(c):
            if x not in (None, 0, 1):
                yield dict(spec, cols=spec["cols"][:j] + [c[:i] + [1] + c[i + 1:]] + spec["cols"][j + 1:])


def snippet(spec):
    if spec["fam"] == "vector":
        return ("from serif import Vector\n"
                f"v = Vector({spec['data']!r})\n"
                f"print(list(v.sort_by(reverse={spec['reverse']!r}, na_last={spec['na_last']!r})))")
    names, cols = _all_cols(spec)
    lines = ["from serif import Table, Vector",
             "t = Table({" + ", ".join(f"{nm!r}: {c!r}" for nm, c in zip(names, cols)) + "})"]
    ks = []
    for k in spec["by"]:
        if "name" in k:
            ks.append(repr(k["name"]))
        elif "col" in k:
            ks.append(f"t[{k['col']!r}]")
        elif "vec" in k:
            ks.append(f"Vector({k['vec']!r})")
        else:
            ks.append(repr(k["bad"]))
    bf = spec["by_form"]
    by = ks[0] if bf == "single" and ks else ("[" + ", ".join(ks) + "]" if bf != "tuple" else "(" + ", ".join(ks) + ("," if len(ks) == 1 else "") + ")")
    rv = spec["reverse"]
    rev = repr(tuple(rv)) if spec["rev_form"] == "tuple" else repr(rv)
    lines.append(f"r = t.sort_by({by}, reverse={rev}, na_last={spec['na_last']!r})")
    lines.append("print(r)   # column 'pos' holds the original row positions")
    return "\n".join(lines)


KNOWN = {}

LEVEL_TEXT = ("Proof: for the loop 'one stable sort per key, from the last key to the first' over any element type and any total "
              "preorders it is proved that the result is a permutation, is pairwise in the lexicographic order of the keys, "
              "leaves every class of elements tied on all keys in input order (both directions), is idempotent, equals one stable "
              "sort by the lexicographic order, and is the only list satisfying that contract. The key order of the source "
              "(Python's order on the tuples (flag, value), ascending or reverse=True) is proved equal to the specified one - "
              "own direction for values, None last iff na_last whatever the direction - from the flag truth tables of "
              "Table.sort_by and Vector.sort_by, which are regenerated on every run by executing the key functions found in "
              "the source (decide over the whole table). The theorems are instantiated for the models of Table.sort_by "
              "(validation order, index list, columns gathered through it, re-sorting the result is the identity) and "
              "Vector.sort_by. Sampled, not proved: that the Python functions behave as the model - every table up to 4/5 "
              "rows x 1-2 keys (3 keys: 2/3 rows) over {0,1,None} x every direction/na_last, every vector up to 4/5 elements "
              "over a pool with equal-but-distinct values, random larger cases, malformed requests; input-unchanged is "
              "observed, not proved (the model is a pure function).")
LEVEL_NOTE = ("Trusted: Lean kernel; axioms propext/Classical.choice/Quot.sound only; harness, extractor and driver; stability of "
              "CPython's list.sort/sorted incl. reverse=True (modelled by isort under the converse relation); key values enter "
              "only as ranks computed with Python's < (NaN and mutually incomparable keys are outside the model). The exception "
              "class of a refused request is modelled (validation order) but not judged.")
