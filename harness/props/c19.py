"""C19 — CSV ingestion is faithful to the file."""
import atexit, csv, io, itertools, os, random, shutil, tempfile
from values import Interner, dtype_wire, err_class

PID = "C19"
RULE = ("texts are produced with csv.writer from tables of cell texts (or, family raw, are every string over a small "
        "alphabet of letters, digits, delimiter, quote, CR, LF and space); the lexical oracle is csv.reader run by the "
        "harness on an identical source, the per-cell oracle is Python's own strip/int/float; the Lean model readCsv "
        "(header/data split, col_i names, transposition with None padding, classification order, dtype by infer) is applied "
        "to those records and must equal column_names()/len()/cells/schema() of read_csv's result. Exhaustive: every "
        "record-length pattern for header width 0..3 x 0..3 records (lengths 0..width+1), each x has_header x 4 delimiters "
        "x source kinds; every pool cell alone and every ordered pair of pool cells in one column; all raw strings to "
        "length 4 (quick) / 6 (thorough). gap analysis: calls that leave delimiter/has_header/encoding at their defaults, file objects in "
        "default newline mode and TextIOWrapper over bytes, numeric texts padded with Unicode whitespace and further look-alikes, a byte-order "
        "mark in cells and header, 12..60 columns, 1001+ records with a late change of character, one 70000-character cell. non-trivial = at least one of: jagged record, blank/None cell, numeric "
        "look-alike, cell needing quotes, repeated or odd header name, header-only, header-less, empty input, zero columns")
ASSUMPTIONS = ["the lexical layer is modelled (Serif.CsvLex: csv.reader's state machine with the dialect defaults read_csv leaves "
               "in place, driven over the lines the file object delivers); on every case the model's records must equal "
               "csv.reader's on an identical source and the model must reject exactly the texts csv.reader rejects (a "
               "disagreement is a harness error, not a verdict); how the file object cuts the text into lines is modelled as well "
               "(splitP univ for sources with newline='', splitP lf for plain StringIO) and compared with the lines Python delivers; "
               "decoding of bytes, NUL characters and dialect options read_csv does not pass stay with CPython",
               "Python's str.strip / int() / float() on each cell text are the classification oracle",
               "zero-column inputs (blank header line / blank first line of a header-less file) are compared with the "
               "model (no columns, no rows) and are outside the one-row-per-record claim (CONVENTIONS boundary)",
               "delimiters are single characters accepted by csv.reader; encodings utf-8 (default) and latin-1"]
BUDGET_S = {"quick": 25, "thorough": 300}

DELIMS = [",", ";", "\t", "|"]
SOURCES = ["sio", "path", "file", "sio_default", "path_latin1"]

# numeric look-alikes
LOOKALIKE = ["1", "-3", "+5", " 7 ", "1_000", "0x10", "1e3", "1E-2", "nan", "NaN", "inf", "-inf", "Infinity", "1.5", ".5", "5.",
             "1e", "--1", "-0", "-0.0", "0.0", "007", "1e400", "9" * 25, "١٢", "１２", "1 2", "1,5", "1;5",
             "True", "None", "0b1", "1j", "١٫٥", "1__0", "_1", "1_", "\t8\t", "4\n", " 3 ", "1 000", "²"]
BLANKS = ["", " ", "  ", "\t", "\xa0", "\u3000", " \n ", "\r\n"]
QUOTED = ["a,b", "x;y", "p|q", "a\tb", 'he said "hi"', '"', '""', "l1\nl2", "l1\r\nl2", "a\rb", ",", "'1'", 'a"b,c\nd', " x ",
          "\"1\"", "a b",
          # a backslash is an ordinary character of the dialect (no escapechar): verbatim, also before a delimiter, a quote, a digit
          "C:\\temp\\new", "a\\", "\\1", "q\\\"", "\\,x", "\\"]
UNICODE = ["é", "日本", "ß", "İ", "naïve café", "Ωmega", "\u200bz", "a\u0301"]
PLAIN = ["a", "b", "x", "abc", "A"]
POOL = LOOKALIKE + BLANKS + QUOTED + UNICODE + PLAIN
HEADERS = ["a", "b", "a", "", " ", "x y", "1", "sum", "A", "é", "a,b", "l1\nl2", '"q"', "col_0", "None", " a ", "日本", "name", "len",
           "dom\\user", "tail\\"]

# --- gap families (kept apart from the classic pools so that the classic streams are unchanged) --------------------------------
# numeric texts padded with whitespace only str.strip()/int()/float() know about, further look-alikes, a byte-order mark
LOOKALIKE2 = ["\u20037\u2003", "\xa01.5", "\x1c5", "5\x85", "\u30003", "-", "+", ".", "e5", "0e0", "1e-400", "infinity", "-nan", "+inf",
              "1_0.5", "1e1_0", "0o17", "0_0", "00", "-00", "1.e1", "+-1", "1.5.2", "0x", "1e+", "٣.٥", "-١", "1\u00a0000", "\ufeff1",
              "\ufeff", "\xa0x\u2003", "\x1fy z\x1c", "9" * 4301, "TRUE", "null", "NA", "1 ", " -2", "3 \t"]
HEADERS2 = ["\ufeffa", "a", "A", "col_1", "", "1", " a", "a ", "\xa0", "x\ty", "None"]
SOURCES2 = ["file_default", "textwrap"]      # open(path) in its default newline mode (the docstring example); a TextIOWrapper over bytes

_TMP = {"dir": None}


def _tmpdir():
    if _TMP["dir"] is None or _TMP.get("pid") != os.getpid():
        _TMP["dir"] = tempfile.mkdtemp(prefix="serif_c19_")
        _TMP["pid"] = os.getpid()
        atexit.register(shutil.rmtree, _TMP["dir"], True)
    return _TMP["dir"]


def _cells(rng, n, pool=POOL):
    return [rng.choice(pool) for _ in range(n)]


def _generate_gaps(rng, thorough):
    reps = 1 if not thorough else 8
    # (a) the arguments left at their defaults (no delimiter=, no has_header=, no encoding=): every source kind, old and new
    for _rep in range(reps * 3):
        for src in SOURCES + SOURCES2:
            for w in (1, 2, 3):
                nrec = rng.choice([0, 1, 2, 4])
                recs = [_cells(rng, w, HEADERS)] + [_cells(rng, rng.choice([w, w, w - 1, w + 1]), POOL) for _ in range(nrec)]
                yield {"fam": "read", "gen": "defaults", "delim": ",", "hh": True, "src": src, "records": recs, "defaults": True,
                       "quoting": rng.choice([0, 0, 1]), "lt": rng.choice(["\r\n", "\n", "\r"])}
    for text in ("", "\n", "a\n", "a,b\n1,2\n", "1,2\n3,4", "a;b\n1;2\n", "\ufeffa,b\n1,2\n", 'a,"b\r\nc"\r\n1,2\r\n'):
        for src in SOURCES + SOURCES2:
            yield {"fam": "read", "gen": "defaults", "delim": ",", "hh": True, "src": src, "text": text, "defaults": True}
    # (b) the new source kinds with every dialect and has_header setting (embedded CR / CRLF are where they differ from the others)
    for _rep in range(reps * 2):
        for src in SOURCES2:
            for d in DELIMS:
                for hh in (True, False):
                    w = rng.choice([1, 2, 3])
                    pool = rng.choice([POOL, QUOTED + BLANKS, LOOKALIKE + BLANKS])
                    recs = [_cells(rng, w, HEADERS if hh else pool)] + [_cells(rng, rng.choice([w, w, w + 1, max(0, w - 1)]), pool)
                                                                       for _ in range(rng.choice([0, 1, 3, 6]))]
                    yield {"fam": "read", "gen": "sources", "delim": d, "hh": hh, "src": src, "records": recs,
                           "quoting": rng.choice([0, 1]), "lt": rng.choice(["\r\n", "\n", "\r"])}
    soup = ["a", "1", " ", '"', "\n", "\r\n", "\r", "é", ",", ","]
    for _ in range(150 * reps):
        yield {"fam": "read", "gen": "sources", "delim": ",", "hh": rng.random() < 0.5, "src": rng.choice(SOURCES2),
               "text": "".join(rng.choice(soup) for _ in range(rng.randint(1, 16)))}
    # (c) further cell texts: alone, and under / above an int, a float, a text and a blank (column dtype by inference)
    for cell in LOOKALIKE2:
        for d in (",", ";"):
            for hh in (True, False):
                yield {"fam": "read", "gen": "cell2", "delim": d, "hh": hh, "src": "sio", "records": ([["h"]] if hh else []) + [[cell]]}
        for other in ("1", "2.5", "x", "", " "):
            yield {"fam": "read", "gen": "cell2", "delim": ",", "hh": True, "src": rng.choice(SOURCES), "records": [["h"], [cell], [other]]}
            yield {"fam": "read", "gen": "cell2", "delim": ",", "hh": True, "src": "sio", "records": [["h"], [other], [cell]]}
    for h in HEADERS2:
        for h2 in HEADERS2[:6]:
            yield {"fam": "read", "gen": "cell2", "delim": ",", "hh": True, "src": rng.choice(SOURCES + SOURCES2),
                   "records": [[h, h2], ["1", "x"]], "defaults": rng.random() < 0.5}
    # (d) shapes beyond the classic ones: 12..60 columns, 1000+ records (with a late change of character), one very long cell
    for w in (12, 25, 60) * reps:
        nrec = rng.choice([0, 1, 3])
        hh = rng.random() < 0.7
        recs = [_cells(rng, w, HEADERS if hh else POOL)] + [_cells(rng, rng.choice([w, w - 5, w + 3]), POOL) for _ in range(nrec)]
        yield {"fam": "read", "gen": "shape", "delim": rng.choice(DELIMS), "hh": hh, "src": rng.choice(SOURCES + SOURCES2), "records": recs,
               "quoting": 0, "lt": "\n"}
    for nrec in (1001, 1100):
        for kind, late in ((["x", "y z"], "7"), (["x", "abc"], "1e3"), (["1", " 42 "], "x"), (["", " "], "7"), (["2.5", "nan"], "")):
            recs = [["c0", "c1"]] + [[rng.choice(kind), str(r)] for r in range(nrec)]
            recs[rng.choice([nrec, 1001])][0] = late            # data record 1000 (the 1001st) or the last one
            yield {"fam": "read", "gen": "shape", "delim": ",", "hh": True, "src": rng.choice(SOURCES), "records": recs, "quoting": 0, "lt": "\n"}
    yield {"fam": "read", "gen": "shape", "delim": ",", "hh": True, "src": "sio", "records": [["h", "k"], ["x" * 70000, "1" * 5000], ["", "2"]]}


def generate(rng, tier):
    thorough = tier == "thorough"
    # 0. empty input and blank-line-only input through every source kind
    for text in ("", "\n", "\r\n", "\n\n"):
        for src in SOURCES:
            for d in DELIMS:
                for hh in (True, False):
                    yield {"fam": "read", "gen": "empty", "delim": d, "hh": hh, "src": src, "text": text}
    # 1. every pool cell alone, header and header-less, every delimiter
    for cell in POOL:
        for d in DELIMS:
            for hh in (True, False):
                yield {"fam": "read", "gen": "cell", "delim": d, "hh": hh, "src": "sio",
                       "records": ([["h"]] if hh else []) + [[cell]]}
    # 1b. (gap analysis) own generator, seeded from rng's state without drawing from it
    yield from _generate_gaps(random.Random(hash(rng.getstate()[1][:8])), thorough)
    # 2. every ordered pair of pool cells in one column (dtype by inference, first cell blank, ...)
    for a in POOL:
        for b in POOL:
            yield {"fam": "read", "gen": "pair", "delim": ",", "hh": True, "src": "sio", "records": [["h"], [a], [b]]}
    # 3. every record-length pattern: header width 0..3, 0..3 records, lengths 0..width+1
    reps = 2 if not thorough else 8
    for rep in range(reps):
        for w in range(0, 4):
            for nrec in range(0, 4):
                for lens in itertools.product(range(0, w + 2), repeat=nrec):
                    for hh in (True, False):
                        for d in DELIMS:
                            src = rng.choice(SOURCES)
                            hdr = _cells(rng, w, HEADERS) if hh else _cells(rng, w)
                            recs = [hdr] + [_cells(rng, n) for n in lens]
                            yield {"fam": "read", "gen": "grid", "delim": d, "hh": hh, "src": src, "records": recs,
                                   "quoting": rng.choice([0, 0, 1]), "lt": rng.choice(["\r\n", "\n"])}
    # 4. raw strings over a small alphabet (no csv.writer: unbalanced quotes, bare CR, blank lines, no final newline)
    alpha = ["a", "1", ",", '"', "\n", " ", "\r"]
    maxlen = 7 if thorough else 5
    for n in range(0, maxlen + 1):
        for tup in itertools.product(alpha, repeat=n):
            text = "".join(tup)
            yield {"fam": "read", "gen": "raw", "delim": ",", "hh": (len(text) + n) % 2 == 0 or n < 3, "src": "sio", "text": text}
            if n < 3:
                yield {"fam": "read", "gen": "raw", "delim": ",", "hh": False, "src": "sio", "text": text}
    # 5. random larger tables: jagged, wide, long, every source kind and dialect
    for _ in range(4000 if not thorough else 60000):
        w = rng.choice([1, 2, 3, 5, 8])
        nrec = rng.choice([0, 1, 2, 5, 12, 30])
        hh = rng.random() < 0.7
        pool = rng.choice([POOL, LOOKALIKE + BLANKS, ["1", "2.5", "", "x"], QUOTED + BLANKS, UNICODE + PLAIN + [""]])
        jag = rng.choice([0.0, 0.2, 0.6])
        recs = [_cells(rng, w, HEADERS) if hh else _cells(rng, w, pool)]
        for _r in range(nrec):
            n = w if rng.random() >= jag else rng.randint(0, w + 2)
            recs.append(_cells(rng, n, pool))
        yield {"fam": "read", "gen": "random", "delim": rng.choice(DELIMS), "hh": hh, "src": rng.choice(SOURCES),
               "records": recs, "quoting": rng.choice([0, 0, 1, 2]), "lt": rng.choice(["\r\n", "\n", "\r"])}
    # 5b. long files whose columns change character late: a long uniform prefix (all text / all ints / all blank) followed by
    #     cells of another kind — the classification of a cell must not depend on the cells above it
    for _ in range(40 if not thorough else 600):
        nrec = rng.choice([129, 130, 200, 257, 300, 520])
        w = rng.choice([1, 2, 3])
        kinds = [rng.choice(["text", "int", "blank", "float"]) for _ in range(w)]
        sample = {"text": ["x", "abc", "y z"], "int": ["1", " 42 ", "-7"], "blank": ["", " "], "float": ["2.5", "7e2", "nan"]}
        switch = rng.choice([nrec - 1, nrec - 3, 128, 129, nrec // 2])
        hh = rng.random() < 0.7
        recs = [["c%d" % i for i in range(w)]] if hh else []
        for r in range(nrec):
            row = []
            for c in range(w):
                k = kinds[c] if r < switch else rng.choice(["text", "int", "blank", "float"])
                row.append(rng.choice(sample[k]))
            recs.append(row)
        yield {"fam": "read", "gen": "random", "delim": rng.choice(DELIMS), "hh": hh, "src": rng.choice(SOURCES),
               "records": recs, "quoting": 0, "lt": rng.choice(["\r\n", "\n"])}
    # 6. random raw soup with every delimiter (malformed stream: stray quotes, mixed line ends)
    soup = ["a", "1", " ", '"', "\n", "\r\n", "\r", "é", "5.", "x y", "\\", "\t", "\x0c", "\u2028"]
    for _ in range(2000 if not thorough else 40000):
        d = rng.choice(DELIMS)
        text = "".join(rng.choice(soup + [d, d]) for _ in range(rng.randint(1, 24)))
        yield {"fam": "read", "gen": "soup", "delim": d, "hh": rng.random() < 0.5, "src": rng.choice(SOURCES), "text": text}


def _text(spec):
    if "text" in spec:
        return spec["text"]
    buf = io.StringIO(newline="")
    w = csv.writer(buf, delimiter=spec["delim"], quoting=spec.get("quoting", 0), lineterminator=spec.get("lt", "\r\n"))
    for r in spec["records"]:
        w.writerow(r)
    return buf.getvalue()


def _sources(spec, text):
    """returns (make_oracle_source, make_impl_argument, kwargs, cleanup) — two identical fresh sources"""
    src = spec["src"]
    if src == "sio":
        return (lambda: io.StringIO(text, newline="")), (lambda: io.StringIO(text, newline="")), {}
    if src == "sio_default":
        return (lambda: io.StringIO(text)), (lambda: io.StringIO(text)), {}
    if src == "textwrap":
        mk = lambda: io.TextIOWrapper(io.BytesIO(text.encode("utf-8")), encoding="utf-8", newline="")
        return mk, mk, {}
    enc = "latin-1" if src == "path_latin1" else "utf-8"
    path = os.path.join(_tmpdir(), "in.csv")
    with open(path, "w", encoding=enc, newline="") as f:
        f.write(text)
    opener = lambda: open(path, "r", encoding=enc, newline="")
    if src == "file":
        return opener, opener, {}
    if src == "file_default":
        # what the docstring of read_csv shows: `with open("data.csv") as f: read_csv(f)` - the file object translates line ends
        translating = lambda: open(path, "r", encoding=enc)
        return translating, translating, {}
    kw = {"encoding": enc} if src == "path_latin1" else {}
    return opener, (lambda: path), kw


def execute(spec):
    from serif import read_csv
    text = _text(spec)
    if spec["src"] == "path_latin1":
        try:
            text.encode("latin-1")
        except UnicodeEncodeError:
            spec = dict(spec, src="path")
    mk_oracle, mk_arg, kw = _sources(spec, text)
    f = mk_oracle()
    try:
        lines = list(f)          # the lines as this kind of file object delivers them (what csv.reader pulls)
    finally:
        f.close()
    # the source kinds the Lean line-splitting model knows: a translating file object delivers the lines of the translated text
    # cut at LF (policy of sio_default); a TextIOWrapper with newline='' behaves like a file opened with newline=''
    wire_src, wire_text = spec["src"], text
    if spec["src"] == "file_default":
        wire_src, wire_text = "sio_default", "".join(lines)
    elif spec["src"] == "textwrap":
        wire_src = "file"
    f = mk_oracle()
    try:
        lex = list(csv.reader(f, delimiter=spec["delim"]))
    except csv.Error as e:
        # the lexer model (Serif.CsvLex) must reject the text as well; what read_csv does with it is not judged
        return {"fam": "lex", "case": {"lines": lines, "delim": spec["delim"], "src": wire_src, "has_header": bool(spec["hh"]),
                                       "records": [], "text": wire_text}, "impl": {"lexerr": True}}
    finally:
        f.close()
    I = Interner()

    def cell(t):
        s = t.strip()
        try:
            i = I.wire(int(s))
            i = [i[0], i[2]]
        except ValueError:
            i = None
        try:
            fl = I.wire(float(s))
            fl = [fl[0], fl[2]]
        except ValueError:
            fl = None
        sw = I.wire(s)
        return {"t": t, "b": (not t) or t.strip() == "", "i": i, "f": fl, "s": [sw[0], sw[2]]}

    case = {"has_header": bool(spec["hh"]), "src": wire_src, "records": [[cell(t) for t in rec] for rec in lex],
            "lines": lines, "delim": spec["delim"], "text": wire_text}
    arg = mk_arg()
    try:
        if spec.get("defaults") and spec["delim"] == "," and spec["hh"] is True:
            t = read_csv(arg, **kw)      # delimiter, has_header (and encoding unless latin-1) left at their defaults
        else:
            t = read_csv(arg, delimiter=spec["delim"], has_header=spec["hh"], **kw)
    except Exception as e:
        impl = {"err": err_class(e)}
    else:
        from serif import Table
        cols = list(t.cols()) if isinstance(t, Table) else []
        impl = {"is_table": type(t) is Table, "names": list(t.column_names()) if isinstance(t, Table) else [],
                "nrows": len(t), "cols": [I.wires(list(c)) for c in cols],
                "dtypes": [dtype_wire(c.schema()) for c in cols]}
    finally:
        if hasattr(arg, "close"):
            arg.close()
    return {"fam": "read", "case": case, "impl": impl}


def _features(wire):
    recs = wire["case"]["records"]
    hh = wire["case"]["has_header"]
    out = set()
    if not recs:
        return {"empty-input"}
    width = len(recs[0])
    data = recs[1:] if hh else recs
    out.add("header" if hh else "headerless")
    if width == 0:
        out.add("zero-columns")
    if not data:
        out.add("header-only")
    if any(len(r) < width for r in data):
        out.add("short-record")
    if any(len(r) > width for r in data):
        out.add("long-record")
    for r in data:
        for c in r[:width]:
            if c["b"]:
                out.add("cell-none")
            elif c["i"] is not None:
                out.add("cell-int")
            elif c["f"] is not None:
                out.add("cell-float")
            else:
                out.add("cell-str")
            if c["t"] != c["t"].strip() and not c["b"]:
                out.add("cell-padded")
            if any(ch in c["t"] for ch in ',;|\t"\n\r'):
                out.add("cell-quoted")
            if any(ord(ch) > 127 for ch in c["t"]):
                out.add("cell-unicode")
    if hh:
        names = [c["t"] for c in recs[0]]
        if len(set(names)) < len(names):
            out.add("repeated-name")
        if any((not n) or n != n.strip() or any(ch in n for ch in ',;|\t"\n\r') for n in names):
            out.add("odd-name")
    return out


def nontrivial(spec, wire):
    f = _features(wire)
    return bool(f - {"header", "cell-str"})


def histogram(spec, wire):
    recs = wire["case"]["records"]
    b = lambda n: "0" if n == 0 else "1" if n == 1 else "2-3" if n <= 3 else "4+"
    out = [f"gen:{spec.get('gen')}", f"src:{wire['case']['src']}", f"delim:{spec['delim']!r}",
           f"records:{b(len(recs))}", f"width:{b(len(recs[0]) if recs else 0)}"]
    out += sorted(_features(wire))
    if "err" in wire["impl"]:
        out.append("impl-raised:" + wire["impl"]["err"])
    return out


def shrink(spec):
    if "text" in spec:
        t = spec["text"]
        for i in range(len(t)):
            yield dict(spec, text=t[:i] + t[i + 1:])
    else:
        recs = spec["records"]
        for i in range(len(recs)):
            if i > 0 or not spec["hh"]:
                yield dict(spec, records=recs[:i] + recs[i + 1:])
        for i, r in enumerate(recs):
            for j in range(len(r)):
                yield dict(spec, records=recs[:i] + [r[:j] + r[j + 1:]] + recs[i + 1:])
        for i, r in enumerate(recs):
            for j in range(len(r)):
                for simple in ("a", "1", ""):
                    if r[j] != simple and len(simple) <= len(r[j]):
                        yield dict(spec, records=recs[:i] + [r[:j] + [simple] + r[j + 1:]] + recs[i + 1:])
        if spec.get("quoting"):
            yield dict(spec, quoting=0)
        if spec.get("lt", "\r\n") != "\n":
            yield dict(spec, lt="\n")
    if spec["src"] != "sio":
        yield dict(spec, src="sio")
    if spec["src"] == "path_latin1":
        yield dict(spec, src="path")
    if spec["delim"] != ",":
        yield dict(spec, delim=",")


def snippet(spec):
    text = _text(spec)
    kw = f", delimiter={spec['delim']!r}" if spec["delim"] != "," else ""
    if not spec["hh"]:
        kw += ", has_header=False"
    if spec.get("defaults") and spec["delim"] == "," and spec["hh"]:
        kw = ""
    if spec["src"] in ("file_default", "textwrap"):
        arg = ("open('in.csv', encoding='utf-8')" if spec["src"] == "file_default"
               else f"io.TextIOWrapper(io.BytesIO({text!r}.encode('utf-8')), encoding='utf-8', newline='')")
        return ("import io, csv\nfrom serif import read_csv\n"
                + f"open('in.csv', 'w', encoding='utf-8', newline='').write({text!r})\n"
                + f"t = read_csv({arg}{kw})\n"
                + "print(t.column_names(), len(t), [list(c) for c in t.cols()], [c.schema() for c in t.cols()])\n"
                + f"print(list(csv.reader({arg}{kw.split(', has_header')[0]})))   # the same source through the csv module")
    if spec["src"] in ("sio", "sio_default"):
        arg = f"io.StringIO({text!r}, newline='')" if spec["src"] == "sio" else f"io.StringIO({text!r})"
        pre = ""
    else:
        enc = "latin-1" if spec["src"] == "path_latin1" else "utf-8"
        pre = f"open('in.csv', 'w', encoding={enc!r}, newline='').write({text!r})\n"
        arg = "'in.csv'" if spec["src"] != "file" else f"open('in.csv', encoding={enc!r}, newline='')"
        if spec["src"] == "path_latin1":
            kw += ", encoding='latin-1'"
    return ("import io, csv\nfrom serif import read_csv\n" + pre +
            f"t = read_csv({arg}{kw})\n"
            "print(t.column_names(), len(t), [list(c) for c in t.cols()], [c.schema() for c in t.cols()])\n"
            f"print(list(csv.reader(io.StringIO({text!r}, newline=''){kw.split(', has_header')[0].split(', encoding')[0]})))")


KNOWN = {}

LEVEL_TEXT = ("Proof (lexical layer, Serif.CsvLex): for every delimiter other than the quote and CR/LF, every list of records, every field text "
              "(delimiters, quotes, CR, LF included) and every admissible choice of quoted/bare fields, reading the written text back "
              "line by line or as a character stream yields exactly the records (lexer_roundtrip, lexer_roundtrip_lines, "
              "lexer_roundtrip_universal, lexer_roundtrip_any_policy (any way of cutting lines that respects LF and CR LF), "
              "lexer_lines_eq_stream, quoted_field_verbatim, blank_line_is_empty_record, read_written_records). "
              "Proof (about the pipeline after csv.reader, for every list of records of every shape, every cell-text type and every "
              "instantiation of Python's strip/int()/float()): one column per header cell, names verbatim with repeats kept, "
              "col_0.. names from the first record's width when header-less, every column has one entry per data record and the "
              "table has one row per data record whenever it has a column, cell (r,c) = classification of the c-th text of record r "
              "if present else None (short records padded, cells beyond the header width dropped), the classification order "
              "blank/int/float/text, column dtype = the C04 inference rule on the cells, header-only and empty input give empty "
              "tables. Sampled (differential, judged by the compiled Lean model): that read_csv is this pipeline — csv.reader's "
              "records on the same text are fed to the model and compared with column_names(), len(), cells and schema() for "
              "exhaustive small shapes, a pool of numeric look-alikes/blank/quoted/unicode cells, four delimiters, path, "
              "file-object and StringIO inputs, and all raw strings over a 7-character alphabet.")
LEVEL_NOTE = ("Trusted: Lean kernel; axioms propext/Classical.choice/Quot.sound only; the harness (interning of values by (type, repr), "
              "csv.writer to build texts); the file object's line splitting and Python's strip/int/float as per-cell oracle (parameters of "
              "the model); csv.reader itself is modelled (Serif.CsvLex) and compared with the real csv.reader on every case. Zero-column inputs are outside the one-row-per-record claim. The theorems are about the Lean model; the tie "
              "to csv.py is the differential run.")
