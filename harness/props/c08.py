"""C08 — in-place assignment = list assignment, promote or reject, atomic (Vector, Table, rename_columns)."""
import itertools, datetime, copy
from collections.abc import Iterable
from values import err_class, POOL
from extract_consts import kind_codes

PID = "C08"
RULE = ("vec: Vector.__setitem__ on columns of 13 content types (int, float, bool, str, complex, date, datetime, nullable, mixed "
        "object, int holding bool, float holding int, int holding 10**400, empty without dtype) and lengths 0..4; every int key "
        "-n-1..n (and True), slices over start/stop in {None,-n-1..n+1} x step in {None,1,2,3,-1,-2,0} (sampled in quick, all in "
        "thorough for n<=3), every bool list / bool Vector mask of length n and n+-1, int lists / tuples / int Vectors to "
        "length 2 (3 in thorough) incl. duplicates, negatives and out-of-range, ten wrong key types; values: a scalar of every "
        "type, list / tuple / Vector / generator / range / object with __len__ whose iteration raises after k items (every k) "
        "or whose __len__ raises, of the right length and one off, uniform or with one later element of another type; a few "
        "with storage shared with a second vector. table: 1-3 columns x 1-3 rows, cell / row / column / region keys, names in "
        "either case, negative and out-of-range column indices, scalar / list / tuple / nested / Table / generator / raising "
        "values, faults placed in the first addressed column (later-column faults only in family table.partial). rename: all "
        "old/new lists to length 2 over present, duplicate, missing and None names, unequal lengths, raising name lists. "
        "states (gen_states): table assignment addressed by name on tables that reached their present column names only after being "
        "built and used (dir / getitem / setitem) under other names - through live column views, rename_column(s), including permuted "
        "names - with present, former and case-variant names as keys; long columns (40, 300; thorough to 1001) written through "
        "whole-column keys with a fault in the last value only; zero-row, 5-row and 40-row tables; (named) bool / int Vectors that "
        "are not own columns as table row keys, incl. all-False and over-long masks. "
        "(list, schema, name, fingerprint) are captured before and after each attempt. non-trivial = the attempt changed "
        "the object, or failed for a reason other than a wrong key type")
ASSUMPTIONS = [
    "elements are instances of exactly the listed classes; values are opaque (type tag + identity) to the model",
    "the conversions done by _promote (float(x), complex(x), datetime.combine) are an oracle computed by Python",
    "table cases use distinct lower-case identifier column names, so the accessor map is the identity on them (C17 covers the map)",
    "a value object whose __len__ disagrees with its iteration, or whose second iteration raises, is not generated",
    "slice.indices / range are CPython's (modelled by their closed forms, exercised but not proved)",
]
BUDGET_S = {"quick": 30, "thorough": 420}

D, DT = datetime.date, datetime.datetime

LPOOL = {k: list(v) for k, v in POOL.items()}
LPOOL[2] = [7, 0, -3, 10 ** 20, 10 ** 400]
LPOOL[3] = [1.5, 0.0, -2.25, float("inf"), -0.0]
# scalars that are iterable and have a length (appended, so that the existing (code, variant) pairs keep their meaning): written as
# ONE value whatever their length; 16 = bytearray
LPOOL[5] = LPOOL[5] + ["ab"]
LPOOL[6] = LPOOL[6] + [b"ab"]
LPOOL[16] = [bytearray(b"ab"), bytearray(b"a"), bytearray()]


def val(cv):
    code, var = cv
    p = LPOOL[code]
    x = p[var % len(p)]
    if isinstance(x, (list, dict)):
        return copy.copy(x)
    return x


# ---------------------------------------------------------------------------------------------
# wire encoding
# ---------------------------------------------------------------------------------------------

class Ctx:
    """per-case interning: scalar identities, class codes, names"""

    SIMPLE = (bool, int, float, complex, str, bytes, datetime.date, datetime.datetime)

    def __init__(self):
        self.uids = {}
        self.classes = {}
        self.names = {}
        self.keep = []     # keeps interned objects alive so that ids stay unique

    def uid(self, v):
        """identity of the exact value: (type, repr) for plain scalars, object identity otherwise"""
        if v is None:
            return 0
        if type(v) in self.SIMPLE:
            k = (type(v).__name__, repr(v))
        else:
            k = ("obj", id(v))
            self.keep.append(v)
        u = self.uids.get(k)
        if u is None:
            u = len(self.uids) + 1
            self.uids[k] = u
        return u

    def tag(self, v):
        if v is None:
            return 0
        return self.kind(type(v))

    def kind(self, k):
        kc = kind_codes()
        if k in kc:
            return kc[k]
        if k not in self.classes:
            self.classes[k] = 16 + len(self.classes)
        return self.classes[k]

    def cell(self, v):
        return [self.tag(v), self.uid(v)]

    def dtype(self, dt):
        if dt is None:
            return None
        return [self.kind(dt.kind), bool(dt.nullable)]

    def name(self, s):
        if s is None:
            return None
        if s not in self.names:
            self.names[s] = len(self.names) + 1
        return self.names[s]

    def vstate(self, v):
        elems = list(v)
        # is the memoised fingerprint the fingerprint of the present contents?  (recomputed read-only; if the
        # private helper disappears, fall back to the fingerprint of a fresh copy)
        try:
            full = getattr(type(v), "_compute_fingerprint_full", None)
            fresh = full(v) if full is not None else v.copy().fingerprint()
            stale = v.fingerprint() != fresh
        except Exception:
            stale = True
        return {"data": [self.cell(x) for x in elems], "dtype": self.dtype(v.schema()), "name": self.name(v.name),
                "stale": bool(stale)}

    def conv(self, elems):
        """conversion oracle for _promote / validate_scalar: [target kind code, uid, uid' | None], closed under
        repeated conversion (a column written twice by one table assignment can be promoted twice)"""
        rows, seen = [], set()
        work = [x for x in elems if x is not None]
        while work:
            x = work.pop()
            u = self.uid(x)
            if u in seen:
                continue
            seen.add(u)
            for code, f in ((2, int), (3, float), (4, complex),
                            (8, lambda d: DT.combine(d, DT.min.time()))):
                try:
                    r = f(x)
                except Exception:
                    rows.append([code, u, None])
                    continue
                rows.append([code, u, self.cell(r)[1]])
                if type(r) in self.SIMPLE:
                    work.append(r)
        return rows


def is_seq_val(value):
    return isinstance(value, Iterable) and not isinstance(value, (str, bytes, bytearray))


class Boom(RuntimeError):
    pass


class Raiser:
    """re-iterable with a truthful __len__ whose iteration raises instead of delivering item k"""

    def __init__(self, items, k, len_raises=False):
        self.items, self.k, self.len_raises = list(items), k, len_raises

    def __len__(self):
        if self.len_raises:
            raise Boom("len")
        return len(self.items)

    def __iter__(self):
        for i, x in enumerate(self.items):
            if i == self.k:
                raise Boom("iter")
            yield x
        if self.k is not None and self.k >= len(self.items):
            raise Boom("iter-end")


def build_value(vs):
    """spec -> (python object, items it would deliver (or None for a scalar), len behaviour, raise position)"""
    from serif import Vector
    f = vs["v"]
    if f == "scalar":
        x = val(vs["x"])
        if is_seq_val(x):
            return x, list(x), "ok", None
        return x, None, None, None
    if f == "range":
        r = range(vs["n"])
        return r, list(r), "ok", None
    xs = [val(c) for c in vs["xs"]]
    if f == "list":
        return list(xs), xs, "ok", None
    if f == "tuple":
        return tuple(xs), xs, "ok", None
    if f == "vector":
        return Vector(xs), xs, "ok", None
    if f == "gen":
        return (x for x in xs), xs, "missing", None
    if f == "raiser":
        return Raiser(xs, vs.get("ra"), vs.get("len") == "raises"), xs, vs.get("len", "ok"), vs.get("ra")
    raise ValueError(f)


def wire_value(ctx, obj, items, lenb, ra):
    if items is None:
        return {"v": "scalar", "c": ctx.cell(obj)}
    return {"v": "seq", "self": ctx.cell(obj), "items": [ctx.cell(x) for x in items], "len": lenb, "ra": ra}


def build_key(ks, n):
    """spec -> (python key, wire key)"""
    from serif import Vector
    from serif.typing import DataType
    k = ks["k"]
    if k == "int":
        return (bool(ks["i"]) if ks.get("bool") else ks["i"]), {"k": "int", "i": ks["i"]}
    if k == "slice":
        return slice(ks["a"], ks["b"], ks["c"]), {"k": "slice", "a": ks["a"], "b": ks["b"], "c": ks["c"]}
    if k == "maskList":
        return list(ks["bs"]), {"k": "maskList", "bs": ks["bs"]}
    if k == "maskVec":
        if not ks["bs"]:
            return Vector([], dtype=DataType(bool)), {"k": "maskVec", "bs": []}
        return Vector(list(ks["bs"]), name=ks.get("name")), {"k": "maskVec", "bs": ks["bs"]}
    if k == "idxList":
        py = tuple(ks["is"]) if ks.get("tuple") else list(ks["is"])
        if not ks["is"] and not ks.get("tuple"):
            return py, {"k": "maskList", "bs": []}          # `[]` is classified as an (empty) mask by the all-bool test
        return py, {"k": "idxList", "is": ks["is"]}
    if k == "idxVec":
        if not ks["is"]:
            return Vector([], dtype=DataType(int)), {"k": "idxVec", "is": []}
        return Vector(list(ks["is"]), name=ks.get("name")), {"k": "idxVec", "is": ks["is"]}
    if k == "bad":
        w = ks["what"]
        py = {"str": "a", "float": 1.0, "none": None, "liststr": ["a"], "listmixed": [0, "a"], "listnone": [0, None],
              "nullintvec": Vector([0, None]), "floatvec": Vector([0.0]), "strvec": Vector(["a"]), "emptyvec": Vector([]),
              "range": range(1), "slicestr": slice("a", None), "slicefloat": slice(None, 1.5), "dict": {0: 1},
              "nullboolvec": Vector([True, None])}[w]
        return py, {"k": "bad"}
    raise ValueError(k)


# ---------------------------------------------------------------------------------------------
# columns
# ---------------------------------------------------------------------------------------------

COLTYPES = {
    "int": [[2, 0], [2, 1], [2, 2], [2, 3]],
    "float": [[3, 0], [3, 1], [3, 2], [3, 3]],
    "bool": [[1, 0], [1, 1], [1, 0], [1, 1]],
    "str": [[5, 0], [5, 1], [5, 2], [5, 0]],
    "complex": [[4, 0], [4, 1], [4, 0], [4, 1]],
    "date": [[7, 0], [7, 1], [7, 0], [7, 1]],
    "datetime": [[8, 0], [8, 1], [8, 0], [8, 1]],
    "int?": [[2, 0], [0, 0], [2, 2], [0, 0]],
    "float?": [[0, 0], [3, 0], [3, 2], [0, 0]],
    "obj": [[2, 0], [5, 0], [3, 0], [0, 0]],
    "intbool": [[2, 0], [1, 0], [2, 2], [1, 1]],
    "floatint": [[3, 0], [2, 0], [3, 2], [2, 2]],
    "intbig": [[2, 4], [2, 0], [2, 2], [2, 4]],
}
MAIN = ["int", "float", "bool", "str", "date"]
VALTYPES = [[0, 0], [1, 0], [2, 0], [3, 0], [4, 0], [5, 0], [7, 0], [8, 0], [13, 0], [9, 0], [2, 4], [6, 0]]
# second values of the same types, so that written values differ from those present
VAL2 = {0: [0, 0], 1: [1, 1], 2: [2, 2], 3: [3, 2], 4: [4, 1], 5: [5, 2], 7: [7, 1], 8: [8, 1], 13: [13, 0], 9: [9, 1], 6: [6, 1]}


def build_vector(cs):
    from serif import Vector
    from serif.typing import DataType
    vals = [val(c) for c in cs["vals"]]
    kw = {}
    if cs.get("name") is not None:
        kw["name"] = cs["name"]
    mode = cs.get("dtype", "infer")
    if mode == "object":
        kw["dtype"] = DataType(object, nullable=any(x is None for x in vals))
    elif mode == "nullable" and vals:
        from serif.typing import infer_dtype
        kw["dtype"] = infer_dtype(vals).with_nullable(True)
    if cs.get("shared"):
        tup = tuple(vals)
        return Vector(tup, **kw), Vector(tup, **kw)
    return Vector(vals, **kw), None


# ---------------------------------------------------------------------------------------------
# generation
# ---------------------------------------------------------------------------------------------

def int_keys(n):
    for i in range(-n - 1, n + 1):
        yield {"k": "int", "i": i}
    yield {"k": "int", "i": 1, "bool": True}


def slice_keys(n, full):
    pts = [None] + list(range(-n - 1, n + 2))
    steps = [None, 1, 2, 3, -1, -2, 0]
    if not full:
        pts = [None, -n - 1, -1, 0, 1, n, n + 1] if n else [None, -1, 0, 1]
        pts = list(dict.fromkeys(pts))
    for a in pts:
        for b in pts:
            for c in steps:
                yield {"k": "slice", "a": a, "b": b, "c": c}


def mask_keys(n):
    for form in ("maskList", "maskVec"):
        for m in sorted({n, max(0, n - 1), n + 1}):
            for bs in itertools.product([True, False], repeat=m):
                if m != n and sum(bs) not in (0, m) and m > 2:
                    continue
                yield {"k": form, "bs": list(bs)}


def idx_keys(n, maxlen):
    dom = list(range(-n - 1, n + 1))
    for L in range(0, maxlen + 1):
        for t in itertools.product(dom, repeat=L):
            if L == 3 and len(set(t)) == 3 and t[0] > t[1]:
                continue
            for form in ({"k": "idxList"}, {"k": "idxList", "tuple": True}, {"k": "idxVec"}):
                yield dict(form, **{"is": list(t)})


BAD_KEYS = ["str", "float", "none", "liststr", "listmixed", "listnone", "nullintvec", "floatvec", "strvec", "emptyvec",
            "range", "slicestr", "slicefloat", "dict", "nullboolvec"]


def target_count(ks, n):
    """how many positions a (valid) key addresses — only used to pick interesting value lengths"""
    k = ks["k"]
    if k == "int":
        return 1
    if k == "slice":
        try:
            return len(range(*slice(ks["a"], ks["b"], ks["c"]).indices(n)))
        except Exception:
            return 0
    if k in ("maskList", "maskVec"):
        return sum(ks["bs"])
    if k in ("idxList", "idxVec"):
        return len(ks["is"])
    return 1


def seq_values(m, coltype, rng, count):
    """`count` sequence-valued right-hand sides around length m"""
    base = COLTYPES[coltype][0]
    out = []
    for _ in range(count):
        L = rng.choice([m, m, m, m, m + 1, max(0, m - 1)])
        form = rng.choice(["list", "list", "tuple", "vector", "gen", "raiser", "raiser", "range"])
        if form == "range":
            out.append({"v": "range", "n": L})
            continue
        pat = rng.random()
        if pat < 0.35:
            t = rng.choice(VALTYPES)
            xs = [VAL2.get(t[0], t) if i % 2 else t for i in range(L)]
        elif pat < 0.75:
            # one element of another type, preferably a later one
            t = VAL2.get(base[0], base)
            xs = [t for _ in range(L)]
            if L:
                xs[rng.choice([L - 1, L - 1, rng.randrange(L)])] = rng.choice(VALTYPES)
        else:
            xs = [rng.choice(VALTYPES) for _ in range(L)]
        if form == "vector" and any(c[0] in (9, 10, 11) for c in xs):
            form = "list"
        vs = {"v": form, "xs": xs}
        if form == "raiser":
            r = rng.random()
            if r < 0.15:
                vs["len"] = "raises"; vs["ra"] = None
            else:
                vs["len"] = "ok"; vs["ra"] = rng.randrange(L + 1)
        out.append(vs)
    return out


def all_raisers(m, coltype):
    base = VAL2.get(COLTYPES[coltype][0][0], COLTYPES[coltype][0])
    for k in range(m + 1):
        yield {"v": "raiser", "xs": [base] * m, "len": "ok", "ra": k}
    yield {"v": "raiser", "xs": [base] * m, "len": "raises", "ra": None}
    yield {"v": "gen", "xs": [base] * m}


def gen_vec(rng, tier):
    full = tier == "thorough"
    nmax_exh = 3 if full else 2
    for n in range(0, 5):
        ctypes = list(COLTYPES) if n else ["int"]
        for ct in ctypes:
            cols = [{"vals": COLTYPES[ct][:n], "name": "x" if n % 2 else None}]
            if n == 0:
                cols = [{"vals": [], "name": None}, {"vals": [], "name": "e", "dtype": "object"}]
            elif ct in ("int", "float", "str"):
                cols.append({"vals": COLTYPES[ct][:n], "name": "x", "dtype": "nullable"})
                if ct == "int":
                    cols.append({"vals": COLTYPES[ct][:n], "name": None, "dtype": "object"})
            for col in cols:
                keys = list(int_keys(n))
                sk = list(slice_keys(n, full and n <= 3))
                if not (full and n <= 3) or ct not in MAIN:
                    sk = rng.sample(sk, min(len(sk), 40 if full else 12))
                keys += sk
                mk = list(mask_keys(n))
                keys += mk if (n <= nmax_exh or ct in MAIN) else rng.sample(mk, min(len(mk), 8))
                ik = list(idx_keys(n, 3 if (full and n <= 2) else 2))
                if n > nmax_exh or ct not in MAIN:
                    ik = rng.sample(ik, min(len(ik), 60 if full else 20))
                elif not full:
                    ik = rng.sample(ik, min(len(ik), 90))
                keys += ik
                keys += [{"k": "bad", "what": w} for w in (BAD_KEYS if ct == "int" else rng.sample(BAD_KEYS, 2))]
                for ks in keys:
                    m = target_count(ks, n)
                    scal = VALTYPES if (ks["k"] == "int" or ct in MAIN) else rng.sample(VALTYPES, 4)
                    if ks["k"] == "bad":
                        scal = [[2, 0]]
                    for x in scal:
                        yield {"fam": "vec", "col": col, "key": ks, "value": {"v": "scalar", "x": x}}
                    if ks["k"] == "bad":
                        continue
                    nseq = (6 if full else 4) if ct in MAIN else (3 if full else 2)
                    for vs in seq_values(m, ct, rng, nseq):
                        yield {"fam": "vec", "col": col, "key": ks, "value": vs}
                    if ct in ("int", "str") and (full or rng.random() < 0.3):
                        for vs in all_raisers(m, ct):
                            yield {"fam": "vec", "col": col, "key": ks, "value": vs}
    # every ORDERED pair of value types written in one assignment (the dtype fold sees them in this order: a None before or after
    # the promoting value, two different promotions, a compatible value before an incompatible one …), through each key form
    for ct in COLTYPES:
        for n in (2, 3):
            base = {"vals": COLTYPES[ct][:n], "name": "x"}
            cols = [base] + ([dict(base, dtype="nullable")] if ct in ("int", "float", "str") else [])
            for col in cols:
                for ks in ({"k": "slice", "a": 0, "b": 2, "c": None}, {"k": "maskList", "bs": [True, True] + [False] * (n - 2)},
                           {"k": "idxList", "is": [0, 1]}, {"k": "slice", "a": None, "b": None, "c": -1} if n == 2 else {"k": "idxVec", "is": [2, 0]}):
                    for x in VALTYPES:
                        for y in VALTYPES:
                            yield {"fam": "vec", "col": col, "key": ks, "value": {"v": "list", "xs": [x, y]}}
    # storage shared with a second live vector
    for n in range(0, 4):
        for ks in list(int_keys(n)) + [{"k": "slice", "a": None, "b": None, "c": None}, {"k": "maskList", "bs": [True] * n}]:
            for x in ([2, 2], [5, 0]):
                yield {"fam": "vec.shared", "col": {"vals": COLTYPES["int"][:n], "name": "x", "shared": True}, "key": ks,
                       "value": {"v": "scalar", "x": x}}
    # random larger cases
    for it_ in range(60000 if full else 3000):
        n = rng.randint(0, 7) if it_ % 40 else rng.choice([32, 33, 64, 130, 257, 300])     # now and then a long column
        ct = rng.choice(list(COLTYPES))
        vals = [rng.choice(COLTYPES[ct]) for _ in range(n)]
        col = {"vals": vals, "name": rng.choice([None, "x"]), "dtype": rng.choice(["infer", "infer", "infer", "nullable", "object"])}
        kf = rng.choice(["int", "slice", "slice", "mask", "mask", "idx", "idx"])
        if kf == "int":
            ks = {"k": "int", "i": rng.randint(-n - 1, n)}
        elif kf == "slice":
            ks = {"k": "slice", "a": rng.choice([None] + list(range(-n - 2, n + 3))),
                  "b": rng.choice([None] + list(range(-n - 2, n + 3))), "c": rng.choice([None, 1, 2, 3, -1, -2, -3, 0, 5, -5])}
        elif kf == "mask":
            L = n if rng.random() < 0.9 else rng.choice([max(0, n - 1), n + 1])
            ks = {"k": rng.choice(["maskList", "maskVec"]), "bs": [rng.random() < 0.5 for _ in range(L)]}
        else:
            L = rng.randint(0, 5)
            hi = n if rng.random() < 0.15 else n - 1
            ks = {"k": rng.choice(["idxList", "idxVec"]), "is": [rng.randint(-n, max(hi, -n)) if n else 0 for _ in range(L)],
                  "tuple": rng.random() < 0.3}
        m = target_count(ks, n)
        if rng.random() < 0.35:
            yield {"fam": "vec.random", "col": col, "key": ks, "value": {"v": "scalar", "x": rng.choice(VALTYPES)}}
        else:
            yield {"fam": "vec.random", "col": col, "key": ks, "value": seq_values(m, ct, rng, 1)[0]}


# ---- tables ---------------------------------------------------------------------------------

TNAMES = ["a", "b", "c"]


def eff_kind(ct, nr):
    """kind code a column built from the first nr values of content type ct is inferred as (12 = object)"""
    codes = {c[0] for c in COLTYPES[ct][:nr] if c[0] != 0}
    if not codes:
        return 12
    if len(codes) == 1:
        return codes.pop()
    if codes <= {1, 2, 3, 4}:
        return max(codes)
    return 12


def compat(ct, x, nr=4):
    """would a column of content type ct accept the scalar spec x (steers faults away from later columns)"""
    kind = eff_kind(ct, nr)
    if kind == 12 or x[0] == 0:
        return True
    if x == [2, 4]:
        return kind in (2,)
    ok = {1: {1}, 2: {1, 2, 3, 4}, 3: {1, 2, 3, 4}, 4: {1, 2, 3, 4}, 5: {5}, 7: {7, 8}, 8: {7, 8}}
    return x[0] in ok.get(kind, set())


def table_rowkeys(nr, rng, full):
    ks = [{"k": "int", "i": i} for i in range(-nr - 1, nr + 1)]
    ks += [{"k": "slice", "a": a, "b": b, "c": c} for a in (None, 0, 1) for b in (None, nr, 1, -1) for c in (None, 2, -1)]
    ks += [{"k": "maskList", "bs": list(bs)} for bs in itertools.product([True, False], repeat=nr)]
    ks += [{"k": "idxList", "is": list(t)} for t in itertools.product(range(-nr, nr), repeat=2)][: (20 if full else 6)]
    ks += [{"k": "bad", "what": "str"}, {"k": "slice", "a": None, "b": None, "c": 0}]
    return ks


def table_colspecs(nc, rng):
    cs = [{"c": "none"}]
    cs += [{"c": "int", "i": i} for i in range(-nc - 1, nc + 1)]
    cs += [{"c": "name", "s": s} for s in TNAMES[:nc]] + [{"c": "name", "s": "A"}, {"c": "name", "s": "zz"}]
    cs += [{"c": "slice", "a": a, "b": b, "c3": c} for a in (None, 0, 1) for b in (None, 1, nc) for c in (None, -1, 2)]
    cs += [{"c": "list", "items": list(t), "tuple": tup} for L in (1, 2) for t in itertools.product(TNAMES[:nc] + [0, -1], repeat=L)
           for tup in (False, True)]
    cs += [{"c": "list", "items": ["zz"], "tuple": False}, {"c": "list", "items": [1.5, "a"], "tuple": False},
           {"c": "list", "items": [], "tuple": False}, {"c": "list", "items": [nc], "tuple": False}, {"c": "bad"},
           {"c": "slice", "a": None, "b": None, "c3": 0}]
    return cs


def resolve_guess(cs, nc):
    """column positions a column spec addresses (generator-side guess, only to shape values)"""
    c = cs["c"]
    if c == "none":
        return list(range(nc))
    if c == "int":
        return [cs["i"] % nc] if -nc <= cs["i"] < nc else [0]
    if c == "name":
        s = cs["s"].lower()
        return [TNAMES.index(s)] if s in TNAMES[:nc] else [0]
    if c == "slice":
        try:
            return list(range(nc)[slice(cs["a"], cs["b"], cs["c3"])])
        except Exception:
            return [0]
    if c == "list":
        out = []
        for it in cs["items"]:
            if isinstance(it, str) and it in TNAMES[:nc]:
                out.append(TNAMES.index(it))
            elif isinstance(it, int) and -nc <= it < nc:
                out.append(it % nc)
        return out
    return [0]


def gen_owncols(rng, tier):
    """the right-hand side of a table assignment made of the table's own live columns (permuted, repeated) or the table itself"""
    import itertools as _it
    for lay in (["int", "int"], ["int", "int", "int"], ["int", "float"], ["str", "str"], ["int", "str"]):
        nc = len(lay)
        for nr in (1, 2, 3):
            # every column holds other values than its neighbours (a swap must show)
            cols = [{"name": TNAMES[j], "vals": (COLTYPES[ct] * 3)[j:j + nr], "ct": ct} for j, ct in enumerate(lay)]
            for rk in ({"k": "slice", "a": None, "b": None, "c": None}, {"k": "slice", "a": None, "b": None, "c": -1},
                       {"k": "maskList", "bs": [True] * nr}):
                for perm in _it.permutations(range(nc)):
                    for colnames in (True, False):
                        items = [TNAMES[j] for j in range(nc)] if colnames else list(range(nc))
                        yield {"fam": "table", "cols": cols, "nr": nr, "key": {"row": rk, "col": {"c": "list", "items": items, "tuple": False}},
                               "value": {"v": "owncols", "perm": list(perm), "tuple": perm[0] % 2 == 1}}
                        yield {"fam": "table", "cols": cols, "nr": nr,
                               "key": {"row": rk, "col": {"c": "list", "items": [items[j] for j in perm], "tuple": False}},
                               "value": {"v": "ownself"}}
                yield {"fam": "table", "cols": cols, "nr": nr, "key": {"row": rk, "col": {"c": "none"}},
                       "value": {"v": "owncols", "perm": list(range(nc))[::-1]}}


def gen_table(rng, tier):
    full = tier == "thorough"
    yield from gen_owncols(rng, tier)
    layouts = [["int"], ["int", "str"], ["str", "int"], ["int", "float", "str"], ["float", "int"], ["int?", "bool"],
               ["date", "int"], ["obj", "int"], ["int", "int", "int"], ["bool", "float"]]
    reps = 3 if full else 1
    for lay in layouts:
        nc = len(lay)
        for nr in (1, 2, 3):
            cols = [{"name": TNAMES[j], "vals": COLTYPES[ct][:nr], "ct": ct} for j, ct in enumerate(lay)]
            rks = table_rowkeys(nr, rng, full)
            css = table_colspecs(nc, rng)
            for _ in range(reps):
                for cs in (css if full else rng.sample(css, min(len(css), 30))):
                    for rk in (rng.sample(rks, min(len(rks), 12)) if full else rng.sample(rks, min(len(rks), 6))):
                        tg = resolve_guess(cs, nc)
                        m = target_count(rk, nr)
                        for tv, partial in table_values(rng, lay, tg, rk, m, full, nr):
                            yield {"fam": "table.partial" if partial else "table", "cols": cols, "nr": nr,
                                   "key": {"row": rk, "col": cs}, "value": tv}
    yield {"fam": "table", "cols": [{"name": "a", "vals": [[2, 0]], "ct": "int"}], "nr": 1, "key": {"bad": 3},
           "value": {"v": "scalar", "x": [2, 0]}}
    # the row key is a live column of the table itself (defect repaired in /repo: the half-written key was reused)
    T_, F_ = [1, 0], [1, 1]
    mcols = [{"name": "m", "vals": [T_, F_, T_], "ct": "bool"}, {"name": "x", "vals": [T_, T_, T_], "ct": "bool"},
             {"name": "y", "vals": [[2, 0], [2, 2], [2, 0]], "ct": "int"}]
    icols = [{"name": "i", "vals": [[2, 1], [2, 1], [2, 1]], "ct": "int"}, {"name": "x", "vals": [[2, 0], [2, 2], [2, 0]], "ct": "int"}]
    for cols, j in ((mcols, 0), (mcols[:2], 0), (mcols[:2][::-1], 1), (icols, 0), (icols[::-1], 1)):
        names = [c["name"] for c in cols]
        for colspec in ({"c": "none"}, {"c": "list", "items": names}, {"c": "list", "items": names[::-1]}, {"c": "slice", "a": None, "b": None, "c3": None}):
            for x in ([1, 1], [2, 1], [2, 2]):
                yield {"fam": "table", "cols": cols, "nr": 3, "key": {"row": {"k": "selfcol", "j": j}, "col": colspec},
                       "value": {"v": "scalar", "x": x}}
    # the defect repaired in ff19998 (a later column refuses after an earlier one was written), three canonical shapes
    # (always present)
    two = [{"name": "a", "vals": [[2, 0], [2, 1]], "ct": "int"}, {"name": "b", "vals": [[5, 0], [5, 1]], "ct": "str"}]
    yield {"fam": "table.partial", "cols": two, "nr": 2, "key": {"row": {"k": "int", "i": 0}, "col": {"c": "none"}},
           "value": {"v": "list", "items": [{"x": [2, 2]}, {"x": [2, 2]}]}}
    yield {"fam": "table.partial", "cols": two, "nr": 2, "key": {"row": {"k": "slice", "a": None, "b": None, "c": None},
                                                                "col": {"c": "none"}},
           "value": {"v": "scalar", "x": [2, 2]}}
    yield {"fam": "table.partial", "cols": two, "nr": 2, "key": {"row": {"k": "slice", "a": None, "b": None, "c": None},
                                                                "col": {"c": "list", "items": [0, 5], "tuple": False}},
           "value": {"v": "list", "items": [{"l": [[2, 2], [2, 2]], "t": "list"}, {"l": [[2, 2], [2, 2]], "t": "list"}]}}
    # the same three shapes where the earlier column receives a value that is EQUAL to what it holds but of another exact type
    # (0 -> 0.0 -> 0j, False -> 0, 0.0 -> -0.0, 0 -> False): a roll-back that compares storage by value instead of identity
    # keeps the new storage under the old dtype
    for ct, old, new_ in (("int", [2, 1], [3, 1]), ("int", [2, 1], [4, 1]), ("float", [3, 1], [4, 1]), ("bool", [1, 1], [2, 1]),
                          ("bool", [1, 1], [3, 1]), ("float", [3, 1], [3, 4]), ("int", [2, 1], [1, 1]), ("complex", [4, 1], [3, 1])):
        eq = [{"name": "a", "vals": [old, old], "ct": ct}, {"name": "b", "vals": [[5, 0], [5, 1]], "ct": "str"}]
        yield {"fam": "table.partial", "cols": eq, "nr": 2, "key": {"row": {"k": "int", "i": 0}, "col": {"c": "none"}},
               "value": {"v": "list", "items": [{"x": new_}, {"x": [2, 2]}]}}
        yield {"fam": "table.partial", "cols": eq, "nr": 2, "key": {"row": {"k": "slice", "a": None, "b": None, "c": None},
                                                                   "col": {"c": "none"}},
               "value": {"v": "scalar", "x": new_}}
        yield {"fam": "table.partial", "cols": eq, "nr": 2, "key": {"row": {"k": "slice", "a": None, "b": None, "c": None},
                                                                   "col": {"c": "list", "items": [0, 5], "tuple": False}},
               "value": {"v": "list", "items": [{"l": [new_, new_], "t": "list"}, {"l": [[2, 2], [2, 2]], "t": "list"}]}}


_partial_budget = [0]


def table_values(rng, lay, tg, rk, m, full, nr):
    """right-hand sides for a table assignment; second component: a later column is the one that refuses"""
    out = []
    first = lay[tg[0]] if tg else lay[0]
    # scalars
    for x in rng.sample(VALTYPES, 4):
        bad_later = any(not compat(lay[j], x, nr) for j in tg[1:]) and (not tg or compat(first, x, nr))
        out.append(({"v": "scalar", "x": x}, bad_later))
    isint = rk["k"] == "int"
    L = len(tg)
    for _ in range(3):
        form = rng.choice(["list", "tuple", "gen", "raiser", "table"] if not isint else ["list", "tuple", "gen", "raiser"])
        LL = rng.choice([L, L, L, L + 1, max(0, L - 1)])
        items, bad_later = [], False
        for i in range(LL):
            ct = lay[tg[i]] if i < L else "int"
            base = VAL2.get(COLTYPES[ct][0][0], COLTYPES[ct][0]) if ct != "obj" else [5, 0]
            fault = rng.random() < 0.3
            if isint:
                x = rng.choice(VALTYPES) if fault else base
                if i >= 1 and not compat(ct, x, nr):
                    bad_later = True
                items.append({"x": x})
            else:
                ln = m if not fault or rng.random() < 0.5 else rng.choice([m + 1, max(0, m - 1)])
                xs = [base] * ln
                if fault and ln and rng.random() < 0.7:
                    xs[-1] = rng.choice(VALTYPES)
                if i >= 1 and (ln != m or any(not compat(ct, x, nr) for x in xs)):
                    bad_later = True
                if form == "table":
                    items.append({"l": xs, "t": "vector"})
                elif rng.random() < 0.15 and L > 1:
                    items.append({"x": base})
                else:
                    items.append({"l": xs, "t": rng.choice(["list", "tuple", "vector"])})
        if form == "table":
            if not items or len({len(it["l"]) for it in items}) != 1 or any(not it["l"] for it in items):
                continue
        tv = {"v": form, "items": items}
        if form == "raiser":
            tv["ra"] = rng.randrange(LL + 1)
        out.append((tv, bad_later))
    if L == 1 and not isint:
        ct = first
        base = VAL2.get(COLTYPES[ct][0][0], COLTYPES[ct][0]) if ct != "obj" else [5, 0]
        for ln in (m, m + 1):
            xs = [base] * ln
            out.append(({"v": "list", "items": [{"x": x} for x in xs]}, False))
            if ln:
                out.append(({"v": "tuple", "items": [{"x": x} for x in xs[:-1]] + [{"x": rng.choice(VALTYPES)}]}, False))
    res = []
    for tv, partial in out:
        if partial:
            # a fault in a later addressed column (the defect repaired in ff19998): its own family, thinned
            _partial_budget[0] += 1
            if _partial_budget[0] % (40 if full else 8) != 1:
                continue
        res.append((tv, partial))
    return res


# ---- states and sizes the streams above never produce ------------------------------------------

def gen_states(rng, tier):
    """(1) table assignment addressed BY NAME on a table that got its present column names only after it had been built (and used)
    under other names - renamed through live column views, rename_column(s) - so that whatever the table remembers about its names
    is stale: the present names address their columns, the former names address nothing; (2) long columns written through
    whole-column keys (full slice, explicit bounds, reversed, all-True / alternating masks, all positions) with a fault in the LAST
    value only; (3) zero-row tables and tables of 5 / 40 rows; row keys that are (named) bool / int Vectors, not own columns"""
    full = tier == "thorough"
    # (1)
    for lay in (["int", "str"], ["int", "int", "str"], ["float", "int"], ["str", "int?"]):
        nc = len(lay)
        cols = [{"name": TNAMES[j], "vals": COLTYPES[ct][:2], "ct": ct} for j, ct in enumerate(lay)]
        for pre_names in (["p", "q", "r"][:nc], TNAMES[:nc][::-1], TNAMES[1:nc] + TNAMES[:1], ["A", "b", "zz"][:nc]):
            for warm in (None, "dir", "getitem", "setitem"):
                pre = {"names": pre_names, "warm": warm, "route": rng.choice(["setter", "setter", "rename", "rename_columns", "rename_column"])}
                stale = [x for x in pre_names if x.lower() not in TNAMES[:nc]][:1]
                css = ([{"c": "name", "s": s_} for s_ in TNAMES[:nc] + ["A"] + stale]
                       + [{"c": "list", "items": [TNAMES[nc - 1], TNAMES[0]], "tuple": False}, {"c": "list", "items": ["a"] + (stale or ["zz"]), "tuple": True},
                          {"c": "none"}, {"c": "int", "i": 0}])
                for cs in css:
                    for rk in ({"k": "int", "i": 0}, {"k": "maskList", "bs": [False, True]} if warm == "dir" else {"k": "slice", "a": None, "b": None, "c": None}):
                        for x in ([2, 2], [5, 1], [0, 0]):
                            yield {"fam": "table.renamed", "cols": cols, "nr": 2, "pre": pre, "key": {"row": rk, "col": cs},
                                   "value": {"v": "scalar", "x": x}}
                        if cs["c"] == "list" and rk["k"] != "int":
                            m = target_count(rk, 2)
                            yield {"fam": "table.renamed", "cols": cols, "nr": 2, "pre": pre, "key": {"row": rk, "col": cs},
                                   "value": {"v": "list", "items": [{"l": [VAL2[COLTYPES[lay[nc - 1]][0][0]]] * m, "t": "list"}, {"l": [[2, 2]] * m, "t": "list"}]}}
    # (1b) scalars that are iterable (multi-character str, bytes, bytearray) whose length equals the number of addressed positions, or
    #      not: written as one value (or refused by the dtype), never spread over the positions
    for col in ({"vals": COLTYPES["obj"][:2], "name": "x"}, {"vals": COLTYPES["int"][:2], "name": None, "dtype": "object"},
                {"vals": COLTYPES["str"][:2], "name": "x"}, {"vals": COLTYPES["int"][:2], "name": "x"}, {"vals": COLTYPES["obj"][:1], "name": None, "dtype": "object"}):
        n = len(col["vals"])
        for ks in ([{"k": "int", "i": 0}, {"k": "slice", "a": None, "b": None, "c": None}, {"k": "slice", "a": 0, "b": 1, "c": None},
                    {"k": "maskList", "bs": [True] * n}, {"k": "maskVec", "bs": [True] * n}, {"k": "idxList", "is": list(range(n))},
                    {"k": "idxVec", "is": list(range(n))}, {"k": "slice", "a": 0, "b": 0, "c": None}]):
            for x in ([16, 0], [16, 1], [16, 2], [5, 3], [6, 2], [6, 0], [5, 0]):
                yield {"fam": "vec.iterscalar", "col": col, "key": ks, "value": {"v": "scalar", "x": x}}
                yield {"fam": "vec.iterscalar", "col": col, "key": ks, "value": {"v": "list", "xs": [x] * target_count(ks, n)}}
    for lay in (["obj", "obj"], ["str", "obj"]):
        cols = [{"name": TNAMES[j], "vals": COLTYPES[ct][:2], "ct": ct} for j, ct in enumerate(lay)]
        for rk in ({"k": "int", "i": 0}, {"k": "slice", "a": None, "b": None, "c": None}):
            for cs in ({"c": "none"}, {"c": "name", "s": "b"}, {"c": "slice", "a": None, "b": None, "c3": None}):
                for x in ([16, 0], [16, 1], [5, 3], [6, 2]):
                    yield {"fam": "table.iterscalar", "cols": cols, "nr": 2, "key": {"row": rk, "col": cs}, "value": {"v": "scalar", "x": x}}
    # (2)
    for ct in ("int", "str", "float", "int?", "date"):
        base = VAL2.get(COLTYPES[ct][0][0], COLTYPES[ct][0])
        for n in ((40, 300) if not full else (33, 64, 65, 130, 300, 1001)):
            col = {"vals": [COLTYPES[ct][i % 4] for i in range(n)], "name": "x"}
            keys = [{"k": "slice", "a": None, "b": None, "c": None}, {"k": "slice", "a": 0, "b": n, "c": None}, {"k": "slice", "a": None, "b": None, "c": -1},
                    {"k": "slice", "a": None, "b": None, "c": 2}, {"k": "slice", "a": 1, "b": 10 ** 9, "c": 1}, {"k": "maskList", "bs": [True] * n},
                    {"k": "maskVec", "bs": [i % 2 == 0 for i in range(n)], "name": "m"}, {"k": "idxList", "is": list(range(n))},
                    {"k": "idxVec", "is": list(range(-1, -n - 1, -1)), "name": "i"}, {"k": "idxList", "is": [n - 1, 0, n - 1], "tuple": True}]
            for ks in keys:
                m = target_count(ks, n)
                lasts = [base, [0, 0], [5, 0] if ct != "str" else [2, 0], [3, 0], [8, 0], [2, 4]]
                for last in lasts:
                    for form in ("list", "vector") if last in (base, [0, 0], [3, 0]) else ("list",):
                        yield {"fam": "vec.long", "col": col, "key": ks, "value": {"v": form, "xs": [base] * (m - 1) + [last]}}
                yield {"fam": "vec.long", "col": col, "key": ks, "value": {"v": "list", "xs": [base] * (m + 1)}}
                yield {"fam": "vec.long", "col": col, "key": ks, "value": {"v": "raiser", "xs": [base] * m, "len": "ok", "ra": m - 1}}
                yield {"fam": "vec.long", "col": col, "key": ks, "value": {"v": "gen", "xs": [base] * m}}
                for x in ([0, 0], [3, 0], [5, 0], base):
                    yield {"fam": "vec.long", "col": col, "key": ks, "value": {"v": "scalar", "x": x}}
    # (3)
    for lay in (["int", "str"], ["int"], ["float", "int", "str"]):
        nc = len(lay)
        for nr in (0, 5, 40):
            cols = [{"name": TNAMES[j], "vals": [COLTYPES[ct][i % 4] for i in range(nr)], "ct": ct} for j, ct in enumerate(lay)]
            rks = [{"k": "int", "i": 0}, {"k": "int", "i": -1}, {"k": "slice", "a": None, "b": None, "c": None}, {"k": "slice", "a": 1, "b": None, "c": 2},
                   {"k": "maskList", "bs": [i % 3 == 0 for i in range(nr)]}, {"k": "maskVec", "bs": [i % 2 == 1 for i in range(nr)], "name": "a"},
                   {"k": "maskVec", "bs": [True] * (nr + 1)}, {"k": "maskVec", "bs": [False] * nr, "name": "b"},
                   {"k": "idxVec", "is": [nr - 1, 0] if nr else [], "name": "k"},
                   {"k": "idxList", "is": [0, nr - 1, 0] if nr else [0]}]
            css = [{"c": "none"}, {"c": "name", "s": "a"}, {"c": "name", "s": "zz"}, {"c": "int", "i": nc - 1}, {"c": "int", "i": nc},
                   {"c": "slice", "a": None, "b": None, "c3": None}, {"c": "list", "items": TNAMES[:nc][::-1], "tuple": False}]
            for rk in rks:
                m = target_count(rk, nr)
                for cs in css:
                    tg = resolve_guess(cs, nc)
                    for x in ([2, 2], [5, 1], [0, 0], [3, 0]):
                        yield {"fam": "table.shape", "cols": cols, "nr": nr, "key": {"row": rk, "col": cs}, "value": {"v": "scalar", "x": x}}
                    if rk["k"] == "int":
                        good = [{"x": VAL2.get(COLTYPES[lay[j]][0][0])} for j in tg]
                        yield {"fam": "table.shape", "cols": cols, "nr": nr, "key": {"row": rk, "col": cs}, "value": {"v": "list", "items": good}}
                        yield {"fam": "table.shape", "cols": cols, "nr": nr, "key": {"row": rk, "col": cs}, "value": {"v": "tuple", "items": good[:-1] + [{"x": [13, 0]}]}}
                    else:
                        for bad in (None, "type", "len"):
                            items = []
                            for i_, j in enumerate(tg):
                                xs = [VAL2.get(COLTYPES[lay[j]][0][0])] * m
                                if i_ == len(tg) - 1 and bad == "type" and xs:
                                    xs[-1] = [13, 0]
                                if i_ == len(tg) - 1 and bad == "len":
                                    xs = xs + xs[:1] if xs else [[2, 2]]
                                items.append({"l": xs, "t": "list" if i_ % 2 == 0 else "tuple"})
                            if items:
                                yield {"fam": "table.shape", "cols": cols, "nr": nr, "key": {"row": rk, "col": cs}, "value": {"v": "list", "items": items}}


# ---- rename ---------------------------------------------------------------------------------

def gen_rename(rng, tier):
    full = tier == "thorough"
    layouts = [["a"], ["a", "b"], ["a", "a"], ["a", None], [None, None], ["a", "b", "c"], ["a", "b", "a"]]
    pool = ["a", "b", "c", "zz", None]
    for lay in layouts:
        for L in range(0, 3 if not full else 4):
            for olds in itertools.product(pool, repeat=L):
                news_all = list(itertools.product(["a", "b", "q", None], repeat=L))
                if L >= 2 and not full:
                    news_all = rng.sample(news_all, 6)
                elif L >= 3:
                    news_all = rng.sample(news_all, 4)
                for news in news_all:
                    yield {"fam": "rename", "names": lay, "olds": list(olds), "news": list(news), "ra": None}
                if L:
                    for k in range(L + 1):
                        yield {"fam": "rename", "names": lay, "olds": list(olds), "news": ["q"] * L, "ra": k}
                    yield {"fam": "rename", "names": lay, "olds": list(olds), "news": ["q"] * (L - 1), "ra": None}
                    yield {"fam": "rename", "names": lay, "olds": list(olds), "news": ["q"] * (L + 1), "ra": None}


def generate(rng, tier):
    _partial_budget[0] = 0
    # interleave the three streams so that a budget stop still leaves every family sampled
    gens = [gen_rename(rng, tier), gen_table(rng, tier), gen_vec(rng, tier), gen_states(rng, tier)]
    weights = [1, 3, 8, 2]
    alive = [True, True, True, True]
    while any(alive):
        for gi, g in enumerate(gens):
            if not alive[gi]:
                continue
            for _ in range(weights[gi] * 8):
                try:
                    yield next(g)
                except StopIteration:
                    alive[gi] = False
                    break


# ---------------------------------------------------------------------------------------------
# execution on the real code
# ---------------------------------------------------------------------------------------------

def execute(spec):
    fam = spec["fam"]
    if fam.startswith("vec"):
        return exec_vec(spec)
    if fam.startswith("table"):
        return exec_table(spec)
    if fam.startswith("rename"):
        return exec_rename(spec)
    raise ValueError(fam)


def exec_vec(spec):
    ctx = Ctx()
    v, other = build_vector(spec["col"])
    n = len(v)
    pykey, wkey = build_key(spec["key"], n)
    obj, items, lenb, ra = build_value(spec["value"])
    wval = wire_value(ctx, obj, items, lenb, ra)
    s0 = ctx.vstate(v)
    conv = ctx.conv(list(v) + (list(items) if items is not None else []) + [obj])
    err = None
    try:
        v[pykey] = obj
    except Exception as e:
        err = err_class(e)
    s1 = ctx.vstate(v)
    return {"fam": spec["fam"], "case": {"s0": s0, "shared": other is not None, "key": wkey, "value": wval, "conv": conv},
            "impl": {"err": err, "s1": s1}}


def build_table(cols, pre=None):
    """`pre` = {"names", "warm", "route"}: the table is built under other column names, optionally used (so that whatever it derives
    from its names exists), and only then brought to its present names - through live column views or rename_column(s)"""
    from serif import Table, Vector
    import warnings
    vecs = []
    for j, c in enumerate(cols):
        nm = pre["names"][j] if pre else c.get("name")
        kw = {"name": nm} if nm is not None else {}
        vecs.append(Vector([val(x) for x in c["vals"]], **kw))
    t = Table(vecs)
    if not pre or not isinstance(t, Table):
        return t
    with warnings.catch_warnings():
        warnings.simplefilter("ignore")
        warm, first = pre.get("warm"), pre["names"][0]
        if warm == "dir":
            dir(t)
        elif warm == "getitem":
            t[first]
            t[(first,)]
        elif warm == "setitem" and len(t):
            t[0, first] = t.cols()[0][0]
        route = pre.get("route", "setter")
        finals = [c["name"] for c in cols]
        if route == "rename_columns":
            # through placeholders, so that a permutation of the same names is possible
            tmp = ["tmp%d_" % j for j in range(len(cols))]
            t.rename_columns(list(pre["names"]), tmp)
            t.rename_columns(tmp, finals)
        else:
            views = list(t.cols())
            if route == "rename_column":
                for j, old in enumerate(pre["names"]):
                    t.rename_column(old, "tmp%d_" % j)
                for j, new in enumerate(finals):
                    t.rename_column("tmp%d_" % j, new)
            else:
                for v, new in zip(views, finals):
                    if route == "rename":
                        v.rename(new)
                    else:
                        v.name = new
    return t


def tstate(ctx, t):
    return [ctx.vstate(c) for c in t.cols()]


def build_titem(it):
    from serif import Vector
    if "x" in it:
        return val(it["x"])
    xs = [val(c) for c in it["l"]]
    return {"list": list, "tuple": tuple, "vector": Vector}[it["t"]](xs)


def wire_item(ctx, obj):
    if is_seq_val(obj):
        return wire_value(ctx, obj, list(obj), "ok" if hasattr(obj, "__len__") else "missing", None)
    return wire_value(ctx, obj, None, None, None)


def exec_table(spec):
    from serif import Table, Vector
    ctx = Ctx()
    t = build_table(spec["cols"], spec.get("pre"))
    if not isinstance(t, Table):
        return {"skip": "not a table"}
    if t.column_names() != [c["name"] for c in spec["cols"]]:
        return {"skip": "the table could not be brought to its names"}
    nr = len(t)
    ks = spec["key"]
    if "bad" in ks:
        pykey, wkey = tuple(range(ks["bad"])), {"t": "badTuple"}
    else:
        if ks["row"]["k"] == "selfcol":
            # the row key is one of the table's OWN live columns (a bool column as mask, an int column as positions): it must
            # select the same rows in every addressed column, also when it is itself among the columns being written
            col = t.cols()[ks["row"]["j"]]
            cur = list(col)
            if cur and all(type(x) is bool for x in cur):
                pyrow, wrow = col, {"k": "maskVec", "bs": cur}
            elif cur and all(type(x) is int for x in cur):
                pyrow, wrow = col, {"k": "idxVec", "is": cur}
            else:
                return {"skip": "own column is neither a mask nor a position list"}
        else:
            pyrow, wrow = build_key(ks["row"], nr)
        cs = ks["col"]
        c = cs["c"]
        if c == "none":
            pykey, wkey = pyrow, {"t": "single", "row": wrow}
            if isinstance(pyrow, tuple):
                return {"skip": "a tuple row key alone is a (row, col) pair"}
        else:
            if c == "int":
                pycol, wcol = cs["i"], {"c": "int", "i": cs["i"]}
            elif c == "name":
                pycol, wcol = cs["s"], {"c": "name", "id": ctx.name(cs["s"]), "lid": ctx.name(cs["s"].lower())}
            elif c == "slice":
                pycol, wcol = slice(cs["a"], cs["b"], cs["c3"]), {"c": "slice", "a": cs["a"], "b": cs["b"], "cc": cs["c3"]}
            elif c == "list":
                pycol = tuple(cs["items"]) if cs.get("tuple") else list(cs["items"])
                witems = []
                for it in cs["items"]:
                    if isinstance(it, str):
                        witems.append({"n": [ctx.name(it), ctx.name(it.lower())]})
                    elif isinstance(it, int):
                        witems.append({"i": it})
                    else:
                        witems.append({"o": 1})
                wcol = {"c": "list", "items": witems}
            else:
                pycol, wcol = 1.5, {"c": "bad"}
            pykey, wkey = (pyrow, pycol), {"t": "pair", "row": wrow, "col": wcol}
    tv = spec["value"]
    f = tv["v"]
    if f == "scalar":
        obj = val(tv["x"])
        if is_seq_val(obj):
            objs = list(obj)
            wval = {"v": "iter", "kind": "list" if isinstance(obj, (list, tuple)) else "other", "self": ctx.cell(obj),
                    "items": [wire_item(ctx, x) for x in objs],
                    "nested": bool(obj) and isinstance(obj, (list, tuple)) and isinstance(obj[0], (list, tuple, Vector)), "ra": None}
        else:
            wval = {"v": "scalar", "c": ctx.cell(obj)}
    elif f in ("owncols", "ownself"):
        # the right-hand side is made of the table's OWN live columns (t[:, ['a', 'b']] = [t['b'], t['a']]) or is the table
        # itself: like Python's list assignment, the values are what they were when the statement began
        own = list(t.cols())
        if f == "owncols":
            objs = [own[j % len(own)] for j in tv["perm"]] if own else []
            obj = list(objs) if not tv.get("tuple") else tuple(objs)
            kind = "list"
        else:
            obj, objs, kind = t, own, "table"
        wval = {"v": "iter", "kind": kind, "self": ctx.cell(obj), "items": [wire_item(ctx, x) for x in objs],
                "nested": kind == "list" and bool(objs), "ra": None}
    else:
        objs = [build_titem(it) for it in tv["items"]]
        if f == "table":
            obj = Table([Vector(list(o)) for o in objs])
            if not isinstance(obj, Table):
                return {"skip": "value is not a table"}
            objs = list(obj.cols())
            kind = "table"
        elif f in ("list", "tuple"):
            obj = list(objs) if f == "list" else tuple(objs)
            kind = "list"
        elif f == "gen":
            obj = (x for x in objs)
            kind = "other"
        else:
            obj = Raiser(objs, tv.get("ra"))
            kind = "other"
        nested = f in ("list", "tuple") and bool(objs) and isinstance(objs[0], (list, tuple, Vector))
        wval = {"v": "iter", "kind": kind, "self": ctx.cell(obj), "items": [wire_item(ctx, x) for x in objs],
                "nested": nested, "ra": tv.get("ra") if f == "raiser" else None}
    t0 = tstate(ctx, t)
    written = []
    for o in (objs if f != "scalar" or is_seq_val(obj) else []):
        written.extend(list(o) if is_seq_val(o) else [])
        written.append(o)
    conv = ctx.conv([x for c in t.cols() for x in c] + written + [obj])
    names0 = t.column_names()
    classes0 = [type(c).__name__ for c in t.cols()]
    err = None
    try:
        t[pykey] = obj
    except Exception as e:
        err = err_class(e)
    t1 = tstate(ctx, t)
    w = {"fam": spec["fam"], "case": {"t0": t0, "key": wkey, "value": wval, "conv": conv}, "impl": {"err": err, "t1": t1}}
    if len(t) != nr or t.column_names() != names0:
        w["py_fail"] = "table assignment changed the row count or the column names"
    elif err is not None and [type(c).__name__ for c in t.cols()] != classes0:
        # a failed assignment leaves the table exactly as it was — including what kind of vector each column is (a date column
        # that an earlier cell promoted to datetime must be a date column again: day arithmetic, ISO comparison)
        w["py_fail"] = (f"the assignment failed ({err}) but the columns changed class from {classes0} to "
                        f"{[type(c).__name__ for c in t.cols()]}")
    return w


def exec_rename(spec):
    from serif import Table, Vector
    ctx = Ctx()
    vecs = []
    for j, nm in enumerate(spec["names"]):
        kw = {"name": nm} if nm is not None else {}
        vecs.append(Vector([j, j + 10], **kw))
    t = Table(vecs)
    if not isinstance(t, Table):
        return {"skip": "not a table"}
    t0 = tstate(ctx, t)
    olds = list(spec["olds"])
    if spec.get("ra") is not None:
        olds = Raiser(olds, spec["ra"])
    err = None
    try:
        t.rename_columns(olds, list(spec["news"]))
    except Exception as e:
        err = err_class(e)
    t1 = tstate(ctx, t)
    return {"fam": "rename",
            "case": {"names": [ctx.name(x) for x in spec["names"]], "olds": [ctx.name(x) for x in spec["olds"]],
                     "news": [ctx.name(x) for x in spec["news"]], "ra": spec.get("ra"), "t0": t0},
            "impl": {"err": err, "names": [ctx.name(x) for x in t.column_names()], "t1": t1}}


# ---------------------------------------------------------------------------------------------
# reporting helpers
# ---------------------------------------------------------------------------------------------

def nontrivial(spec, wire):
    impl, case = wire["impl"], wire["case"]
    if spec["fam"].startswith("vec"):
        changed = impl["s1"] != case["s0"]
        return changed or (impl["err"] is not None and case["key"]["k"] != "bad")
    if spec["fam"].startswith("table"):
        return impl["t1"] != case["t0"] or impl["err"] is not None
    return impl["names"] != case["names"] or impl["err"] is not None


def histogram(spec, wire):
    impl, case = wire["impl"], wire["case"]
    fam = spec["fam"].split(".")[0]
    out = [f"{fam}:outcome:{impl['err'] or 'ok'}"]
    if fam == "vec":
        out.append(f"vec:key:{case['key']['k']}")
        v = case["value"]
        out.append("vec:value:" + (v["v"] if v["v"] == "scalar" else spec["value"]["v"]))
        out.append(f"vec:len:{len(case['s0']['data'])}")
        if impl["err"] is None and impl["s1"]["dtype"] != case["s0"]["dtype"]:
            out.append("vec:dtype-changed")
        if spec["value"].get("ra") is not None or spec["value"].get("len") == "raises":
            out.append("vec:raising-value")
    elif fam == "table":
        out.append(f"table:key:{case['key']['t']}:{(case['key'].get('col') or {}).get('c', '-')}")
        out.append(f"table:value:{spec['value']['v']}")
    else:
        out.append(f"rename:len{len(spec['olds'])}")
    return out


def shrink(spec):
    fam = spec["fam"]
    if fam.startswith("vec"):
        col = spec["col"]
        n = len(col["vals"])
        k = spec["key"]
        # shorter column (with a key that still makes sense)
        if n and k["k"] in ("int", "slice", "idxList", "idxVec", "bad"):
            yield dict(spec, col=dict(col, vals=col["vals"][:-1]))
        if n and k["k"] in ("maskList", "maskVec") and len(k["bs"]) == n:
            yield dict(spec, col=dict(col, vals=col["vals"][:-1]), key=dict(k, bs=k["bs"][:-1]))
        if k["k"] in ("idxList", "idxVec") and k["is"]:
            for i in range(len(k["is"])):
                yield dict(spec, key=dict(k, **{"is": k["is"][:i] + k["is"][i + 1:]}))
        v = spec["value"]
        if "xs" in v and v["xs"]:
            for i in range(len(v["xs"])):
                nv = dict(v, xs=v["xs"][:i] + v["xs"][i + 1:])
                if nv.get("ra") is not None:
                    nv["ra"] = min(nv["ra"], len(nv["xs"]))
                yield dict(spec, value=nv)
        if v["v"] in ("tuple", "vector", "range"):
            yield dict(spec, value={"v": "list", "xs": v.get("xs", [[2, 0]] * v.get("n", 0))})
        if col.get("dtype", "infer") != "infer":
            yield dict(spec, col=dict(col, dtype="infer"))
        if col.get("name") is not None:
            yield dict(spec, col=dict(col, name=None))
    elif fam.startswith("table"):
        cols = spec["cols"]
        if len(cols) > 1:
            yield dict(spec, cols=cols[:-1])
        if spec["nr"] > 1:
            yield dict(spec, nr=spec["nr"] - 1, cols=[dict(c, vals=c["vals"][:-1]) for c in cols])
        v = spec["value"]
        if "items" in v and v["items"]:
            yield dict(spec, value=dict(v, items=v["items"][:-1]))
    elif fam == "rename":
        if spec["olds"]:
            yield dict(spec, olds=spec["olds"][:-1], news=spec["news"][:-1])
        if len(spec["names"]) > 1:
            yield dict(spec, names=spec["names"][:-1])


def _pyval(vs):
    f = vs["v"]
    if f == "scalar":
        return repr(val(vs["x"]))
    if f == "range":
        return f"range({vs['n']})"
    xs = [val(c) for c in vs["xs"]]
    if f == "list":
        return repr(xs)
    if f == "tuple":
        return repr(tuple(xs))
    if f == "vector":
        return f"Vector({xs!r})"
    if f == "gen":
        return f"(x for x in {xs!r})"
    return f"Raiser({xs!r}, raise_at={vs.get('ra')}, len_raises={vs.get('len') == 'raises'})  # __len__ + __iter__ that raises"


def _pykey_repr(ks, n):
    k = ks["k"]
    if k == "maskVec":
        return f"Vector({ks['bs']!r})" if ks["bs"] else "Vector([], dtype=bool)"
    if k == "idxVec":
        return f"Vector({ks['is']!r})" if ks["is"] else "Vector([], dtype=int)"
    if k == "bad" and ks["what"] in ("nullintvec", "floatvec", "strvec", "emptyvec", "nullboolvec"):
        return {"nullintvec": "Vector([0, None])", "floatvec": "Vector([0.0])", "strvec": "Vector(['a'])",
                "emptyvec": "Vector([])", "nullboolvec": "Vector([True, None])"}[ks["what"]]
    return repr(build_key(ks, n)[0])


def snippet(spec):
    fam = spec["fam"]
    head = "from serif import Vector, Table\nimport datetime\n"
    if fam.startswith("vec"):
        col = spec["col"]
        vals = [val(c) for c in col["vals"]]
        pykey = _pykey_repr(spec["key"], len(vals))
        mk = f"v = Vector({vals!r}" + (f", name={col['name']!r}" if col.get("name") else "") + ")"
        if col.get("dtype") == "object":
            mk = mk[:-1] + ", dtype=object)"
        if col.get("shared"):
            mk = f"tup = {tuple(vals)!r}; v = Vector(tup); w = Vector(tup)"
        return (head + mk + "\nbefore = (list(v), v.schema(), v.name, v.fingerprint())\n"
                f"try:\n    v[{pykey}] = {_pyval(spec['value'])}\nexcept Exception as e:\n    print('raised', type(e).__name__)\n"
                "print(before, '->', (list(v), v.schema(), v.name, v.fingerprint()))")
    if fam.startswith("table"):
        cols = {c["name"]: [val(x) for x in c["vals"]] for c in spec["cols"]}
        ks = spec["key"]
        if "bad" in ks:
            key = repr(tuple(range(ks["bad"])))
        else:
            row = repr(build_key(ks["row"], spec["nr"])[0])
            cs = ks["col"]
            col = {"none": None, "int": lambda: repr(cs["i"]), "name": lambda: repr(cs["s"]),
                   "slice": lambda: repr(slice(cs["a"], cs["b"], cs["c3"])),
                   "list": lambda: repr(tuple(cs["items"]) if cs.get("tuple") else list(cs["items"])),
                   "bad": lambda: "1.5"}[cs["c"]]
            key = row if col is None else f"{row}, {col()}"

        def item(it):
            if "x" in it:
                return repr(val(it["x"]))
            xs = [val(c) for c in it["l"]]
            return {"list": repr(xs), "tuple": repr(tuple(xs)), "vector": f"Vector({xs!r})"}[it["t"]]
        tv = spec["value"]
        if tv["v"] == "scalar":
            value = repr(val(tv["x"]))
        else:
            inner = ", ".join(item(it) for it in tv["items"])
            value = {"list": f"[{inner}]", "tuple": f"({inner}{',' if len(tv['items']) == 1 else ''})",
                     "gen": f"(x for x in [{inner}])", "table": f"Table([{inner}])",
                     "raiser": f"Raiser([{inner}], raise_at={tv.get('ra')})  # __len__ + __iter__ that raises"}[tv["v"]]
        mk = f"t = Table({cols!r})\n"
        pre = spec.get("pre")
        if pre:
            # built (and used) under other names, then renamed: see build_table for the exact route
            old = {o: [val(x) for x in c["vals"]] for o, c in zip(pre["names"], spec["cols"])}
            mk = (f"t = Table({old!r})\n" + {"dir": "dir(t)\n", "getitem": f"t[{pre['names'][0]!r}]\n",
                                              "setitem": f"t[0, {pre['names'][0]!r}] = t.cols()[0][0]\n"}.get(pre.get("warm"), "")
                  + f"for v, new in zip(list(t.cols()), {[c['name'] for c in spec['cols']]!r}): v.name = new   # route: {pre.get('route')}\n")
        return (head + mk +
                "before = [(list(c), c.schema()) for c in t.cols()]\n"
                f"try:\n    t[{key}] = {value}\nexcept Exception as e:\n    print('raised', type(e).__name__)\n"
                "print(before, '->', [(list(c), c.schema()) for c in t.cols()])")
    return (head + f"t = Table([Vector([0, 10], name=n) for n in {spec['names']!r}])\n"
            f"try:\n    t.rename_columns({spec['olds']!r}, {spec['news']!r})   # raise_at={spec.get('ra')}\n"
            "except Exception as e:\n    print('raised', type(e).__name__)\nprint(t.column_names())")


KNOWN = {}

LEVEL_TEXT = (
    "Proof (Lean 4, kernel-checked, for all inputs) about an executable model of Vector.__setitem__ that follows the source "
    "statement by statement (alias check, five key forms with their raise points, zip over a value iterator that may raise at "
    "any position or lack len(), the dtype loop over all new values with validate_scalar/_PROMOTABLE, _promote with element "
    "conversion that may raise, nullable upgrade, materialisation, memo invalidation): vector_atomic (any error at any point "
    "=> contents, dtype, name and fingerprint memo unchanged), ok_eq_list_assign (a successful write leaves exactly Python list "
    "assignment applied to the old contents, converted iff the kind was promoted; int with wrap-around, slices incl. extended "
    "and negative steps with slice_length proved equal to the range length, masks, index lists with later duplicates winning), "
    "length_preserved, name_preserved, untouched_cells, addressed_cells, none_makes_nullable, memo_invalidated, "
    "valid_assignment_reaches_type_check (well-formed assignments can only be refused by the dtype check), "
    "promotion_order_independent (accept/widen/reject = join of the column kind with all written kinds, independent of "
    "order), incompatible_rejected (SerifTypeError), and model_meets_spec: on every input the model's outcome is accepted by "
    "the executable judge `accepts (demand ..)` that the driver applies to the real code's outcome. Decision data are tied "
    "to the live source by decide over tables regenerated on every run (promotion_table over validate_scalar x _PROMOTABLE, "
    "promote_vec_table_agrees, promotable_is_ladders, promotable_transitive, promotable_pairs_convertible). "
    "rename_columns: rename_columns_atomic and rename_columns_ok (apply pass = simulation, no pair skipped). "
    "Table.__setitem__: table_atomic at full strength (ANY failure, in the first or a later addressed column, leaves every "
    "column's contents, dtype, name and memo as they were), table_ok_is_column_loop, table_shape_preserved, "
    "table_untouched_columns; column_loop_alone_not_atomic shows why the roll-back wrapper is needed (the defect this check "
    "found, recorded first as a known finding and then repaired in /repo ff19998). "
    "Sampled only: that the real code behaves like the model (differential run judged by the Lean spec).")
LEVEL_NOTE = (
    "Trusted: Lean kernel; axioms propext/Classical.choice/Quot.sound; harness, driver parsing and extract_consts; CPython's "
    "slice.indices/range (closed forms in the model), isinstance-based classification of keys and values done by the harness "
    "with the same tests as the source, element conversions float()/complex()/datetime.combine as a Python-computed oracle. "
    "Values are opaque (exact-type tag + identity). Latitude accepted by the spec: bool column <- number may be refused with "
    "SerifTypeError or widened; v[[]] = x; values without len() or raising only at their very end; int too large for "
    "float()/complex() during validation; storage shared with another vector. Table cases use distinct lower-case "
    "identifier column names. Not generated: value objects whose __len__ lies or whose second iteration raises (the latter "
    "makes rename_columns partially rename: reported, not judged).")
