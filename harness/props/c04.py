"""C04 — dtype inference and promotion form an order-independent lattice."""
import itertools, warnings, os
from values import value_of, dtype_wire, tag_code, kind_code, POOL, storage
from extract_consts import kind_codes

PID = "C04"
RULE = ("infer: every tag sequence up to length 3 (quick) / 4 (thorough) over 16 exact types incl. None, object() and "
        "three unrelated user classes, all orderings of random multisets, random sequences to length 200; judged by "
        "the Lean spec inferSpec (join of occurring kinds, nullable iff None occurs) and the model infer; "
        "promote: all (dtype, value) pairs; results: schema() of arithmetic/join/aggregate/CSV outputs (numeric ladder, and the "
        "temporal ladder through the _Date routes: date/datetime/mixed columns +/- days as scalar, int vector, list, timedelta, "
        "with None on either side, comparisons, joins, aggregates) against infer of their values. Added by the gap analysis: every pooled value "
        "(falsy ones too) as the promoting value and as the first element, zeros equal across types, long sequences through every "
        "container / constructor route (tuple, iterator, generator, dict view, Vector, Table), - // % ** between vectors, abs/+, list and "
        "tuple operands, the same object twice, table with table, str and complex results, header-less CSV, and results of 300 / 1100 "
        "rows whose deciding element comes last. non-trivial = at least two distinct tags in the sequence (or a promotion that changes the dtype)")
ASSUMPTIONS = ["elements are instances of the listed classes or of strict subclasses of them (IntEnum, float/str/date subclasses, "
               "namedtuple, …), which count as their base kind throughout, as infer_kind's isinstance tests classify them",
               "promote_with / infer_kind / validate_scalar inspect only the exact type of a value (tabulation assumption)"]
BUDGET_S = {"quick": 25, "thorough": 240}

CODES = list(range(16))


def generate(rng, tier):
    maxlen = 3 if tier == "quick" else 4
    for n in range(0, maxlen + 1):
        for tags in itertools.product(CODES, repeat=n):
            yield {"fam": "infer", "tags": list(tags), "variant": 0}
    # the same sequences with subclass instances at every subset of positions (up to length 3)
    for n in range(1, 4):
        for tags in itertools.product(sorted(SUB_POOL) + [0, 1], repeat=n):
            for r in range(1, n + 1):
                for sub in itertools.combinations(range(n), r):
                    if all(tags[i] in SUB_POOL for i in sub):
                        yield {"fam": "infer", "tags": list(tags), "variant": 0, "sub": list(sub)}
    # "arbitrary other classes": numbers outside the ladder (Decimal, Fraction, a numbers.Number, a class with __index__/__float__),
    # temporal look-alikes (time, timedelta), bytes/container look-alikes (bytearray, frozenset, range) — each is just another
    # unrelated class for the rule; on the wire the distinct exotic classes of a case are numbered as the user classes 13, 14, 15
    ladder = [0, 1, 2, 3, 4, 5, 7, 8]
    alphabet = ladder + [("x", i) for i in range(len(EXOTIC))]
    for n in range(1, 4):
        for seq in itertools.product(alphabet, repeat=n):
            if any(isinstance(c, tuple) for c in seq):
                yield {"fam": "infer", "tags": [c if not isinstance(c, tuple) else 13 for c in seq], "variant": 0,
                       "exo": {str(i): c[1] for i, c in enumerate(seq) if isinstance(c, tuple)}}
    for x in range(len(EXOTIC)):
        for nullable in (False, True):
            for t in range(13):
                yield {"fam": "promote", "kind": 13, "nullable": nullable, "tag": t, "exokind": x}
            yield {"fam": "promote", "kind": 13, "nullable": nullable, "tag": 13, "exokind": x, "exoval": x}
            yield {"fam": "promote", "kind": 13, "nullable": nullable, "tag": 14, "exokind": x, "exoval": (x + 1) % len(EXOTIC)}
        for k in range(1, 13):
            for nullable in (False, True):
                yield {"fam": "promote", "kind": k, "nullable": nullable, "tag": 13, "exoval": x}
    inv = {v: k for k, v in kind_codes().items()}
    for k in sorted(inv):
        for nullable in (False, True):
            for t in CODES:
                yield {"fam": "promote", "kind": k, "nullable": nullable, "tag": t}
                if t in SUB_POOL:
                    yield {"fam": "promote", "kind": k, "nullable": nullable, "tag": t, "sub": True}
    # all orderings of random multisets over the ladder-relevant tags
    base = [0, 1, 2, 3, 5, 7, 8, 13]
    for _ in range(30 if tier == "quick" else 600):
        ms = [rng.choice(base) for _ in range(rng.randint(2, 5))]
        for perm in set(itertools.permutations(ms)):
            yield {"fam": "infer", "tags": list(perm), "variant": rng.randint(0, 3)}
    for _ in range(300 if tier == "quick" else 6000):
        n = rng.randint(5, 200)
        pool = rng.sample(CODES, rng.randint(1, 4))
        yield {"fam": "infer", "tags": [rng.choice(pool) for _ in range(n)], "variant": rng.randint(0, 3)}
    # long sequences of values that are EQUAL across types (0 == 0.0 == False == 0j, 1 == 1.0 == True): anything that
    # looks at distinct values instead of elements (sets, dict.fromkeys, memoisation by value) merges them
    for _ in range(60 if tier == "quick" else 1500):
        n = rng.choice([5, 40, 257, 300, 700])
        kinds = rng.sample([1, 2, 3, 4], rng.randint(2, 3))
        wide = max(kinds)
        tags = [rng.choice([k for k in kinds if k != wide]) for _ in range(n)]
        tags.insert(rng.randrange(n + 1), wide)          # the widest type occurs exactly once, anywhere
        if rng.random() < 0.3:
            tags.insert(rng.randrange(len(tags)), 0)
        yield {"fam": "infer", "tags": tags, "variant": 0, "pool": "equal"}
    for n in (1, 2, 3):
        for tags in itertools.product([0, 1, 2, 3, 4], repeat=n):
            if 2 in tags:
                yield {"fam": "infer", "tags": list(tags), "variant": 0, "pool": "huge"}
    for i in range(3000 if tier == "quick" else 40000):
        yield {"fam": "result", "op": rng.choice(["add", "mul", "truediv", "radd", "join", "joinwide", "joinwide", "aggwide", "aggexo", "aggexo", "aggregate", "csv", "neg", "window", "scalar", "scalar", "rscalar", "tscalar", "dateadd", "dateadd", "datesub", "datecmp", "datejoin", "dateagg"]),
               "a": [rng.choice([0, 1, 2, 3]) for _ in range(rng.randint(1, 5))], "seed": rng.randint(0, 10**6)}

    if os.environ.get("VERIF_OLD_FAMILIES_ONLY"):
        return          # (for comparing what the families below add: NOTES.md of the gap analysis)
    # --- added by the gap analysis (after the older families: their random draws stay what they were) ---
    # every pooled VALUE of every tag as the promoting value: the falsy ones (False, 0, 0.0, 0j, '', b'', [], {}, ()) are values like
    # any other — only None lifts nullability
    for k in sorted(inv):
        for nullable in (False, True):
            for t in CODES:
                for variant in range(1, len(POOL[t])):
                    yield {"fam": "promote", "kind": k, "nullable": nullable, "tag": t, "variant": variant}
    # the same exhaustive short sequences with the pool rotated: a falsy value FIRST (variant 0 starts every sequence with a truthy one)
    for n in range(1, 4):
        for tags in itertools.product(CODES, repeat=n):
            yield {"fam": "infer", "tags": list(tags), "variant": 1}
    # values equal across types, the zeros this time (False == 0 == 0.0 == 0j, all falsy), short and long; and long sequences
    # through every constructor / container route (tuple, one-shot iterator, Vector): `routes`
    for n in (1, 2, 3):
        for tags in itertools.product([0, 1, 2, 3, 4], repeat=n):
            yield {"fam": "infer", "tags": list(tags), "variant": 0, "pool": "zero"}
    for _ in range(60 if tier == "quick" else 1500):
        n = rng.choice([5, 40, 257, 300, 700, 1100])
        kinds = rng.sample([1, 2, 3, 4], rng.randint(2, 3))
        wide = max(kinds)
        tags = [rng.choice([k for k in kinds if k != wide]) for _ in range(n)]
        tags.insert(rng.choice([0, n, n, rng.randrange(n + 1)]), wide)          # the widest type once: first, LAST, or anywhere
        if rng.random() < 0.4:
            tags.insert(rng.choice([0, len(tags), rng.randrange(len(tags))]), 0)
        yield {"fam": "infer", "tags": tags, "variant": 0, "pool": rng.choice(["zero", "equal"]), "routes": True}
    for _ in range(60 if tier == "quick" else 1500):
        n = rng.choice([40, 257, 300, 1100])
        pool = rng.sample(CODES, rng.randint(1, 3))
        tags = [rng.choice(pool) for _ in range(n)] + [rng.choice(CODES)]       # the deciding element may be the last one
        yield {"fam": "infer", "tags": tags, "variant": rng.randint(0, 3), "routes": True}
    for i in range(1200 if tier == "quick" else 16000):
        yield {"fam": "result", "op": rng.choice(["vvop", "vvop", "unary", "listop", "selfop", "ttop", "csvnh", "strop", "complexop",
                                                  "big", "big", "big"]),
               "a": [rng.choice([0, 1, 2, 3]) for _ in range(rng.randint(1, 5))], "seed": rng.randint(0, 10**6)}

EQUAL_POOL = {0: None, 1: True, 2: 1, 3: 1.0, 4: 1 + 0j}
ZERO_POOL = {0: None, 1: False, 2: 0, 3: 0.0, 4: 0j}

# instances of strict SUBCLASSES of the ladder / container types (enum.IntEnum, a float subclass as numpy's float64 is, a str
# subclass, a date subclass, a namedtuple …): the quantifier's "arbitrary other classes".  infer_kind classifies with isinstance,
# so such a value counts as its base kind — as the first element and as any later one alike.
import collections as _c, enum as _enum, datetime as _dt


class _E(_enum.IntEnum):
    A = 3


class _F(float):
    pass


class _C(complex):
    pass


class _S(str):
    pass


class _B(bytes):
    pass


class _D(_dt.date):
    pass


class _T(_dt.datetime):
    pass


class _L(list):
    pass


class _M(dict):
    pass


_P = _c.namedtuple("_P", "x y")
SUB_POOL = {2: _E.A, 3: _F(2.5), 4: _C(1, 1), 5: _S("sub"), 6: _B(b"sub"), 7: _D(2021, 3, 4), 8: _T(2021, 3, 4, 5, 6), 9: _L([1]),
            10: _M(a=1), 11: _P(1, 2)}


import decimal as _dec, fractions as _fr, numbers as _nums


class _Num(_nums.Number):
    """registered as a number, nothing else"""
    def __hash__(self):
        return 1


class _Idx:
    def __index__(self):
        return 3

    def __int__(self):
        return 3

    def __float__(self):
        return 3.0


class _Shape:
    """a user class and a subclass of it: two different exact classes outside the ladders (their mixture is object, in either order)"""
    def __repr__(self):
        return type(self).__name__ + "()"


class _Circle(_Shape):
    pass


EXOTIC = [_dec.Decimal("1.5"), _fr.Fraction(1, 3), _Num(), _Idx(), _dt.time(1, 2), _dt.timedelta(days=1), bytearray(b"a"),
          frozenset({1}), range(3), _Shape(), _Circle(), LookupError("x"), KeyError("x")]


def _exo_codes(spec):
    """exotic class -> wire code 13, 14, 15 in order of first appearance in the case"""
    out = {}
    for i in sorted(spec.get("exo", {}), key=int):
        c = type(EXOTIC[spec["exo"][i]])
        out.setdefault(c, 13 + len(out))
    if "exokind" in spec:
        out.setdefault(type(EXOTIC[spec["exokind"]]), 13 + len(out))
    if "exoval" in spec:
        out.setdefault(type(EXOTIC[spec["exoval"]]), 13 + len(out))
    return out


def _dwire(d, cmap):
    if d is not None and d.kind in cmap:
        return [cmap[d.kind], bool(d.nullable)]
    return dtype_wire(d)


def _values(spec):
    if spec.get("exo"):
        vals = [value_of(c, 0) for c in spec["tags"]]
        for i, x in spec["exo"].items():
            vals[int(i)] = EXOTIC[x]
        return vals
    if spec.get("pool") == "equal":
        return [EQUAL_POOL[c] for c in spec["tags"]]
    if spec.get("pool") == "zero":
        return [ZERO_POOL[c] for c in spec["tags"]]
    vals = [value_of(c, spec.get("variant", 0) + i) for i, c in enumerate(spec["tags"])]
    if spec.get("pool") == "huge":
        # ints beyond float range: they are ints all the same (kind int; they belong to a float / complex vector by the widening
        # rule without being convertible)
        vals = [((-1) ** i) * 10 ** (400 + i) if type(x) is int else x for i, x in enumerate(vals)]
    for i in spec.get("sub", ()):
        if i < len(vals) and spec["tags"][i] in SUB_POOL:
            vals[i] = SUB_POOL[spec["tags"][i]]
    return vals


def execute(spec):
    from serif.typing import infer_dtype, DataType
    from serif import Vector
    fam = spec["fam"]
    if fam == "infer":
        vals = _values(spec)
        d = infer_dtype(vals)
        cmap = _exo_codes(spec)
        tags = [cmap[type(vals[i])] if str(i) in spec.get("exo", {}) else c for i, c in enumerate(spec["tags"])]
        w = {"fam": "infer", "case": {"tags": tags}, "impl": _dwire(d, cmap)}
        v = Vector(vals)
        if hasattr(v, "schema") and not (vals and all(isinstance(x, Vector) for x in vals)):
            s = v.schema()
            if vals and dtype_wire(s) != dtype_wire(d):
                w["py_fail"] = f"Vector(values).schema()={s!r} differs from infer_dtype(values)={d!r}"
            if "py_fail" not in w and vals and (len(vals) <= 4 or spec.get("routes")) and not os.environ.get("VERIF_OLD_FAMILIES_ONLY"):
                # infer_dtype takes any iterable: the container must not matter (a tuple, a one-shot iterator, a dict's keys view)
                for label, cont in (("tuple(values)", lambda: tuple(vals)), ("iter(values)", lambda: iter(vals)),
                                    ("a generator over values", lambda: (x for x in vals)),
                                    ("dict(enumerate(values)).values()", lambda: dict(enumerate(vals)).values())):
                    try:
                        d2 = infer_dtype(cont())
                    except Exception as e:
                        w["py_fail"] = f"infer_dtype({label}) raised {type(e).__name__} (judged in Python)"
                        break
                    if dtype_wire(d2) != dtype_wire(d):
                        w["py_fail"] = (f"infer_dtype({label})={d2!r} differs from infer_dtype(list(values))={d!r} for {len(vals)} values "
                                        f"of types {sorted({type(x).__name__ for x in vals})} (judged in Python)")
                        break
            if "py_fail" not in w and (len(vals) <= 4 or spec.get("routes")):
                # a Vector is itself a finite sequence of the same values: every constructor route must infer the same dtype
                from serif import Table
                for label, build in (("Vector(Vector(values))", lambda: Vector(v)),
                                     ("Table({'a': Vector(values)}).a", lambda: Table({"a": v}).cols()[0]),
                                     ("Vector(iter(values))", lambda: Vector(iter(vals))),
                                     ("Vector(tuple(values))", lambda: Vector(tuple(vals))),
                                     ("Table({'a': values}).a", lambda: Table({"a": vals}).cols()[0])):
                    try:
                        v2 = build()
                    except Exception as e:
                        w["py_fail"] = f"{label} raised {type(e).__name__} for values {vals!r}"
                        break
                    if vals and dtype_wire(v2.schema()) != dtype_wire(d):
                        w["py_fail"] = f"{label}.schema()={v2.schema()!r} differs from infer_dtype(values)={d!r} for values {vals!r}"
                        break
            if vals and len(vals) <= 4 and "py_fail" not in w:
                # C03's "equivalently": writing any element back into its own position is accepted and changes nothing
                import warnings
                with warnings.catch_warnings():
                    warnings.simplefilter("ignore")
                    for i in range(len(vals)):
                        try:
                            v[i] = v[i]
                        except Exception as e:
                            w["py_fail"] = (f"writing element {i} ({vals[i]!r}) of Vector({vals!r}) back into its own position was refused: "
                                            f"{type(e).__name__}")
                            break
                        if dtype_wire(v.schema()) != dtype_wire(s):
                            w["py_fail"] = f"writing element {i} of Vector({vals!r}) back changed the dtype from {s!r} to {v.schema()!r}"
                            break
        return w
    if fam == "promote":
        inv = {v: k for k, v in kind_codes().items()}
        cmap = _exo_codes(spec)
        kind = type(EXOTIC[spec["exokind"]]) if "exokind" in spec else inv[spec["kind"]]
        d = DataType(kind, spec["nullable"])
        val = EXOTIC[spec["exoval"]] if "exoval" in spec else SUB_POOL[spec["tag"]] if spec.get("sub") else value_of(spec["tag"], spec.get("variant", 0))
        r = d.promote_with(val)
        return {"fam": "promote", "case": {"dtype": [cmap.get(kind, spec["kind"]), spec["nullable"]], "tag": cmap.get(type(val), spec["tag"])},
                "impl": _dwire(r, cmap)}
    if fam == "result":
        return _result(spec)
    raise ValueError(fam)


def _result(spec):
    """results of arithmetic, joins, aggregates and CSV parsing are typed by the inference rule applied to their values"""
    import random, io
    from serif import Vector, Table, read_csv
    rng = random.Random(spec["seed"])
    pools = {0: [None], 1: [True, False], 2: [1, 2, 3], 3: [0.5, 2.0]}
    a = [rng.choice(pools[c]) for c in spec["a"]]
    b = [rng.choice(pools[rng.choice([1, 2, 3, 0])]) for _ in a]
    op = spec["op"]
    try:
        if op in ("add", "mul", "truediv"):
            import operator
            r = getattr(operator, op)(Vector(a), Vector([x if x not in (0, False, 0.0) or op != "truediv" else 1 for x in b]))
        elif op in ("scalar", "rscalar", "tscalar"):
            # every arithmetic operator with a scalar operand (negative, zero-free, float, bool), direct and reflected,
            # on vectors and on table columns: the result is typed by inference over its values
            import operator
            f = getattr(operator, rng.choice(["add", "sub", "mul", "truediv", "floordiv", "mod", "pow"]))
            k = rng.choice([-1, -2, 2, 3, 0.5, True, 1.5])
            aa = [x if x not in (0, False, 0.0) else 1 for x in a]
            if op == "scalar":
                r = f(Vector(aa), k)
            elif op == "rscalar":
                r = f(k, Vector(aa))
            else:
                r = rng.choice(f(Table({"p": aa, "q": aa}), k).cols())
        elif op in ("dateadd", "datesub", "datecmp", "datejoin", "dateagg"):
            # the temporal ladder through the dedicated _Date routes: date (+|-) days as scalar / int vector / list, with None on
            # either side, mixed date/datetime columns, and their join / aggregate columns
            import operator
            from datetime import date, datetime, timedelta
            n = len(a)
            mk = rng.choice(["date", "date", "datetime", "mixed"])
            def dval(i):
                if mk == "date" or (mk == "mixed" and i % 2 == 0):
                    return date(2020, 1, 1 + i)
                return datetime(2020, 1, 1 + i, 5)
            ds = [None if c == 0 and rng.random() < 0.7 else dval(i) for i, c in enumerate(spec["a"])]
            days = [None if rng.random() < 0.3 else rng.choice([1, 2, -3]) for _ in range(n)]
            if op == "dateadd":
                other = rng.choice([lambda: Vector(days), lambda: days, lambda: 2, lambda: timedelta(days=1),
                                    lambda: Vector([None if x is None else timedelta(days=x) for x in days])])()
                r = rng.choice([lambda: Vector(ds) + other, lambda: other + Vector(ds)])()
            elif op == "datesub":
                other = rng.choice([lambda: Vector(ds[::-1]), lambda: 2, lambda: timedelta(days=1), lambda: Vector(days)])()
                r = Vector(ds) - other
            elif op == "datecmp":
                r = rng.choice([operator.lt, operator.eq, operator.ge])(Vector(ds), rng.choice([ds[0] or dval(0), Vector(ds[::-1])]))
            elif op == "datejoin":
                L = Table({"k": list(range(n)), "d": ds})
                R = Table({"k": [0, 2, 7], "e": [dval(0), None, dval(2)]})
                r = rng.choice(rng.choice([L.join, L.full_join, L.inner_join])(R, "k", "k", expect="many_to_many").cols())
            else:
                t = Table({"k": [rng.choice([1, 2]) for _ in ds], "d": ds})
                f = rng.choice([t.aggregate, t.window])
                r = rng.choice(f(over="k", min_over="d", max_over="d", count_over="d").cols())
        elif op == "radd":
            r = rng.choice([1, 1.5, True]) + Vector(a)
        elif op == "neg":
            r = -Vector(a)
        elif op == "lshift":
            r = Vector(a) << rng.choice([b, b[0], Vector(b)])
        elif op == "fillna":
            r = Vector(a).fillna(rng.choice([1, 1.5, True]))
        elif op == "join":
            L = Table({"k": [1, 2, 3][:len(a)] + [9] * max(0, len(a) - 3), "x": a})
            R = Table({"k": [3, 2, 7], "y": b[:3] + [None] * (3 - len(b[:3]))})
            t = rng.choice([L.join, L.full_join, L.inner_join])(R, "k", "k", expect="many_to_many")
            cols = t.cols()
            if not cols:
                return {"skip": "empty join"}
            r = rng.choice(cols)
        elif op == "aggexo":
            # aggregates / windows over complex, Fraction and Decimal columns: a mean or a sum of such values is not a float, and the
            # result column is typed from its values like any other
            import fractions as _fr, decimal as _dec
            pool = rng.choice([[1 + 2j, 2j, 3 + 0j], [_fr.Fraction(1, 3), _fr.Fraction(2, 3), _fr.Fraction(5, 7)],
                               [_dec.Decimal("1.5"), _dec.Decimal("2.25"), _dec.Decimal("4")], [1 + 2j, 2, 0.5], [True, 2, 1 + 1j]])
            xs = [None if c == 0 else rng.choice(pool) for c in spec["a"]] + [rng.choice(pool), rng.choice(pool)]
            t = Table({"k": [rng.choice([1, 2]) for _ in xs], "x": xs})
            f = rng.choice([t.aggregate, t.window])
            fn = rng.choice(["sum_over", "mean_over", "count_over", "stdev_over"])
            r = rng.choice(f(over="k", **{fn: "x"}).cols())
        elif op in ("joinwide", "aggwide"):
            # operands whose *declared* dtype is wider than the rule gives for their present values (a None sliced or masked
            # away, a None written and overwritten, to_object(), a declared nullable dtype): the result columns of joins,
            # aggregates and windows are typed from the result's values, not from the operand's declaration
            def widen(t, col, vals):
                how = rng.choice(["slice", "mask", "rewrite", "object", "asis"])
                if how == "slice":
                    t2 = t << [None] * len(t.cols())
                    return t2[0:len(t)]
                if how == "mask":
                    t2 = t << [None] * len(t.cols())
                    return t2[[True] * len(t) + [False]]
                if how == "rewrite" and len(t):
                    c = t[col]
                    keep = c[0]
                    c[0] = None
                    c[0] = keep
                    return t
                if how == "object":
                    return Table({n: (c.to_object() if n == col else c) for n, c in zip(t.column_names(), t.cols())})
                return t
            aa = [x for x in a if x is not None] or [1]
            L = widen(Table({"k": list(range(1, len(aa) + 1)), "x": aa}), "x", aa)
            if op == "joinwide":
                R = widen(Table({"k": [3, 2, 1], "y": [2.5, 4.5, 6.5]}), "y", None)
                t = rng.choice([L.join, L.full_join, L.inner_join])(R, "k", "k", expect="many_to_many")
            else:
                L = widen(L, "k", None)
                t = rng.choice([L.aggregate, L.window])(over="k", sum_over="x", max_over="x", min_over="x")
            cols = t.cols()
            if not cols:
                return {"skip": "empty result"}
            r = rng.choice(cols)
        elif op in ("aggregate", "window"):
            t = Table({"k": [rng.choice([1, 2, None]) for _ in a], "x": a})
            f = t.aggregate if op == "aggregate" else t.window
            r = rng.choice(f(over="k", sum_over="x", mean_over="x", max_over="x", count_over="x").cols())
        elif op == "csv":
            cells = ["", "1", "2.5", "x", " 7 ", " ", "\t", "  "]       # blank cells of every spelling are None
            rows = [[rng.choice(cells) for _ in range(rng.choice([2, 2, 1, 3]))] for _ in a]     # jagged records too
            text = "p,q\n" + "\n".join(",".join(r) for r in rows) + "\n"
            t = read_csv(io.StringIO(text))
            cols = t.cols()
            if not cols:
                return {"skip": "no columns"}
            r = rng.choice(cols)
        elif op in ("vvop", "unary", "listop", "selfop", "ttop", "strop", "complexop"):
            # (gap analysis) the operators and operand forms the older `result` family never combines: - // % ** between two vectors,
            # abs / +, a list or tuple operand on either side, the same object on both sides, table with table, str and complex values
            import operator
            nz = lambda xs: [x if x not in (0, False, 0.0) else 1 for x in xs]
            f = getattr(operator, rng.choice(["add", "sub", "mul", "truediv", "floordiv", "mod", "pow"]))
            if op == "vvop":
                r = f(Vector(a), Vector([x if x is None else rng.choice([x, -x]) for x in nz(b)]))
            elif op == "unary":
                r = rng.choice([operator.abs, operator.pos, operator.neg])(Vector(a))
            elif op == "listop":
                other = rng.choice([list, tuple])(nz(b))
                r = f(Vector(a), other) if rng.random() < 0.5 else f(other, Vector(nz(a)))
            elif op == "selfop":
                v = Vector(nz(a))
                r = f(v, v)
            elif op == "ttop":
                r = rng.choice(f(Table({"p": a, "q": nz(b)}), Table({"p": nz(b), "q": nz(b)})).cols())
            elif op == "strop":
                sv = Vector([None if x is None else "ab"[:1 + (i % 2)] for i, x in enumerate(a)])
                r = rng.choice([lambda: sv + "x", lambda: "x" + sv, lambda: sv * 2, lambda: sv + sv, lambda: sv * Vector([1 if x is None else 2 for x in a]),
                                lambda: sv == "a", lambda: Table({"k": [1] * len(a), "s": sv}).aggregate(over="k", min_over="s", max_over="s", count_over="s").cols()[rng.randrange(4)]])()
            else:
                cv = Vector([None if x is None else rng.choice([1 + 2j, 2j, 1, 0.5, True]) for x in a])
                r = rng.choice([lambda: f(cv, 2), lambda: f(2, cv), lambda: f(cv, 1j), lambda: f(cv, cv), lambda: abs(cv), lambda: -cv])()
        elif op == "csvnh":
            cells = ["", "1", "2.5", "x", " 7 ", " ", "-3", "1e3"]
            rows = [[rng.choice(cells) for _ in range(rng.choice([2, 2, 1, 3]))] for _ in a]
            t = read_csv(io.StringIO("\n".join(",".join(r) for r in rows) + "\n"), has_header=False)
            cols = t.cols()
            if not cols:
                return {"skip": "no columns"}
            r = rng.choice(cols)
        elif op == "big":
            # (gap analysis) results far beyond any size threshold, where the ONE element that decides the dtype comes last (or first):
            # typed by the rule applied to all their values, not to a sample
            import operator
            n = rng.choice([300, 1100])
            odd_at = rng.choice([n - 1, n - 1, 0, n // 2])
            def col(base, odd):
                xs = [base] * n
                xs[odd_at] = odd
                return xs
            how = rng.choice(["pow", "div", "neg", "radd", "mul", "tt", "join", "agg", "window", "csv", "cmp"])
            if how == "pow":
                r = Vector([2] * n) ** Vector(col(1, -1))                     # one float among ints
            elif how == "div":
                r = Vector(col(4, None)) // Vector([2] * n)
            elif how == "neg":
                r = rng.choice([operator.neg, operator.abs])(Vector(col(True, rng.choice([None, 2]))))
            elif how == "radd":
                r = rng.choice([1, True, 1.5]) + Vector(col(1, rng.choice([None, 0.5])))
            elif how == "mul":
                r = Vector(col(1, rng.choice([0.5, None, True]))) * rng.choice([2, Vector([2] * n), [2] * n])
            elif how == "tt":
                r = rng.choice((Table({"p": col(1, 0.5), "q": col(2, None)}) + Table({"p": [1] * n, "q": col(1, 1.5)})).cols())
            elif how == "join":
                L = Table({"k": list(range(n)), "x": col(1, rng.choice([0.5, None, 1]))})
                R = Table({"k": [odd_at, n + 5], "y": [1, 2]})
                r = rng.choice(rng.choice([L.join, L.full_join])(R, "k", "k", expect="many_to_many").cols())
            elif how in ("agg", "window"):
                t = Table({"k": [i // 2 for i in range(n)], "x": col(1, rng.choice([None, 0.5])), "y": col(None, 1)})
                fn = t.aggregate if how == "agg" else t.window
                r = rng.choice(fn(over="k", sum_over="x", mean_over="y", max_over="x", min_over="y", count_over="y").cols())
            elif how == "csv":
                cells = col("1", rng.choice(["", "2.5", "x", " "]))
                t = read_csv(io.StringIO("p,q\n" + "\n".join(f"{c},{i}" for i, c in enumerate(cells)) + "\n"))
                r = t.cols()[0]
            else:
                r = Vector(col(1, None)) < Vector(col(2, None))
        else:
            raise ValueError(op)
    except Exception as e:
        return {"skip": f"operation raised {type(e).__name__}"}
    if not isinstance(r, Vector) or r.ndims() != 1 and len(r):
        return {"skip": "not a vector"}
    vals = list(storage(r))
    if any(isinstance(x, tuple) for x in vals):
        return {"skip": "mixed-type fallback"}
    if op in ("fillna",) :
        # fillna keeps the declared kind when the fill value is compatible; judged by C03, not here
        return {"skip": "fillna typed by declared kind"}
    return {"fam": "infer", "case": {"tags": [tag_code(x) for x in vals]}, "impl": dtype_wire(r.schema())}


def nontrivial(spec, wire):
    if spec["fam"] == "promote":
        return wire["impl"] != wire["case"]["dtype"]
    return len(set(wire["case"]["tags"])) >= 2


def histogram(spec, wire):
    if spec["fam"] == "promote":
        return ["promote"]
    n = len(wire["case"]["tags"])
    return [f"{spec['fam']}:len{'0' if n == 0 else '1' if n == 1 else '2-5' if n <= 5 else '6+'}",
            f"{spec['fam']}:none-first" if n and wire["case"]["tags"][0] == 0 else f"{spec['fam']}:other"]


def shrink(spec):
    if spec["fam"] == "infer":
        t = spec["tags"]
        for i in range(len(t)):
            out = dict(spec, tags=t[:i] + t[i + 1:])
            if spec.get("exo"):
                out["exo"] = {str(int(j) - (int(j) > i)): x for j, x in spec["exo"].items() if int(j) != i}
            if spec.get("sub"):
                out["sub"] = [j - (j > i) for j in spec["sub"] if j != i]
            yield out
        if spec.get("variant"):
            yield dict(spec, variant=0)


def snippet(spec):
    if spec["fam"] == "infer":
        return ("from serif.typing import infer_dtype\n"
                f"vals = {_values(spec)!r}\nprint(infer_dtype(vals), infer_dtype(vals[::-1]))")
    return repr(spec)

LEVEL_TEXT = ("Proof: the kind order is shown to be a join-semilattice, infer_dtype's loop is proved equal to 'join of the occurring "
              "kinds, nullable iff None occurs' for every finite sequence (so it is invariant under permutation, duplication and "
              "length: infer_perm, infer_depends_on_type_set), promotion is proved monotone, idempotent and commutative; all for every "
              "class including arbitrarily many unrelated user classes. The model is tied to the source by kernel-checked agreement "
              "with promote_with / infer_kind / validate_scalar tabulated from the live code on every run, and by an exhaustive "
              "differential run of infer_dtype and Vector(...).schema() against the Lean spec.")
LEVEL_NOTE = ("Trusted: Lean kernel; axioms propext/Classical.choice/Quot.sound only; the extractor and harness; the assumption that "
              "promote_with/infer_kind inspect only the exact type of a value; subclasses of ladder types as elements are not modelled. "
              "The theorem is about the Lean model; the tie to infer_dtype's loop itself is the differential run (all sequences to "
              "length 3/4 over 16 types plus random long ones).")
