"""C06 — None is handled uniformly: propagates, compares False, is skipped by reductions; isna/dropna/fillna agree."""
import itertools, datetime, math, operator
from values import Interner, dtype_wire, err_class, kind_code
import vecgen as G
from vecgen import POOLS, BINOPS, UNOPS, CMPOPS, CMPSYM, SYMBOL, val, vals
from props import c05

PID = "C06"
RULE = ("every dtype in {bool,int,float,complex,str,date,timedelta,object(mixed)} x EVERY subset of None positions for every "
        "length 0..5 (63 patterns), crossed with: the 7 arithmetic operators in all five operand forms and the 3 unary "
        "operators (right-hand None patterns: none / same / complement / random), the 6 comparisons against vector, list "
        "and scalar (plus date vectors against ISO strings and against datetimes: scalar, list, typed vector; v == v; unequal lengths), the "
        "reductions sum, mean, min, max, stdev (sample and population), any, all, and isna/dropna/fillna with compatible, "
        "promoting (int<-float, int<-complex, float<-complex, date<-datetime), incompatible and None fill values on typed, "
        "untyped, all-None and empty vectors; per-group aggregates (sum, mean, min, max, count, stdev) of Table.aggregate and Table.window on "
        "value columns with random None placement. gaps (builder gA): dtype declared with a plain Python type (non-nullable on paper, "
        "None in the data) under every operator, comparison and reduction; every family at 256-1200 elements; tuples as comparison "
        "operand; aggregates of two value columns with different None placement, of zero rows, of 300 rows. "
        "Oracles: Python's scalar operation per pair, Python's builtin reduction "
        "of the None-free list. non-trivial = the inputs contain at least one None (for na/red/agg: every case that is not skipped)")
ASSUMPTIONS = [
    "scalar None as the other operand of a comparison or operator is not generated (it is not an element; v == None warns by design)",
    "date vectors against datetime operands are not generated (noted in DESIGN section 7 #14, not judged)",
    "where Python itself raises for some pair (e.g. int < str, sum of strings) the call may raise; float results of mean/stdev "
    "are compared with 1e-9 relative tolerance, everything else by (type, repr)",
    "an incompatible fill value may be refused (clean refusal), or accepted if the fill is then exactly right",
    "which rows form a group of Table.aggregate is computed by the harness with a Python dict (C12's subject); C06 only judges "
    "that each group's aggregate is the aggregate of its non-None values",
]
BUDGET_S = {"quick": 30, "thorough": 400}

DT = datetime.datetime
OBJ = G.EXTRA["obj"]
CPOOLS = dict(POOLS, obj=OBJ)
CTYPES = list(CPOOLS)
ISO = ["2020-01-31", "1999-12-31", "2021-06-01", "not-a-date"]
DTM = [datetime.datetime(2020, 1, 31), datetime.datetime(1999, 12, 31, 23, 59), datetime.datetime(2021, 6, 1, 0, 0, 1),
       datetime.datetime(2000, 1, 1)]
PARTNERS = {"bool": ["int", "bool"], "int": ["int", "float"], "float": ["float", "int"], "complex": ["complex", "int"],
            "str": ["str", "int"], "date": ["td", "int", "date"], "td": ["td", "int", "float"], "obj": ["int"]}
CMP_PARTNERS = {"bool": ["bool", "int"], "int": ["int", "float"], "float": ["float", "int"], "complex": ["complex"],
                "str": ["str", "int"], "date": ["date"], "td": ["td"], "obj": ["int", "str"]}
REDS = ["sum", "mean", "min", "max", "stdev", "stdev_pop", "any", "all"]
# fill values: (label, value)
FILLS = {
    "bool": [("same", True), ("int", 1), ("none", None), ("str", "z")],
    "int": [("same", 9), ("bool", True), ("float", 2.5), ("complex", 1j), ("none", None), ("str", "z")],
    "float": [("same", 9.5), ("int", 4), ("complex", 2j), ("none", None), ("str", "z"), ("nan", float("nan"))],
    "complex": [("same", 3 + 1j), ("float", 1.5), ("none", None), ("str", "z")],
    "str": [("same", "zz"), ("int", 0), ("none", None)],
    "date": [("same", datetime.date(2000, 2, 2)), ("datetime", DT(2001, 2, 3, 4, 5)), ("int", 0), ("none", None)],
    "td": [("same", datetime.timedelta(7)), ("int", 0), ("none", None)],
    # a fill value is ONE value, also when it happens to be iterable: every None position gets the tuple / list itself
    "obj": [("int", 0), ("str", "z"), ("none", None), ("float", 1.5), ("tuple", (0, 0)), ("tuple1", (7,)), ("list", [7, 8]), ("empty", ())],
}


def cval(t, i):
    if i is None:
        return None
    p = CPOOLS[t]
    return p[i % len(p)]


def cvals(t, idxs):
    return [cval(t, i) for i in idxs]


def cfill(rng, t, pattern):
    k = len(CPOOLS[t])
    return [None if isnone else rng.randrange(k) for isnone in pattern]


def all_patterns(maxlen=5):
    for n in range(maxlen + 1):
        for p in G.none_patterns(n):
            yield p


def y_patterns(rng, px):
    n = len(px)
    out = [tuple([False] * n), tuple(px), tuple(not b for b in px), tuple(rng.random() < 0.4 for _ in range(n))]
    seen, res = set(), []
    for p in out:
        if p not in seen:
            seen.add(p)
            res.append(p)
    return res


_DEFINED = {}


def defined(op, xt, yt, refl):
    """does Python define `x op y` (written order) for at least one pair of pool values?"""
    key = (op, xt, yt, refl)
    if key not in _DEFINED:
        ok = False
        for a in CPOOLS[xt]:
            for b in CPOOLS[yt]:
                l, r = (b, a) if refl else (a, b)
                try:
                    BINOPS[op](l, r)
                    ok = True
                    break
                except TypeError:
                    pass
                except Exception:
                    ok = True
                    break
            if ok:
                break
        _DEFINED[key] = ok
    return _DEFINED[key]


# ------------------------------------------------------------------------------------------------
# generation
# ------------------------------------------------------------------------------------------------
def gen_arith(rng, tier):
    maxlen = 5
    for op in BINOPS:
        for xt in CTYPES:
            for yt in PARTNERS[xt]:
                for form, refl in c05.FORMS:
                    if c05.excluded(op, form, refl, yt) or not defined(op, xt, yt, refl):
                        continue
                    ny = len(CPOOLS[yt])
                    for px in all_patterns(maxlen):
                        if form == "scalar":
                            yield {"fam": "bin", "op": op, "form": form, "refl": refl, "xt": xt, "yt": yt,
                                   "x": cfill(rng, xt, px), "s": rng.randrange(ny)}
                        else:
                            for py in y_patterns(rng, px):
                                d = {"fam": "bin", "op": op, "form": form, "refl": refl, "xt": xt, "yt": yt,
                                     "x": cfill(rng, xt, px), "y": cfill(rng, yt, py),
                                     "xtyped": rng.random() < 0.2, "ytyped": rng.random() < 0.2}
                                yield d
    for op in UNOPS:
        for xt in CTYPES:
            for px in all_patterns(maxlen if tier == "quick" else 7):
                yield {"fam": "unary", "op": op, "xt": xt, "x": cfill(rng, xt, px), "xtyped": rng.random() < 0.2}


def gen_cmp(rng, tier):
    for op in CMPOPS:
        for xt in CTYPES:
            for yt in CMP_PARTNERS[xt]:
                ny = len(CPOOLS[yt])
                for form in ("vec", "seq", "scalar"):
                    for px in all_patterns(5):
                        if form == "scalar":
                            yield {"fam": "cmp", "op": op, "form": form, "xt": xt, "yt": yt, "x": cfill(rng, xt, px),
                                   "s": rng.randrange(ny), "xtyped": rng.random() < 0.2}
                        else:
                            for py in y_patterns(rng, px):
                                xtyped = rng.random() < 0.2
                                ytyped = rng.random() < 0.2
                                yield {"fam": "cmp", "op": op, "form": form, "xt": xt, "yt": yt, "x": cfill(rng, xt, px),
                                       "y": cfill(rng, yt, py), "xtyped": xtyped, "ytyped": ytyped}
            # v <op> v, unequal lengths
            for n in (0, 1, 3):
                yield {"fam": "cmp", "op": op, "form": "vec", "xt": xt, "yt": xt, "same": True,
                       "x": cfill(rng, xt, [rng.random() < 0.4 for _ in range(n)]), "y": []}
            for n, m in ((0, 1), (1, 0), (2, 3), (3, 1), (5, 4)):
                for form in ("vec", "seq"):
                    yield {"fam": "cmp", "op": op, "form": form, "xt": xt, "yt": xt, "xtyped": True, "ytyped": True,
                           "x": cfill(rng, xt, [rng.random() < 0.3 for _ in range(n)]),
                           "y": cfill(rng, xt, [rng.random() < 0.3 for _ in range(m)])}
        # date vectors against ISO date strings: scalar, list and str vector, None patterns on both sides
        for px in all_patterns(4):
            yield {"fam": "cmp", "op": op, "form": "scalar", "xt": "date", "yt": "iso", "x": cfill(rng, "date", px),
                   "s": rng.randrange(3), "xtyped": True}
            for form in ("seq", "vec"):
                for py in y_patterns(rng, px):
                    yield {"fam": "cmp", "op": op, "form": form, "xt": "date", "yt": "iso", "x": cfill(rng, "date", px),
                           "y": [None if b else rng.randrange(4) for b in py], "xtyped": True,
                           "ytyped": rng.random() < 0.5}
        # date vectors against datetimes (scalar, list, datetime vector): the date is taken at midnight, None compares False
        for px in all_patterns(4):
            yield {"fam": "cmp", "op": op, "form": "scalar", "xt": "date", "yt": "dtm", "x": cfill(rng, "date", px),
                   "s": rng.randrange(4), "xtyped": True}
            for form in ("seq", "vec"):
                for py in y_patterns(rng, px):
                    yield {"fam": "cmp", "op": op, "form": form, "xt": "date", "yt": "dtm", "x": cfill(rng, "date", px),
                           "y": [None if b else rng.randrange(4) for b in py], "xtyped": True,
                           "ytyped": rng.random() < 0.5}
        # typed empty date vector against an untyped empty vector, both ways round (Python gives the subclass priority)
        yield {"fam": "cmp", "op": op, "form": "vec", "xt": "date", "yt": "date", "x": [], "y": [], "xtyped": True, "ytyped": False}
        yield {"fam": "cmp", "op": op, "form": "vec", "xt": "date", "yt": "date", "x": [], "y": [], "xtyped": False, "ytyped": True}


def gen_red(rng, tier):
    for red in REDS:
        for xt in CTYPES:
            for px in all_patterns(5 if tier == "quick" else 7):
                yield {"fam": "red", "red": red, "xt": xt, "x": cfill(rng, xt, px), "xtyped": rng.random() < 0.2}
            for n in (12, 60):
                for _ in range(2):
                    yield {"fam": "red", "red": red, "xt": xt, "x": cfill(rng, xt, [rng.random() < 0.3 for _ in range(n)])}
            # the same contents reached in other ways: by in-place writes after earlier reductions, and as a row of a table
            for via in ("warm", "warmcol", "rowiter", "rowindex"):
                for px in all_patterns(3):
                    yield {"fam": "red", "red": red, "xt": xt, "x": cfill(rng, xt, px), "via": via, "wform": rng.randrange(3)}
                yield {"fam": "red", "red": red, "xt": xt, "x": cfill(rng, xt, [rng.random() < 0.3 for _ in range(6)]), "via": via,
                       "wform": rng.randrange(3)}


def gen_na(rng, tier):
    for xt in CTYPES:
        for px in all_patterns(5 if tier == "quick" else 6):
            for fi in range(len(FILLS[xt])):
                yield {"fam": "na", "xt": xt, "x": cfill(rng, xt, px), "fill": fi,
                       "xtyped": (rng.random() < 0.5) if all(px) else False}
        for px in all_patterns(3):
            if any(px):
                yield {"fam": "na", "xt": xt, "x": cfill(rng, xt, px), "fill": 0, "xtyped": "declared"}
        # vectors whose dtype is nullable although they hold no None right now (or fewer than when the dtype was fixed): the
        # trailing None of a longer vector sliced / masked / indexed away, or overwritten in place
        for px in all_patterns(4):
            for fi in range(len(FILLS[xt])):
                for route in ("slice", "mask", "index", "write"):
                    yield {"fam": "na", "xt": xt, "x": cfill(rng, xt, px), "fill": fi, "route": route}


def gen_agg(rng, tier):
    for i in range(1500 if tier == "quick" else 40000):
        xt = rng.choice(["int", "float", "bool", "int", "float", "str", "date", "td", "complex"])
        n = rng.choice([1, 2, 3, 4, 6, 9])
        yield {"fam": "agg", "xt": xt, "x": cfill(rng, xt, [rng.random() < 0.35 for _ in range(n)]),
               "k": [rng.choice([1, 2, 3, None]) for _ in range(n)], "win": i % 3 == 2}


def gen_gaps(rng, tier):
    """gap analysis (builder gA): (1) vectors whose dtype was DECLARED with a plain Python type (non-nullable on paper, None in
    the data) under every operation, not only isna/dropna/fillna; (2) every family on vectors of 256-1200 elements; (3) tuples as
    the plain sequence of a comparison; (4) aggregates of two value columns with different None placement, of zero rows, of
    groups of hundreds of rows"""
    pats = [p for p in all_patterns(3) if any(p)]
    for xt in CTYPES:
        for px in pats:
            for op in BINOPS:
                yt = PARTNERS[xt][0]
                for form, refl in c05.FORMS:
                    if c05.excluded(op, form, refl, yt) or not defined(op, xt, yt, refl):
                        continue
                    d = {"fam": "bin", "op": op, "form": form, "refl": refl, "xt": xt, "yt": yt, "x": cfill(rng, xt, px),
                         "xtyped": "declared"}
                    if form == "scalar":
                        d["s"] = rng.randrange(len(CPOOLS[yt]))
                    else:
                        d["y"] = cfill(rng, yt, [False] * len(px))
                    yield d
            for op in UNOPS:
                yield {"fam": "unary", "op": op, "xt": xt, "x": cfill(rng, xt, px), "xtyped": "declared"}
            for op in CMPOPS:
                yt = CMP_PARTNERS[xt][0]
                for form in ("vec", "seq", "scalar"):
                    d = {"fam": "cmp", "op": op, "form": form, "xt": xt, "yt": yt, "x": cfill(rng, xt, px), "xtyped": "declared"}
                    if form == "scalar":
                        d["s"] = rng.randrange(len(CPOOLS[yt]))
                    else:
                        d["y"] = cfill(rng, yt, [False] * len(px))
                        d["seqkind"] = rng.choice(["list", "tuple"])
                    yield d
            for red in REDS:
                yield {"fam": "red", "red": red, "xt": xt, "x": cfill(rng, xt, px), "xtyped": "declared"}
    # size
    for xt in CTYPES:
        for n in (256, 300, 1200):
            px = [rng.random() < 0.3 for _ in range(n)]
            for red in REDS:
                yield {"fam": "red", "red": red, "xt": xt, "x": cfill(rng, xt, px)}
                yield {"fam": "red", "red": red, "xt": xt, "x": cfill(rng, xt, px), "via": "warm", "wform": rng.randrange(2)}
            for fi in range(len(FILLS[xt])):
                yield {"fam": "na", "xt": xt, "x": cfill(rng, xt, px), "fill": fi}
            yield {"fam": "na", "xt": xt, "x": cfill(rng, xt, px), "fill": 0, "xtyped": "declared"}
            yield {"fam": "na", "xt": xt, "x": cfill(rng, xt, px), "fill": 0, "route": rng.choice(["slice", "mask", "index", "write"])}
            for op in CMPOPS:
                yt = rng.choice(CMP_PARTNERS[xt])
                for form in ("vec", "seq", "scalar"):
                    d = {"fam": "cmp", "op": op, "form": form, "xt": xt, "yt": yt, "x": cfill(rng, xt, px)}
                    if form == "scalar":
                        d["s"] = rng.randrange(len(CPOOLS[yt]))
                    else:
                        d["y"] = cfill(rng, yt, [rng.random() < 0.3 for _ in range(n)])
                        d["seqkind"] = rng.choice(["list", "tuple"])
                    yield d
            for op in BINOPS:
                yt = rng.choice(PARTNERS[xt])
                form, refl = rng.choice(c05.FORMS)
                if c05.excluded(op, form, refl, yt) or not defined(op, xt, yt, refl):
                    continue
                d = {"fam": "bin", "op": op, "form": form, "refl": refl, "xt": xt, "yt": yt, "x": cfill(rng, xt, px)}
                if form == "scalar":
                    d["s"] = rng.randrange(len(CPOOLS[yt]))
                else:
                    d["y"] = cfill(rng, yt, [rng.random() < 0.3 for _ in range(n)])
                yield d
    # tuples as the plain sequence of a comparison, every None pattern up to length 3
    for op in CMPOPS:
        for xt in CTYPES:
            for px in all_patterns(3):
                for py in y_patterns(rng, px):
                    yield {"fam": "cmp", "op": op, "form": "seq", "xt": xt, "yt": CMP_PARTNERS[xt][0], "x": cfill(rng, xt, px),
                           "y": cfill(rng, CMP_PARTNERS[xt][0], py), "seqkind": "tuple"}
    # aggregates
    for i in range(400 if tier == "quick" else 8000):
        xt = rng.choice(["int", "float", "bool", "int", "float", "str", "date", "td", "complex"])
        n = rng.choice([0, 1, 2, 3, 4, 6, 9, 9, 300])
        yield {"fam": "agg", "xt": xt, "x": cfill(rng, xt, [rng.random() < 0.35 for _ in range(n)]),
               "y": cfill(rng, xt, [rng.random() < 0.35 for _ in range(n)]),
               "k": [rng.choice([1, 2, 3, None]) for _ in range(n)], "win": i % 3 == 2}
    for win in (False, True):
        for xt in ("int", "float", "str"):
            yield {"fam": "agg", "xt": xt, "x": [], "k": [], "win": win}


def generate(rng, tier):
    gens = [gen_arith(rng, tier), gen_cmp(rng, tier), gen_red(rng, tier), gen_na(rng, tier), gen_agg(rng, tier), gen_gaps(rng, tier)]
    weights = [16, 8, 1, 1, 1, 3]
    alive = list(range(len(gens)))
    while alive:
        for gi in list(alive):
            for _ in range(weights[gi]):
                try:
                    yield next(gens[gi])
                except StopIteration:
                    alive.remove(gi)
                    break
    # random longer vectors, every family
    for _ in range(4000 if tier == "quick" else 300000):
        xt = rng.choice(CTYPES)
        n = rng.randint(6, 40)
        px = [rng.random() < 0.3 for _ in range(n)]
        kind = rng.choice(["bin", "cmp", "red", "na"])
        if kind == "bin":
            yt = rng.choice(PARTNERS[xt])
            op = rng.choice(list(BINOPS))
            form, refl = rng.choice(c05.FORMS)
            if c05.excluded(op, form, refl, yt) or not defined(op, xt, yt, refl):
                continue
            d = {"fam": "bin", "op": op, "form": form, "refl": refl, "xt": xt, "yt": yt, "x": cfill(rng, xt, px)}
            if form == "scalar":
                d["s"] = rng.randrange(len(CPOOLS[yt]))
            else:
                d["y"] = cfill(rng, yt, [rng.random() < 0.3 for _ in range(n)])
            yield d
        elif kind == "cmp":
            yt = rng.choice(CMP_PARTNERS[xt])
            form = rng.choice(["vec", "seq", "scalar"])
            d = {"fam": "cmp", "op": rng.choice(list(CMPOPS)), "form": form, "xt": xt, "yt": yt, "x": cfill(rng, xt, px)}
            if form == "scalar":
                d["s"] = rng.randrange(len(CPOOLS[yt]))
            else:
                d["y"] = cfill(rng, yt, [rng.random() < 0.3 for _ in range(n)])
            yield d
        elif kind == "red":
            yield {"fam": "red", "red": rng.choice(REDS), "xt": xt, "x": cfill(rng, xt, px)}
        else:
            yield {"fam": "na", "xt": xt, "x": cfill(rng, xt, px), "fill": rng.randrange(len(FILLS[xt]))}


# ------------------------------------------------------------------------------------------------
# execution
# ------------------------------------------------------------------------------------------------
def cvector(t, xs, typed):
    from serif import Vector
    from serif.typing import DataType
    if typed == "declared":
        # the caller declares the kind with a plain Python type (Vector(..., dtype=object)): the declared dtype is
        # non-nullable whatever the data holds; isna / dropna / fillna must still agree on where the Nones are
        return Vector(list(xs), dtype=(object if t == "obj" else G.PYTYPE.get(t, object)))
    if typed and all(x is None for x in xs):
        return Vector(list(xs), dtype=DataType(G.PYTYPE.get(t, object), nullable=bool(xs)))
    return Vector(list(xs))


def bool_obs(r):
    from serif import Vector, Table
    if not isinstance(r, Vector) or isinstance(r, Table):
        return {"err": "other:not-a-vector:" + type(r).__name__}
    data = list(r)
    return {"ok": [1 if x is True else 0 if x is False else 2 for x in data], "dt": dtype_wire(r.schema()), "len": len(r)}


def bcode(f):
    try:
        r = f()
    except TypeError:
        return -2
    except Exception:
        return -1
    return 1 if r else 0


def cmp_wire(spec):
    from serif import Vector
    I = Interner()
    op = CMPOPS[spec["op"]]
    form = spec["form"]
    xs = cvals(spec["xt"], spec["x"])
    v = cvector(spec["xt"], xs, spec.get("xtyped", False))
    iso_mode = spec["yt"] == "iso"
    dtm_mode = spec["yt"] == "dtm"

    def oval(i):
        return None if i is None else (ISO[i % len(ISO)] if iso_mode else DTM[i % len(DTM)] if dtm_mode else cval(spec["yt"], i))
    case = {"op": spec["op"], "form": form, "xs": [I.uid(x) for x in xs], "dt": dtype_wire(v.schema())}
    if spec.get("same"):
        other, ys = v, xs
        case["ys"] = [I.uid(y) for y in ys]
        case["ydt"] = dtype_wire(v.schema())
        pairs = list(zip(xs, ys))
    elif form == "scalar":
        other = oval(spec["s"])
        case["s"] = I.uid(other)
        pairs = [(x, other) for x in xs]
    else:
        ys = [oval(i) for i in spec["y"]]
        other = cvector("str" if iso_mode else "datetime" if dtm_mode else spec["yt"], ys, spec.get("ytyped", False)) if form == "vec" \
            else (tuple(ys) if spec.get("seqkind") == "tuple" else list(ys))
        case["ys"] = [I.uid(y) for y in ys]
        if form == "vec":
            case["ydt"] = dtype_wire(other.schema())
        pairs = list(zip(xs, ys))
    py, iso, strs, dts, seen = [], [], set(), set(), set()
    for x, y in pairs:
        key = (I.uid(x), I.uid(y))
        if isinstance(y, str):
            strs.add(I.uid(y))
        if isinstance(y, datetime.datetime):
            dts.add(I.uid(y))
        if key in seen:
            continue
        seen.add(key)
        if x is not None and y is not None:
            py.append([key[0], key[1], bcode(lambda: op(x, y))])
        if iso_mode and form != "seq" and x is not None and y is not None:
            # what the date branch evaluates: bool(op(x, date.fromisoformat(y)))
            iso.append([key[0], key[1], bcode(lambda: op(x, datetime.date.fromisoformat(y)))])
        if dtm_mode and form != "seq" and x is not None and y is not None:
            # what the date branch evaluates: bool(op(datetime.combine(x, midnight), y))
            iso.append([key[0], key[1], bcode(lambda: op(datetime.datetime.combine(x, datetime.time(0, 0)), y))])
    case.update(py=py, iso=iso, strs=sorted(strs), dts=sorted(dts))
    r, err = G.run(lambda: op(v, other))
    impl = {"err": err} if err else bool_obs(r)
    return {"fam": "cmp", "case": case, "impl": impl}


def close(a, b):
    if isinstance(a, (float, complex)) and isinstance(b, (float, complex)) and type(a) is type(b):
        try:
            return cmath_close(a, b)
        except Exception:
            return False
    return False


def cmath_close(a, b):
    import cmath
    if a != a and b != b:
        return True
    return cmath.isclose(a, b, rel_tol=1e-9, abs_tol=1e-12)


def py_reduce(red, nn):
    """Python's own reduction of the None-free list"""
    if red == "sum":
        return sum(nn)
    if red == "min":
        return min(nn)
    if red == "max":
        return max(nn)
    if red == "any":
        return any(nn)
    if red == "all":
        return all(nn)
    if red == "count":
        return len(nn)
    if red == "mean":
        return sum(nn) / len(nn) if nn else None
    if red in ("stdev", "stdev_pop"):
        pop = 1 if red == "stdev_pop" else 0
        if len(nn) < 2:
            return None
        m = sum(nn) / len(nn)
        num = sum((x - m) * (x - m) for x in nn)
        return (num / (len(nn) - 1 + pop)) ** 0.5
    raise ValueError(red)


def oracle_code(I, red, nn):
    try:
        want = py_reduce(red, nn)
    except Exception:
        return -1, None
    return I.uid(want), want


def obs_scalar(I, got, want, want_code):
    """uid of an observed scalar; floats within tolerance of the oracle count as the oracle's value"""
    if want_code is not None and want_code >= 0 and (got is want or close(got, want)):
        return want_code
    if isinstance(got, bool) or got is None or isinstance(got, (int, float, complex, str, datetime.date, datetime.timedelta)):
        return I.uid(got)
    return I.uid(("non-scalar", type(got).__name__, repr(got)[:60]))


def red_wire(spec):
    I = Interner()
    xs = cvals(spec["xt"], spec["x"])
    v = cvector(spec["xt"], xs, spec.get("xtyped", False))
    red = spec["red"]
    nn = [x for x in xs if x is not None]
    code, want = oracle_code(I, red, nn)

    def reduce_(v, red=red):
        if red == "stdev":
            return v.stdev()
        if red == "stdev_pop":
            return v.stdev(population=True)
        return getattr(v, red)()
    via = spec.get("via", "direct")
    pool_ = CPOOLS[spec["xt"]] if spec["xt"] in CPOOLS else None
    if via != "direct" and (not xs or pool_ is None):
        via = "direct"
    if via in ("warm", "warmcol"):
        # the same contents reached by in-place writes after every reduction has been called on None-free contents of the
        # same kind: nothing remembered by the earlier calls may survive the writes
        from serif import Table
        full = [x if x is not None else pool_[i % len(pool_)] for i, x in enumerate(xs)]
        if via == "warm":
            v = cvector(spec["xt"], full, False)
            holder = None
        else:
            holder = Table({"c": full, "d": list(range(len(full)))})
            v = holder["c"]
        for r0 in ("sum", "min", "max", "mean", "any", "all", "stdev"):
            G.run(lambda: reduce_(v, r0))
        form = spec.get("wform", 0) % 3
        for i, x in enumerate(xs):
            if x is None:
                if holder is not None and form == 2:
                    holder[i, "c"] = None
                elif form == 1:
                    v[i:i + 1] = [None]
                else:
                    v[i] = None
    elif via in ("rowiter", "rowindex"):
        # the same contents as a row of a table: the i-th row view (iteration hands out one reused Row object; every
        # earlier row - without None - is reduced first)
        from serif import Table
        full = [x if x is not None else pool_[i % len(pool_)] for i, x in enumerate(xs)]
        holder = Table({"c%d" % j: [full[j], xs[j], full[j]] for j in range(len(xs))})
        if via == "rowindex":
            G.run(lambda: reduce_(holder[0]))
            v = holder[1]
        else:
            v = None
            for i, row in enumerate(holder):
                if i == 0:
                    for r0 in ("sum", "min", "max", "mean", "any", "all", "stdev"):
                        G.run(lambda: reduce_(row, r0))
                if i == 1:
                    v = row
                    break
    r, err = G.run(lambda: reduce_(v))
    n, _ = G.run(lambda: len(v))
    impl = {"err": err, "len": n} if err else {"ok": obs_scalar(I, r, want, code), "len": n}
    return {"fam": "red", "case": {"red": red, "xs": [I.uid(x) for x in xs], "key": [I.uid(x) for x in nn], "res": code},
            "impl": impl}


def vec_dt_obs(I, r):
    from serif import Vector, Table
    if not isinstance(r, Vector) or isinstance(r, Table):
        return {"err": "other:not-a-vector:" + type(r).__name__}
    return {"ok": [I.uid(x) for x in list(r)], "dt": dtype_wire(r.schema())}


def na_wire(spec):
    I = Interner()
    xs = cvals(spec["xt"], spec["x"])
    v = cvector(spec["xt"], xs, spec.get("xtyped", False))
    route = spec.get("route")
    if route:
        try:
            n = len(xs)
            if route == "write":
                nn = [e for e in xs if e is not None]
                if not nn:
                    return {"skip": "nothing to overwrite the None with"}
                w = cvector(spec["xt"], xs + [None], False)
                w[n] = nn[0]
                xs = xs + [nn[0]]
                v = w
            else:
                w = cvector(spec["xt"], xs + [None], False)
                v = w[:n] if route == "slice" else w[[True] * n + [False]] if route == "mask" else w[list(range(n))]
            if list(v) != xs and not (len(xs) == 0):
                return {"skip": "route did not produce the intended contents"}
            if len(xs) == 0:
                return {"skip": "empty selection"}
        except Exception as e:
            return {"skip": "route raised " + type(e).__name__}
    label, x = FILLS[spec["xt"]][spec["fill"] % len(FILLS[spec["xt"]])]
    conv = []
    if x is not None:
        tx = type(x)
        for e in xs:
            if e is None:
                continue
            try:
                if tx is float:
                    c = float(e)
                elif tx is complex:
                    c = complex(e)
                elif tx is DT:
                    c = DT.combine(e, DT.min.time())
                else:
                    continue
            except Exception:
                continue
            conv.append([I.uid(e), I.uid(c)])
    case = {"xs": [I.uid(e) for e in xs], "dt": dtype_wire(v.schema()), "x": I.uid(x),
            "xkind": 0 if x is None else kind_code(type(x)), "conv": conv, "fill": label}
    r1, e1 = G.run(lambda: v.isna())
    r2, e2 = G.run(lambda: v.dropna())
    r3, e3 = G.run(lambda: v.fillna(x))
    impl = {"isna": {"err": e1} if e1 else bool_obs(r1),
            "dropna": {"err": e2} if e2 else vec_dt_obs(I, r2),
            "fillna": {"err": e3} if e3 else vec_dt_obs(I, r3)}
    return {"fam": "na", "case": case, "impl": impl}


AGGS = ["sum", "mean", "min", "max", "count", "stdev"]


def agg_oracle(I, a, nn):
    """aggregate of a group's None-free values; a group without values aggregates to None (sum 0, count 0)"""
    if a in ("min", "max", "mean", "stdev") and not nn:
        return 0, None
    return oracle_code(I, a, nn)


def agg2_wire(spec):
    """two value columns with their own None placement under every aggregate at once: each (group, column, aggregate) is one item"""
    from serif import Table
    I = Interner()
    cols_in = [cvals(spec["xt"], spec["x"]), cvals(spec["xt"], spec["y"])]
    ks = spec["k"]
    try:
        t = Table({"k": ks, "x": cols_in[0], "y": cols_in[1]})
    except Exception as e:
        return {"skip": "could not build the table: " + type(e).__name__}
    if ks and all(k is None for k in ks):
        return {"skip": "all-None key column"}
    f = t.window if spec.get("win") else t.aggregate
    both = lambda: [t.x, t.y]
    r, err = G.run(lambda: f(over=t.k, sum_over=both(), mean_over=both(), min_over=both(), max_over=both(),
                             count_over=both(), stdev_over=both()))
    groups = {}
    for i, k in enumerate(ks):
        groups.setdefault(k, []).append(i)
    items, got = [], []
    if err:
        for k, rows in groups.items():
            for c in cols_in:
                g = [c[i] for i in rows]
                nn = [x for x in g if x is not None]
                for a in AGGS:
                    code, _ = agg_oracle(I, a, nn)
                    items.append({"name": a, "xs": [I.uid(x) for x in g], "key": [I.uid(x) for x in nn], "res": code})
        if not items:
            return {"fam": "agg", "case": {"items": []}, "impl": {"err": err}}
        return {"fam": "agg", "case": {"items": items}, "impl": {"err": err}}
    cols = list(r.cols())
    if len(cols) != 1 + 2 * len(AGGS):
        return {"fam": "agg", "case": {"items": []}, "impl": {"err": "other:unexpected-columns"}, "py_fail":
                f"aggregate returned {len(cols)} columns"}
    for row, k in enumerate(list(cols[0])):
        rows = groups.get(k)
        if rows is None:
            return {"skip": "group key not found (C12)"}
        for j, a in enumerate(AGGS):
            for ci, c in enumerate(cols_in):
                g = [c[i] for i in rows]
                nn = [x for x in g if x is not None]
                code, want = agg_oracle(I, a, nn)
                items.append({"name": a, "xs": [I.uid(x) for x in g], "key": [I.uid(x) for x in nn], "res": code})
                got.append(obs_scalar(I, list(cols[1 + 2 * j + ci])[row], want, code))
    return {"fam": "agg", "case": {"items": items}, "impl": {"ok": got}}


def agg_wire(spec):
    from serif import Table
    I = Interner()
    xs = cvals(spec["xt"], spec["x"])
    ks = spec["k"]
    if "y" in spec:
        return agg2_wire(spec)
    try:
        t = Table({"k": ks, "x": xs})
    except Exception as e:
        return {"skip": "could not build the table: " + type(e).__name__}
    if ks and all(k is None for k in ks):
        return {"skip": "all-None key column"}
    # window() computes the same per-group aggregates and hands them to every row of the group: the loop below looks each
    # output row's group up by its key, so it judges both forms
    f = t.window if spec.get("win") else t.aggregate
    r, err = G.run(lambda: f(over=t.k, sum_over=t.x, mean_over=t.x, min_over=t.x, max_over=t.x,
                             count_over=t.x, stdev_over=t.x))
    groups = {}
    for k, x in zip(ks, xs):
        groups.setdefault(k, []).append(x)
    if err:
        # the whole call raises iff some aggregate of some group raises in Python: judged leniently as one item
        items = []
        for k, g in groups.items():
            nn = [x for x in g if x is not None]
            for a in AGGS:
                code, _ = agg_oracle(I, a, nn)
                items.append({"name": a, "xs": [I.uid(x) for x in g], "key": [I.uid(x) for x in nn], "res": code})
        return {"fam": "agg", "case": {"items": items}, "impl": {"err": err}}
    cols = list(r.cols())
    if len(cols) != 1 + len(AGGS):
        return {"fam": "agg", "case": {"items": []}, "impl": {"err": "other:unexpected-columns"}, "py_fail":
                f"aggregate returned {len(cols)} columns"}
    keys_out = list(cols[0])
    items, got = [], []
    for row, k in enumerate(keys_out):
        g = groups.get(k)
        if g is None:
            return {"skip": "group key not found (C12)"}
        nn = [x for x in g if x is not None]
        for j, a in enumerate(AGGS):
            code, want = agg_oracle(I, a, nn)
            items.append({"name": a, "xs": [I.uid(x) for x in g], "key": [I.uid(x) for x in nn], "res": code})
            got.append(obs_scalar(I, list(cols[1 + j])[row], want, code))
    return {"fam": "agg", "case": {"items": items}, "impl": {"ok": got}}


def execute(spec):
    fam = spec["fam"]
    if fam == "bin":
        return c05.binary_wire(_objify(spec), "bin")
    if fam == "unary":
        return c05.unary_wire(_objify(spec), "unary")
    if fam == "cmp":
        return cmp_wire(spec)
    if fam == "red":
        return red_wire(spec)
    if fam == "na":
        return na_wire(spec)
    if fam == "agg":
        return agg_wire(spec)
    raise ValueError(fam)


def _objify(spec):
    return spec


# ------------------------------------------------------------------------------------------------
# reporting
# ------------------------------------------------------------------------------------------------
def nontrivial(spec, wire):
    case = wire["case"]
    fam = spec["fam"]
    if fam in ("bin", "unary"):
        if fam == "bin" and c05._typeerr(case):
            return False
        return 0 in case["xs"] or 0 in case.get("ys", [])
    if fam == "cmp":
        return 0 in case["xs"] or 0 in case.get("ys", [])
    if fam == "red":
        return case["res"] >= 0
    return True


def histogram(spec, wire):
    case, impl = wire["case"], wire["impl"]
    fam = spec["fam"]
    out = []
    if fam in ("bin", "unary", "cmp", "red", "na"):
        xs = case["xs"]
        n, k = len(xs), xs.count(0)
        out.append(f"{fam}:len{n if n <= 5 else '6+'}")
        out.append(f"{fam}:nones:" + ("0" if k == 0 else "all" if k == n else "some"))
        out.append(f"{fam}:type:{spec['xt']}")
    if fam == "bin":
        out += [f"bin:op:{spec['op']}", "bin:form:" + ("r" if spec["refl"] else "") + spec["form"],
                "bin:" + ("raised" if "err" in impl else "returned")]
        if c05._typeerr(case):
            out.append("bin:python-TypeError(skip)")
    elif fam == "unary":
        out.append(f"unary:{spec['op']}")
    elif fam == "cmp":
        out += [f"cmp:op:{spec['op']}", f"cmp:form:{spec['form']}", "cmp:" + ("raised" if "err" in impl else "returned")]
        if spec["yt"] == "iso":
            out.append("cmp:date-vs-iso")
        if any(r[-1] < 0 for r in case["py"]):
            out.append("cmp:python-raises")
    elif fam == "red":
        out += [f"red:{spec['red']}", "red:" + ("python-raises" if case["res"] < 0 else "defined"),
                "red:" + ("raised" if "err" in impl else "returned")]
    elif fam == "na":
        out += [f"na:fill:{case['fill']}", "na:fillna-" + ("raised" if "err" in impl["fillna"] else "returned"),
                "na:dropna-" + ("raised" if "err" in impl["dropna"] else "returned")]
    elif fam == "agg":
        out += [f"agg:type:{spec['xt']}", "agg:" + ("raised" if "err" in impl else "returned"),
                f"agg:groups{len(set(spec['k']))}"]
    return out


def known_territory(spec):
    """static description of the inputs of recorded known findings (none at present): shrinking must not slide a new
    failure into the input region of a known one, or it would be reported as known"""
    return False


def shrink(spec):
    inside = known_territory(spec)
    for cand in _shrink(spec):
        if inside or not known_territory(cand):
            yield cand


def _shrink(spec):
    fam = spec["fam"]
    x = spec.get("x", [])
    if fam == "bin":
        yield from c05._shrink(spec)
        return
    for i in range(len(x)):
        d = dict(spec, x=x[:i] + x[i + 1:])
        if "y" in spec and i < len(spec["y"]):
            d["y"] = spec["y"][:i] + spec["y"][i + 1:]
        if "k" in spec:
            d["k"] = spec["k"][:i] + spec["k"][i + 1:]
        yield d
    if "y" in spec and len(spec["y"]) > len(x):
        yield dict(spec, y=spec["y"][:-1])
    for i, xi in enumerate(x):
        if xi not in (None, 0):
            yield dict(spec, x=x[:i] + [0] + x[i + 1:])


def snippet(spec):
    fam = spec["fam"]
    if fam in ("bin", "unary"):
        _objify(spec)
        return c05.snippet(spec)
    xs = cvals(spec["xt"], spec.get("x", []))
    typed = spec.get("xtyped", False)
    vsrc = G.vec_src(spec["xt"], xs, typed)
    if fam == "cmp":
        iso_mode = spec["yt"] == "iso"
        dtm_mode = spec["yt"] == "dtm"

        def oval(i):
            return None if i is None else (ISO[i % len(ISO)] if iso_mode else DTM[i % len(DTM)] if dtm_mode else cval(spec["yt"], i))
        if spec.get("same"):
            osrc = "v"
        elif spec["form"] == "scalar":
            osrc = G.pyrepr(oval(spec["s"]))
        else:
            ys = [oval(i) for i in spec["y"]]
            osrc = G.vec_src("str" if iso_mode else "datetime" if dtm_mode else spec["yt"], ys, spec.get("ytyped", False)) if spec["form"] == "vec" \
                else G.pyrepr(ys)
        return (G.HEADER + f"v = {vsrc}\nother = {osrc}\nr = v {CMPSYM[spec['op']]} other\n"
                "print(list(r), r.schema())   # expected: False wherever either side is None, <bool> non-nullable")
    if fam == "red":
        call = {"stdev": "v.stdev()", "stdev_pop": "v.stdev(population=True)"}.get(spec["red"], f"v.{spec['red']}()")
        return (G.HEADER + f"v = {vsrc}\nprint({call}, len(v))   # expected: the reduction of [x for x in v if x is not None]")
    if fam == "na":
        label, x = FILLS[spec["xt"]][spec["fill"] % len(FILLS[spec["xt"]])]
        xsrc = "datetime(2001, 2, 3, 4, 5)" if isinstance(x, DT) else G.pyrepr(x)
        return (G.HEADER + "from datetime import datetime\n" + f"v = {vsrc}\nx = {xsrc}\n"
                "print(list(v.isna()))\nd = v.dropna(); print(list(d), d.schema())\n"
                "f = v.fillna(x); print(list(f), f.schema())")
    if fam == "agg":
        return (G.HEADER + f"t = Table({{'k': {spec['k']!r}, 'x': {G.pyrepr(xs)}}})\n"
                f"r = t.{'window' if spec.get('win') else 'aggregate'}(over=t.k, sum_over=t.x, mean_over=t.x, min_over=t.x, max_over=t.x, count_over=t.x, stdev_over=t.x)\n"
                "print([list(c) for c in r.cols()])   # expected: each aggregate over the group's non-None values")
    return repr(spec)


KNOWN = {}

LEVEL_TEXT = ("Proof (Lean 4, for every element type and every scalar semantics): none_propagates (all operand forms), "
              "none_propagates_vector (all 7 operators, direct and reflected, _Date.__add__), none_propagates_unary, "
              "not_none_elsewhere; compare_none_false, compare_pointwise, compare_result_nonnullable_bool, compare_model_conforms, "
              "compare_length_mismatch_errors; reduction_skips_none (any function of the None-free list), "
              "reduction_ignores_none_at, reduction_eq_on_dropped, reduction_loop_skips_none (skip-in-loop = fold over the "
              "None-free list, any step function), builtin_reductions_skip_none (sum/mean/min/max/stdev/any/all as folds over "
              "abstract arithmetic), len_counts_none; isna_spec, dropna_spec, fillna_pointwise, fillna_compatible_untouched, "
              "fillna_dropna_nonnullable, fillna_dropna_agree, dropna_eq_filter_isna (every vector, typed or not), "
              "date_compare_none_false (_Date._elementwise_compare, every operand). No _partial theorem remains. Sampled "
              "only: that the model is the code (differential run over every None subset up to length 5 for every dtype and "
              "operation) and Python's scalar / reduction results (oracles computed by Python).")
LEVEL_NOTE = ("Trusted: Lean kernel, axioms propext/Classical.choice/Quot.sound only; harness + driver; scalar semantics and the "
              "reduction of a None-free list are parameters (oracle = Python). Grouping of Table.aggregate rows is done by the "
              "harness (C12's subject). validate_scalar / _promote decisions come from the typing model proved equal to the "
              "tables regenerated from the source (C04).")
