"""C07 — masks and indexing follow Python sequence semantics and compose."""
import itertools, operator, datetime, math
from values import Interner, dtype_wire, err_class

PID = "C07"
RULE = ("vget: every slice with start, stop in {None,-7..7} and step in {None,±1,±2,±3,0} on vectors of length 0..5 (thorough: -9..9, length 0..7; judged against "
        "list(v)[key] and the Lean model of slice.indices/range), every int index -8..8, every boolean mask of length n-1, n, n+1 for "
        "n<=4 (6 thorough) as list, Vector and 1-tuple, every int index list/Vector of length <=3 over -n-1..n for n<=3, a malformed "
        "stream (empty list, mixed/None/float members, nullable/untyped/str Vectors, wrong tuples, self as key) and random long "
        "vectors with huge slice members; slen: typeutils.slice_length on the same slice domain plus random big ints against "
        "len(range(*s.indices(n))); cmp: ==,!=,<,<=,>,>=,&,|,^ on all ordered pairs of 12 scalars (None, bool, int, float, nan, str, "
        "date) in Vector/list/tuple/scalar/reflected form plus random vectors with None and length mismatches, and the logical NOT "
        "~v on every vector over {True, False, None} up to length 4 (None an ordinary operand of Python's `not`), scalar results "
        "taken from Python; tget: string keys (exact, case variants, sanitised base, base__idx, col<idx>_, missing), name tuples to "
        "length 3 with repeats and missing names, row slices/masks/int/int-Vector keys and the 2-D forms on five name layouts x 0..3 "
        "rows; tcomm: t[rows][names] versus t[names][rows]; states (_gen_states, yielded first): the vget keys on vectors whose dtype is "
        "DECLARED wider than the contents (nullable without None, object over one kind), that were indexed/fingerprinted and then "
        "overwritten in place, that are live column views or row-displayed twins, with key Vectors that carry a name or a nullable "
        "dtype, the same on vectors of 65/300/1001 elements; comparisons with iterable scalars (multi-character str, bytes, bytearray, "
        "also of the vector's own length) and with range operands on either side, on declared-wider and in-place-promoted (int->float) "
        "vectors; tables indexed by their OWN live bool/int columns and by named key Vectors. non-trivial = the key selects a proper, non-empty part, or raises, or "
        "a comparison involves None / a True and a False result, or a name resolves through a sanitised form / is repeated / missing")
ASSUMPTIONS = ["vectors are 1-D and tables are 2-D with at least one column (nested vectors/tables are not modelled)",
               "slice members and subscripts are None or exact ints/bools (objects with __index__ are not modelled)",
               "column names are str or None",
               "_Date vectors compared with str / datetime operands are excluded (documented departure from Python's comparison)",
               "str.lower, _sanitize_user_name and every scalar comparison are taken from Python as oracle tables",
               "t[i, 'name'] (Row attribute protocol) is left to C17; a Table indexed by a plain int list (returns None) is outside the quantifier",
               "the exception class is not judged, only error versus result"]
BUDGET_S = {"quick": 30, "thorough": 400}

D, DT = datetime.date, datetime.datetime
# value table: specs refer to values by index so that they stay JSON and shrink structurally
VALS = [None, True, False, 0, 1, 2, 3, -1, 10, 11, 12, 13, 14, 15,          # 0..13
        0.5, 1.5, 2.0, -1.0, float("nan"),                                     # 14..18
        "a", "b", "c", "", "B", "d", "e",                                      # 19..25
        D(2020, 1, 1), D(2021, 6, 1), DT(2020, 1, 1, 0, 0), b"a", (1, 2), 1 + 2j,    # 26..31
        DT(2020, 1, 1, 5, 30),                                                     # 32
        # ints and floats that are equal only after rounding (Python compares int with float exactly), an int beyond float range
        2.0 ** 53, 2 ** 53 + 1, 2 ** 53, 1e16, 10 ** 16 + 1, 10 ** 400, float("inf"), -0.0,   # 33..40
        # scalars that are themselves iterable-with-a-length (a comparison must take them as ONE value, never spread them over the
        # positions), and the items they would spread into
        "ab", b"ab", bytearray(b"ab"), 97, 98, b"b", "abc"]                           # 41..47
IX = {"int": [8, 9, 10, 11, 12, 13], "intn": [8, 0, 10, 0, 12, 13], "str": [19, 20, 21, 24, 25, 23],
      "strn": [0, 19, 0, 21, 24, 25], "float": [14, 15, 16, 17, 14, 15], "dup": [4, 4, 5, 4, 5, 5],
      "bool": [1, 2, 1, 1, 2, 2], "obj": [4, 19, 15, 0, 30, 29], "date": [26, 27, 26, 0, 27, 26], "none": [0, 0, 0, 0, 0, 0]}
DTYPES = {"int": int, "bool": bool, "str": str, "float": float, "date": D}
OPS = {"eq": operator.eq, "ne": operator.ne, "lt": operator.lt, "le": operator.le, "gt": operator.gt, "ge": operator.ge,
       "and": operator.and_, "or": operator.or_, "xor": operator.xor}

SLICE_MEMBERS = [None] + list(range(-7, 8))
SLICE_STEPS = [None, 1, -1, 2, -2, 3, -3, 0]
LAYOUTS = [["a", "b", "A b"], ["a", "a", None, "sum", "!!"], ["Total $", "total__1", "1x", "x_"], [None], ["k"],
           ["A b", "a_b", "B", "b"]]


# ------------------------------------------------------------------------------------------------
# generation
# ------------------------------------------------------------------------------------------------

def _vec(pool, n, name=None, dtype=None):
    s = {"vals": IX[pool][:n] if n <= 6 else [IX[pool][i % 6] for i in range(n)], "name": name}
    if dtype:
        s["dtype"] = dtype
    return s


def _masks(m):
    return [list(b) for b in itertools.product([True, False], repeat=m)]


def _table(layout, nrows, variant=0):
    pools = ["int", "strn", "float", "intn", "str"]
    return [{"name": nm, "vals": IX[pools[(i + variant) % 5]][:nrows]} for i, nm in enumerate(layout)]


def _in_scope(k):
    """mirror of keyInScope in lean/Serif/Drive/C07.lean (only used for the statistics)"""
    t = k["t"]
    if t in ("int", "slice", "name", "names"):
        return True
    if t == "tuple":
        return len(k["items"]) == 1 and _in_scope(k["items"][0])
    if t in ("list", "vec"):
        es = k["es"]
        if t == "list":
            return bool(es) and (all(type(e) is bool for e in es) or all(type(e) is int for e in es))
        if k.get("nullable"):
            return False
        if k.get("dtype") in ("bool", "int"):
            return all(type(e) in (bool, int) for e in es)
        return bool(es) and (all(type(e) is bool for e in es) or all(type(e) is int for e in es))
    if t in ("self", "col"):
        return True
    return False


def _keys_for(layout):
    from serif.naming import _sanitize_user_name
    ks = []
    for i, nm in enumerate(layout):
        if nm is not None:
            s = _sanitize_user_name(nm)
            ks += [nm, nm.upper()] + ([s, f"{s}__{i}", f"{s}__{i + 1}", f"{s.upper()}__{i}"] if s else [])
        ks += [f"col{i}_", f"COL{i}_"]
    ks += ["zz", "", "col9_"]
    out = []
    for k in ks:
        if k not in out:
            out.append(k)
    return out


def _row_keys(n, rng, full):
    keys = []
    mem = [None, -4, -1, 0, 1, 2, 5]
    steps = [None, 1, -1, 2, -2, 0]
    sl = [[a, b, c] for a in mem for b in mem for c in steps]
    if not full:
        sl = rng.sample(sl, 40)
    keys += [{"t": "slice", "s": s} for s in sl]
    for m in (n - 1, n, n + 1):
        if m >= 0:
            for b in _masks(m):
                keys.append({"t": "list", "es": b})
                keys.append({"t": "vec", "es": b, "dtype": "bool"})
    for es in ([0], [-1, 0], [n], [n - 1, 0, 0], [-n - 1], []):
        keys.append({"t": "vec", "es": es, "dtype": "int"})
    # keys that are no row selection at all: a nullable mask, a list of positions, a list with a None, an untyped empty vector,
    # a float, None — each must be refused (an error), not answered with None
    keys.append({"t": "vec", "es": [True, None, False][:max(n, 2)]})
    keys.append({"t": "vec", "es": [None] * n})
    keys.append({"t": "list", "es": [0, n - 1] if n else [0]})
    keys.append({"t": "list", "es": [True, None][:max(n, 1)] + [False] * max(0, n - 2)})
    keys.append({"t": "vec", "es": []})
    keys.append({"t": "other", "v": 1.5})
    keys.append({"t": "other", "v": None})
    return keys


def _warm_variants(rng, spec):
    k = spec.get("key", {})
    if k.get("t") == "vec" and k.get("es") and all(type(e) is bool for e in k["es"]):
        pre = [rng.random() < 0.5 for _ in k["es"]]
        if pre != k["es"]:
            yield dict(spec, warm={"pre": pre, "fp": rng.random() < 0.5})
    elif k.get("t") == "vec" and k.get("es") and all(type(e) is int for e in k["es"]):
        pre = [0 for _ in k["es"]]
        if pre != k["es"]:
            yield dict(spec, warm={"pre": pre, "fp": rng.random() < 0.5})


def generate(rng, tier):
    yield from _gen_states(rng, tier)       # small and scripted: first, so that a budget stop under load never drops it
    for spec in _generate(rng, tier):
        yield spec
        if spec.get("fam") == "vget" and spec.get("key", {}).get("t") == "vec" and rng.random() < 0.3:
            yield from _warm_variants(rng, spec)


# pools whose elements all have one kind (a dtype can be DECLARED for them), with that kind
DECL_KIND = {"int": "int", "dup": "int", "intn": "int", "strn": "str", "str": "str", "float": "float", "bool": "bool"}


def _state_keys(n):
    ks = [{"t": "slice", "s": s} for s in ([None, None, None], [1, None, None], [None, None, -1], [0, 0, None], [None, None, 2],
                                            [-2, None, None], [5, 9, None], [None, -1, None])]
    ks += [{"t": "int", "i": i} for i in (0, -1, n)]
    for bits in _masks(n):
        ks.append({"t": "list", "es": bits})
        ks.append({"t": "vec", "es": bits, "dtype": "bool"})
    ks.append({"t": "vec", "es": [True] * (n + 1), "dtype": "bool"})
    for es in ([0], [n - 1, 0], [-1, -1, 0], [n]):
        ks.append({"t": "list", "es": es})
        ks.append({"t": "vec", "es": es, "dtype": "int"})
    return ks


def _gen_states(rng, tier):
    """the same selections and comparisons on operands in a STATE the plain constructors never produce: a dtype declared wider than
    the contents (nullable without a None, object over one kind), a vector that was indexed (and fingerprinted) before and then
    overwritten in place, a live column view of a table, a row-displayed vector, a key vector that carries a name or is declared
    nullable; a table indexed by one of its OWN live columns; scalars that are iterable (multi-character str, bytes, bytearray)
    and iterables that are neither list nor tuple (range) as comparison operands"""
    states = [{"decl": "nullable"}, {"decl": "object"}, {"decl": "object?"}, {"src": "warm", "fp": True}, {"src": "warm", "fp": False},
              {"src": "view"}, {"src": "row"}, {"kname": "k"}, {"kdecl": "nullable"}]
    for n in range(0, 5):
        keys = _state_keys(n)
        for pool in ("int", "strn", "dup", "float"):
            for st in states:
                for k in keys:
                    if ("kname" in st or "kdecl" in st) and k["t"] != "vec":
                        continue
                    spec = dict(_vec(pool, n, "x" if pool != "strn" else None), fam="vget", key=k)
                    if "decl" in st:
                        spec["decl"] = [DECL_KIND[pool] if st["decl"] == "nullable" else "object", st["decl"] != "object"]
                    elif "src" in st:
                        spec["src"] = dict(st)
                    elif "kname" in st:
                        spec["key"] = dict(k, name="k")
                    else:
                        spec["key"] = dict(k, nullable=True)
                    yield spec
    # long vectors in the same states (a strategy switch by size must not depend on how the vector came about)
    for n in (65, 300, 1001):
        for pool in ("int", "strn"):
            for st in ({"decl": "nullable"}, {"src": "warm", "fp": True}, {"src": "view"}, {}):
                for k in ({"t": "slice", "s": [None, None, -3]}, {"t": "slice", "s": [n, None, None]}, {"t": "int", "i": -n},
                          {"t": "vec", "es": [i % 3 == 0 for i in range(n)], "dtype": "bool"},
                          {"t": "list", "es": [i % 7 == 1 for i in range(n)]},
                          {"t": "vec", "es": [n - 1, 0, -n, 5], "dtype": "int", "name": "k"}, {"t": "list", "es": [-1, n // 2]}):
                    spec = dict(_vec(pool, n, "x"), fam="vget", key=k)
                    if "decl" in st:
                        spec["decl"] = [DECL_KIND[pool], True]
                    elif "src" in st:
                        spec["src"] = dict(st)
                    yield spec
    # ---- comparisons with scalars that are iterable: one value, whatever its length (equal to the vector's or not)
    for op in OPS:
        for xs in ([19, 20], [41, 41], [44, 45], [44], [19], [42, 46], [45, 0], [41, 47, 19], [43, 43], [4, 5]):
            for y in (41, 42, 43, 47, 46):
                for form in ("scalar", "rscalar"):
                    yield {"fam": "cmp", "op": op, "xs": xs, "other": {"t": form, "ys": [y]}}
        # ---- range (an iterable with a length that is neither list nor tuple nor Vector) as the other operand, both sides
        for xs in ([3, 4], [4, 3, 5], [0, 4], [3, 14, 5, 6], [], [1, 2], [16]):
            for m in sorted({len(xs), max(0, len(xs) - 1), min(4, len(xs) + 1)}):
                for form in ("range", "rrange"):
                    yield {"fam": "cmp", "op": op, "xs": xs, "other": {"t": form, "ys": [3, 4, 5, 6, 10][:m]}, "xdtype": "int" if not xs else None}
    # ---- comparison operands in a state: declared-wider dtype, promoted in place int -> float (elements converted), named
    for op in OPS:
        for xs, decl in (([34, 35], ["int", True]), ([34, 4, 0], ["object", True]), ([33, 36], ["float", True]), ([1, 2], ["bool", True]),
                         ([4, 1, 14], ["object", False])):
            for form, ys in (("scalar", [33]), ("scalar", [34]), ("vec", [33, 34, 4][:len(xs)]), ("list", [35, 35, 35][:len(xs)]),
                             ("rscalar", [4]), ("self", [])):
                yield {"fam": "cmp", "op": op, "xs": xs, "other": {"t": form, "ys": ys or xs}, "xdecl": decl}
        for xs in ([34, 35], [37, 4]):
            for form, ys in (("scalar", [34]), ("scalar", [33]), ("vec", [34, 37]), ("rscalar", [37]), ("self", [])):
                yield {"fam": "cmp", "op": op, "xs": xs, "other": {"t": form, "ys": ys or xs}, "promote": [1, 14]}
    # ---- a table indexed by one of its OWN live columns (bool column as mask, int column as positions), and by named key vectors
    for nrows in range(0, 4):
        own = [{"name": "m", "vals": [1, 2, 1][:nrows]}, {"name": "x", "vals": IX["int"][:nrows]}, {"name": None, "vals": IX["strn"][:nrows]},
               {"name": "p", "vals": [[3], [4, 3], [4, 3, 7]][max(nrows, 1) - 1][:nrows]}, {"name": "M", "vals": [2, 2, 1][:nrows]}]
        for cols in (own, own[:2], own[1:4], [own[0]], [own[3]], own[::-1]):
            for j, c in enumerate(cols):
                if c["name"] not in ("m", "p", "M"):
                    continue
                yield {"fam": "tget", "cols": cols, "key": {"t": "row", "key": {"t": "col", "j": j}}}
                for names in (["x"], ["m", "x"], ["x", "m", "m"], ["p"], ["M", "p"], ["col2_"], ["zz"]):
                    yield {"fam": "tcomm", "cols": cols, "rows": {"t": "col", "j": j}, "names": names}
        for li, layout in enumerate(LAYOUTS):
            cols = _table(layout, nrows, li)
            for bits in _masks(nrows):
                k = {"t": "vec", "es": bits, "dtype": "bool", "name": rng.choice(["k", layout[0] or "k", "zz"])}
                yield {"fam": "tget", "cols": cols, "key": {"t": "row", "key": k}}
                yield {"fam": "tcomm", "cols": cols, "rows": k, "names": [x for x in layout if x][:2]}
            k = {"t": "vec", "es": [nrows - 1, 0], "dtype": "int", "name": "k"}
            yield {"fam": "tget", "cols": cols, "key": {"t": "row", "key": k}}
            yield {"fam": "tcomm", "cols": cols, "rows": k, "names": [x for x in layout if x][:1]}


def _generate(rng, tier):
    thorough = tier == "thorough"
    pools = ["int", "strn", "float", "dup", "obj"]
    # ---- exhaustive slices against list semantics
    members = SLICE_MEMBERS if not thorough else [None] + list(range(-9, 10))
    for n in range(0, 8 if thorough else 6):
        for a in members:
            for b in members:
                for c in SLICE_STEPS:
                    v = _vec(pools[(n + (a or 0) + (b or 0)) % 5], n, "x" if (a or 0) % 2 else None)
                    yield dict(v, fam="vget", key={"t": "slice", "s": [a, b, c]})
    # ---- ints, bools, 1-tuples
    for n in range(0, 6):
        for pool in ("int", "strn"):
            for i in range(-8, 9):
                yield dict(_vec(pool, n, "x"), fam="vget", key={"t": "int", "i": i})
                yield dict(_vec(pool, n), fam="vget", key={"t": "tuple", "items": [{"t": "int", "i": i}]})
            for b in (True, False):
                yield dict(_vec(pool, n), fam="vget", key={"t": "int", "i": int(b), "as_bool": True})
            for s in ([None, None, -1], [1, None, None], [0, 0, None], [None, None, 0], [5, 9, None], [-1, None, -2]):
                yield dict(_vec(pool, n, "x"), fam="vget", key={"t": "tuple", "items": [{"t": "slice", "s": s}]})
    # ---- all masks of lengths n-1, n, n+1
    for n in range(0, 7 if thorough else 5):
        for m in (n - 1, n, n + 1):
            if m < 0:
                continue
            for bits in _masks(m):
                for j, pool in enumerate(("int", "strn", "dup")):
                    name = "x" if j != 1 else None
                    yield dict(_vec(pool, n, name, "int" if (n == 0 and j == 0) else None), fam="vget", key={"t": "list", "es": bits})
                    yield dict(_vec(pool, n, name, "str" if (n == 0 and j == 1) else None), fam="vget", key={"t": "vec", "es": bits, "dtype": "bool"})
                yield dict(_vec("float", n, "x"), fam="vget", key={"t": "tuple", "items": [{"t": "list", "es": bits}]})
        if n:
            for bits in _masks(n):   # a boolean vector used as its own mask
                yield {"fam": "vget", "vals": [1 if b else 2 for b in bits], "name": "m", "key": {"t": "self"}}
    # ---- all int index lists / vectors
    for n in range(0, 5 if thorough else 4):
        dom = list(range(-n - 1, n + 1))
        for ln in range(1, 4):
            for es in itertools.product(dom, repeat=ln):
                yield dict(_vec("int" if ln % 2 else "strn", n, "x"), fam="vget", key={"t": "list", "es": list(es)})
                yield dict(_vec("dup" if ln % 2 else "float", n), fam="vget", key={"t": "vec", "es": list(es), "dtype": "int"})
    # ---- malformed stream
    bad = [{"t": "list", "es": []}, {"t": "list", "es": [1, True]}, {"t": "list", "es": [True, 0]}, {"t": "list", "es": [0, None]},
           {"t": "list", "es": [True, None]}, {"t": "list", "es": [1.0]}, {"t": "list", "es": ["a"]},
           {"t": "vec", "es": [True, None, False], "dtype": None}, {"t": "vec", "es": [0, None], "dtype": None},
           {"t": "vec", "es": [], "dtype": None}, {"t": "vec", "es": [], "dtype": "bool"}, {"t": "vec", "es": [], "dtype": "int"},
           {"t": "vec", "es": [], "dtype": "str"}, {"t": "vec", "es": ["a", "b"], "dtype": None}, {"t": "vec", "es": [0.0, 1.0], "dtype": None},
           {"t": "vec", "es": [1, 0, 1], "dtype": "bool"},
           {"t": "other", "v": 1.5}, {"t": "other", "v": "a"}, {"t": "other", "v": None}, {"t": "other", "v": {"d": 1}},
           {"t": "tuple", "items": []}, {"t": "tuple", "items": [{"t": "int", "i": 0}, {"t": "int", "i": 0}]},
           {"t": "tuple", "items": [{"t": "tuple", "items": [{"t": "int", "i": 0}]}]},
           {"t": "tuple", "items": [{"t": "other", "v": 1.5}]}, {"t": "self"}]
    for n in range(0, 4):
        for pool in ("int", "strn", "bool"):
            for k in bad:
                yield dict(_vec(pool, n, "x"), fam="vget", key=k)
            yield dict(_vec(pool, n, "x", "int"), fam="vget", key={"t": "slice", "s": [None, None, None]})
    # ---- slice_length
    for n in range(0, 8 if thorough else 6):
        for a in members:
            for b in members:
                for c in SLICE_STEPS:
                    yield {"fam": "slen", "n": n, "s": [a, b, c]}
    big = [None, 0, 1, -1, 2, -2, 7, -7, 10 ** 20, -10 ** 20, 2 ** 63, -2 ** 63 - 1]
    for _ in range(5000 if not thorough else 40000):
        n = rng.choice([0, 1, 2, 3, 10, 17, 100, 2 ** 40])
        mem = big + [n, n - 1, n + 1, -n, -n - 1, -n + 1, rng.randint(-3 * n - 3, 3 * n + 3)]
        yield {"fam": "slen", "n": n, "s": [rng.choice(mem), rng.choice(mem), rng.choice([None, 1, -1, 2, -2, 3, -3, 5, -7, 10 ** 20, -10 ** 20, rng.randint(-n - 2, n + 2)])]}
    # ---- random longer vectors
    for it_ in range(5000 if not thorough else 40000):
        # every 25th vector is long (beyond any size at which an implementation might switch strategy)
        n = rng.randint(6, 40) if it_ % 25 else rng.choice([64, 65, 128, 130, 256, 257, 300, 1030])
        mem = big + [n, n - 1, n + 1, -n, -n - 1, rng.randint(-n - 3, n + 3), rng.randint(-n - 3, n + 3)]
        kind = rng.randint(0, 3)
        v = {"vals": [rng.choice(IX[rng.choice(["int", "intn", "str", "obj"])]) for _ in range(n)], "name": rng.choice([None, "x", "Long Name"])}
        if kind == 0:
            key = {"t": "slice", "s": [rng.choice(mem), rng.choice(mem), rng.choice([None, 1, -1, 2, -2, 3, -5, n, -n, 10 ** 20, -10 ** 20])]}
        elif kind == 1:
            m = rng.choice([n, n, n, n - 1, n + 1])
            key = {"t": rng.choice(["list", "vec"]), "es": [rng.random() < 0.5 for _ in range(m)], "dtype": "bool"}
        elif kind == 2:
            key = {"t": rng.choice(["list", "vec"]), "es": [rng.randint(-n - (rng.random() < 0.1), n - 1 + (rng.random() < 0.1)) for _ in range(rng.randint(1, 8))], "dtype": "int"}
        else:
            key = {"t": "int", "i": rng.randint(-n - 2, n + 2)}
        yield dict(v, fam="vget", key=key)
    # ---- comparisons: all ordered pairs of scalars, every operator and operand form
    scal = [0, 1, 2, 4, 5, 15, 16, 18, 19, 20, 26, 27, 33, 34, 35, 36, 37, 38, 39, 40]
    for op in OPS:
        for x in scal:
            for y in scal:
                for form in ("vec", "list", "tuple", "scalar", "rscalar", "rlist"):
                    yield {"fam": "cmp", "op": op, "xs": [x], "other": {"t": form, "ys": [y]}}
    # ---- a date vector promoted IN PLACE to datetime (v[i] = some datetime) and then compared: the answer depends on the current
    #      elements only, exactly as for a vector freshly built from them
    for op in OPS:
        if op in ("and", "or", "xor"):
            continue
        for xs in ([26, 27], [27, 26, 26], [26, 0, 27]):
            for pos in range(len(xs)):
                if xs[pos] == 0:
                    continue
                for form, ys in (("scalar", [28]), ("vec", [28] * len(xs)), ("list", [28] * len(xs)), ("rscalar", [28]),
                                 ("scalar", [32])):
                    yield {"fam": "cmp", "op": op, "xs": xs, "other": {"t": form, "ys": ys}, "promote": [pos, 32]}
    # ---- logical NOT: `~v` on every boolean vector over {True, False, None} up to length 4 (and declared-bool empties)
    for n in range(0, 5):
        for xs in itertools.product([1, 2, 0], repeat=n):
            yield {"fam": "cmp", "op": "not", "xs": list(xs), "other": {"t": "scalar", "ys": [1]}, "xdtype": "bool" if n == 0 else None}
    kinds = [[0], [1, 2], [3, 4, 5, 7], [14, 15, 16], [14, 18, 16, 18], [19, 20, 23], [26, 27], [4, 19, 0, 15], [33, 34, 35, 36, 37], [33, 36, 39, 40, 3],
             [34, 37, 38, 35]]
    for it_ in range(15000 if not thorough else 120000):
        n = rng.randint(0, 5) if it_ % 60 else rng.choice([33, 64, 129, 257, 300])
        ka, kb = rng.choice(kinds), rng.choice(kinds)
        if rng.random() < 0.6:
            kb = ka
        xs = [0 if rng.random() < 0.25 else rng.choice(ka) for _ in range(n)]
        m = n if rng.random() < 0.85 else max(0, n + rng.choice([-1, 1]))
        ys = [0 if rng.random() < 0.25 else rng.choice(kb) for _ in range(m)]
        form = rng.choice(["vec", "vec", "list", "tuple", "scalar", "rscalar", "rlist", "self"])
        yield {"fam": "cmp", "op": rng.choice(list(OPS)), "xs": xs, "other": {"t": form, "ys": ys if form not in ("scalar", "rscalar") else ys[:1] or [0]},
               "xdtype": rng.choice([None, None, "int", "date", "str"]) if n == 0 else None,
               "ydtype": rng.choice([None, None, "int", "bool"]) if m == 0 else None}
    # ---- tables
    for li, layout in enumerate(LAYOUTS):
        keys = _keys_for(layout)
        for nrows in range(0, 4):
            cols = _table(layout, nrows, li)
            for k in keys:
                yield {"fam": "tget", "cols": cols, "key": {"t": "name", "k": k}}
            short = keys[:: max(1, len(keys) // 6)][:6] + ["zz"]
            for ln in range(0, 4 if thorough else 3):
                for ks in itertools.product(short, repeat=ln):
                    if ln == 3 and not thorough:
                        continue
                    yield {"fam": "tget", "cols": cols, "key": {"t": "names", "ks": list(ks)}}
            rk = _row_keys(nrows, rng, thorough)
            for k in rk:
                yield {"fam": "tget", "cols": cols, "key": {"t": "row", "key": k}}
            for i in range(-5, 5):
                yield {"fam": "tget", "cols": cols, "key": {"t": "row", "key": {"t": "int", "i": i}}}
            # 2-D forms, both orders
            rows2 = [{"t": "slice", "s": s} for s in ([None, None, None], [1, None, None], [None, None, -1], [5, 9, None], [0, 2, None], [None, None, 0], [-2, None, 2])]
            cols2 = ([{"t": "int", "i": j} for j in range(-len(layout) - 1, len(layout) + 1)]
                     + [{"t": "slice", "s": s} for s in ([None, None, None], [1, None, None], [None, None, -1], [0, 0, None], [None, None, 0])]
                     + [{"t": "name", "k": k} for k in short]
                     + [{"t": "names", "ks": list(ks)} for ks in itertools.product(short[:4] + ["zz"], repeat=2)]
                     + [{"t": "names", "ks": []}, {"t": "other", "v": 1.5}])
            for r in rows2:
                for c in cols2:
                    yield {"fam": "tget", "cols": cols, "key": {"t": "tuple", "items": [r, c]}}
                    if c["t"] in ("name", "names", "other"):
                        yield {"fam": "tget", "cols": cols, "key": {"t": "tuple", "items": [c, r]}}
            for i in range(-4, 4):
                for c in cols2:
                    if c["t"] in ("int", "slice"):
                        yield {"fam": "tget", "cols": cols, "key": {"t": "tuple", "items": [{"t": "int", "i": i}, c]}}
            for items in ([], [rows2[0]], [rows2[0], rows2[0], rows2[0]], [{"t": "name", "k": "a"}, {"t": "names", "ks": ["a"]}],
                          [{"t": "other", "v": 1.5}, {"t": "other", "v": 1.5}]):
                if items:
                    yield {"fam": "tget", "cols": cols, "key": {"t": "tuple", "items": items}}
            # commutation of row and column selection
            tup = [list(ks) for ln in range(0, 4 if thorough else 3) for ks in itertools.product(short[:5] + ["zz"], repeat=ln)]
            for k in rk:
                if k["t"] == "list" and not k["es"]:
                    continue        # an empty list is not recognisable as a mask (t[[]] is None): outside the quantifier
                small = [x for x in tup if len(x) <= 2]
                large = [x for x in tup if len(x) > 2]
                for ks in (small + rng.sample(large, min(len(large), 40)) if thorough else rng.sample(tup, min(len(tup), 10))):
                    yield {"fam": "tcomm", "cols": cols, "rows": k, "names": ks}
    # ---- the same selections on tables whose columns got their names through live column views after the table had been
    #      used under other names (anything the table remembers about its names is stale by then)
    for li, layout in enumerate(LAYOUTS):
        keys = _keys_for(layout)
        short = keys[:: max(1, len(keys) // 6)][:6] + ["zz"]
        for nrows in (0, 2):
            cols = _table(layout, nrows, li)
            for pre_names in ([("old%d" % j) for j in range(len(layout))], list(reversed(layout)), layout[1:] + layout[:1],
                              [(nm.upper() if isinstance(nm, str) else "n") for nm in layout]):
                for warm in (None, "dir", "attr", "getitem"):
                    pre = {"names": pre_names, "warm": warm, "route": rng.choice(["setter", "setter", "rename", "alias"])}
                    olds = [n for n in pre_names if isinstance(n, str)][:3]
                    for k in short + olds:
                        yield {"fam": "tget", "cols": cols, "pre": pre, "key": {"t": "name", "k": k}}
                    for ks in itertools.product((short + olds)[:: 2][:5], repeat=2):
                        yield {"fam": "tget", "cols": cols, "pre": pre, "key": {"t": "names", "ks": list(ks)}}
                    for k1 in short[:4] + olds:
                        yield {"fam": "tget", "cols": cols, "pre": pre, "key": {"t": "names", "ks": [k1]}}
                        yield {"fam": "tcomm", "cols": cols, "pre": pre, "rows": {"t": "slice", "s": [None, None, -1]}, "names": [k1]}
                        yield {"fam": "tget", "cols": cols, "pre": pre,
                               "key": {"t": "tuple", "items": [{"t": "slice", "s": [None, None, None]}, {"t": "names", "ks": [k1]}]}}
    for _ in range(3000 if not thorough else 30000):
        layout = [rng.choice(["a", "b", "A b", "a b", "B", None, "sum", "x__1", "9", "_"]) for _ in range(rng.randint(1, 6))]
        nrows = rng.randint(0, 6) if rng.random() > 0.03 else rng.choice([70, 129, 260])
        cols = [{"name": nm, "vals": [rng.choice(IX[rng.choice(["int", "intn", "str"])]) for _ in range(nrows)]} for nm in layout]
        keys = _keys_for(layout)
        mem = [None, 0, 1, -1, 2, nrows, -nrows, nrows + 1, 10 ** 20]
        rows = rng.choice([{"t": "slice", "s": [rng.choice(mem), rng.choice(mem), rng.choice([None, 1, -1, 2, -3])]},
                           {"t": rng.choice(["list", "vec"]), "es": [rng.random() < 0.5 for _ in range(nrows if rng.random() < 0.9 else nrows + 1)], "dtype": "bool"},
                           {"t": "vec", "es": [rng.randint(-nrows, max(0, nrows - 1)) for _ in range(rng.randint(1, 4))], "dtype": "int"}])
        if rows["t"] == "list" and not rows["es"]:
            rows = dict(rows, t="vec")      # an empty list is not recognisable as a mask
        yield {"fam": "tcomm", "cols": cols, "rows": rows, "names": [rng.choice(keys) for _ in range(rng.randint(0, 4))]}


# ------------------------------------------------------------------------------------------------
# execution
# ------------------------------------------------------------------------------------------------

KINDS = {"int": int, "bool": bool, "str": str, "float": float, "date": D, "object": object}
_KEEP = []      # tables whose live column views are the vectors under test (kept alive for the duration of one case)


def _declared(decl):
    from serif.typing import DataType
    return DataType(KINDS[decl[0]], nullable=bool(decl[1]))


def _build_vec(spec):
    """`decl` = [kind, nullable]: the dtype is DECLARED (possibly wider than the contents need); `src`: the vector reaches its
    contents through a history - "warm": it held other elements, was indexed with the very key (and fingerprinted), and was then
    overwritten in place; "view": it is a live column view of a table; "row": it is the row-displayed twin (`.T`)"""
    from serif import Vector, Table
    vals = [VALS[i] for i in spec["vals"]]
    if spec.get("decl"):
        return Vector(vals, dtype=_declared(spec["decl"]), name=spec.get("name"))
    if not vals and spec.get("dtype"):
        return Vector([], dtype=DTYPES[spec["dtype"]], name=spec.get("name"))
    src = spec.get("src")
    if src and src["src"] == "warm" and vals:
        pre = vals[1:] + vals[:1]
        v = Vector(pre, name=spec.get("name"))
        return v            # completed by _exec_vget once the key exists
    v = Vector(vals, name=spec.get("name"))
    if src and src["src"] == "view":
        t = Table([v, Vector(list(range(len(vals))), name="other_")])
        del _KEEP[:]
        _KEEP.append(t)
        if isinstance(t, Table) and len(t.cols()) == 2:
            return t.cols()[0]
    if src and src["src"] == "row":
        return v.T
    return v


def _unjson(x):
    return x


def _build_key(k, v):
    """returns (python key, wire key)"""
    from serif import Vector
    t = k["t"]
    if t == "int":
        return (bool(k["i"]) if k.get("as_bool") else k["i"]), {"t": "int", "i": k["i"]}
    if t == "slice":
        return slice(*k["s"]), {"t": "slice", "s": k["s"]}
    if t == "tuple":
        parts = [_build_key(i, v) for i in k["items"]]
        return tuple(p[0] for p in parts), {"t": "tuple", "items": [p[1] for p in parts]}
    if t == "list":
        return list(k["es"]), {"t": "list", "es": [_welem(e) for e in k["es"]]}
    if t == "vec":
        es = list(k["es"])
        if k.get("nullable") and k.get("dtype"):
            # declared nullable without holding a None: refused like every nullable key, or answered - never a wrong selection
            kv = Vector(es, dtype=_declared([k["dtype"], True]), name=k.get("name"))
        elif not es and k.get("dtype"):
            kv = Vector([], dtype=DTYPES[k["dtype"]], name=k.get("name"))
        elif k.get("dtype") == "bool" and es and not all(type(e) is bool for e in es):
            kv = Vector(es, dtype=bool)            # declared bool, holding ints: truthiness is what the code uses
        else:
            kv = Vector(es, name=k.get("name"))    # the key's own name must not reach the result
        return kv, {"t": "vec", "dtype": dtype_wire(kv.schema()), "es": [_welem(e) for e in es]}
    if t == "self":
        return v, {"t": "vec", "dtype": dtype_wire(v.schema()), "es": [_welem(e) for e in v]}
    if t == "other":
        return k["v"], {"t": "other"}
    raise ValueError(t)


def _welem(e):
    if type(e) is bool or type(e) is int:
        return e
    return None


def _vecwire(it, r):
    return {"data": [it.uid(x) for x in r], "dtype": dtype_wire(r.schema()), "name": r.name}


CRASHES = ("attr", "other:NameError", "other:UnboundLocalError", "other:RecursionError")


def _no_crash(w, spec):
    """indexing and comparison may refuse a key or an operand — with TypeError / KeyError / IndexError / ValueError or their serif
    counterparts — but AttributeError, NameError, UnboundLocalError and RecursionError are crashes of the library, not refusals"""
    def errs(x):
        if isinstance(x, dict):
            for k, v in x.items():
                if k == "err" and isinstance(v, str):
                    yield v
                else:
                    yield from errs(v)
        elif isinstance(x, list):
            for v in x:
                yield from errs(v)
    if isinstance(w, dict) and "py_fail" not in w and "impl" in w:
        for e in errs(w["impl"]):
            if e in CRASHES:
                w["py_fail"] = f"the operation crashed with {e.replace('other:', '').replace('attr', 'AttributeError')} (a crash, not a refusal)"
                break
    return w


def execute(spec):
    fam = spec["fam"]
    if fam == "vget":
        return _no_crash(_exec_vget(spec), spec)
    if fam == "slen":
        return _exec_slen(spec)
    if fam == "cmp":
        return _no_crash(_exec_cmp(spec), spec)
    if fam in ("tget", "tcomm"):
        return _no_crash(_exec_table(spec), spec)
    raise ValueError(fam)


def _exec_vget(spec):
    from serif import Vector
    it = Interner()
    v = _build_vec(spec)
    key, wkey = _build_key(spec["key"], v)
    warm = spec.get("warm")
    if warm and spec["key"]["t"] == "vec" and len(warm["pre"]) == len(spec["key"]["es"]) and spec["key"]["es"]:
        # the SAME key vector object was used before, with other elements, and then written in place: a selection must
        # depend on what the key holds now, not on anything remembered from an earlier use
        import warnings as _w
        with _w.catch_warnings():
            _w.simplefilter("ignore")
            try:
                key = Vector(list(warm["pre"]))
                if warm.get("fp"):
                    key.fingerprint()
                try:
                    v[key]
                except Exception:
                    pass
                for rounds in range(2):               # written twice: the first write may be noticed, the second not
                    for i, e in enumerate(spec["key"]["es"]):
                        key[i] = e if rounds else warm["pre"][i]
                        key[i] = e
                wkey = {"t": "vec", "dtype": dtype_wire(key.schema()), "es": [_welem(e) for e in key]}
            except Exception:
                return {"skip": "warm key could not be prepared"}
    src = spec.get("src")
    if src and src["src"] == "warm" and len(v):
        import warnings as _w
        with _w.catch_warnings():
            _w.simplefilter("ignore")
            try:
                if src.get("fp"):
                    v.fingerprint()
                for _ in range(2):
                    try:
                        v[key]
                    except Exception:
                        pass
                final = [VALS[i] for i in spec["vals"]]
                for rounds in range(2):
                    for i, e in enumerate(final):
                        v[i] = e
            except Exception:
                return {"skip": "warm source could not be prepared"}
        if wkey.get("t") == "vec" and spec["key"]["t"] == "self":
            wkey = {"t": "vec", "dtype": dtype_wire(v.schema()), "es": [_welem(e) for e in v]}
    case = dict(_vecwire(it, v), key=wkey, py=None)
    if spec["key"]["t"] in ("int", "slice"):
        try:
            r = list(v)[key]
            case["py"] = {"row": [it.uid(x) for x in r]} if isinstance(r, list) else {"scalar": it.uid(r)}
        except Exception as e:
            case["py"] = {"err": err_class(e)}
    try:
        r = v[key]
        impl = {"vec": _vecwire(it, r)} if isinstance(r, Vector) else {"scalar": it.uid(r)}
    except Exception as e:
        impl = {"err": err_class(e)}
    return {"fam": "vget", "case": case, "impl": impl}


def _exec_slen(spec):
    from values import slice_length_fn
    slice_length = slice_length_fn()
    s = slice(*spec["s"])
    try:
        py = len(range(*s.indices(spec["n"])))
    except ValueError:
        py = None
    try:
        impl = {"ok": slice_length(s, spec["n"])}
    except Exception as e:
        impl = {"err": err_class(e)}
    if "ok" in impl and (type(impl["ok"]) is not int or impl["ok"] < 0):
        return {"fam": "slen", "case": {"n": spec["n"], "s": spec["s"], "py": py}, "impl": impl,
                "py_fail": f"slice_length returned {impl['ok']!r}"}
    return {"fam": "slen", "case": {"n": spec["n"], "s": spec["s"], "py": py}, "impl": impl}


def _is_kind(vec_or_val, kinds):
    from serif import Vector
    if isinstance(vec_or_val, Vector):
        s = vec_or_val.schema()
        return s is not None and s.kind in kinds
    return type(vec_or_val) in kinds


def _exec_cmp(spec):
    from serif import Vector
    it = Interner()
    xs = [VALS[i] for i in spec["xs"]]
    o = spec["other"]
    ys = [VALS[i] for i in o["ys"]]
    form = o["t"]
    v = Vector(xs) if xs or not spec.get("xdtype") else Vector([], dtype=DTYPES[spec["xdtype"]])
    if spec.get("xdecl"):
        v = Vector(xs, dtype=_declared(spec["xdecl"]), name="x")
    if spec.get("promote"):
        pos, vi = spec["promote"]
        try:
            v[pos] = VALS[vi]                 # in-place promotion date -> datetime
        except Exception as e:
            return {"skip": "promotion refused: " + type(e).__name__}
        xs = list(v)                          # the current elements (the remaining dates were converted)
    refl = form in ("rscalar", "rlist", "rrange")
    if form in ("range", "rrange"):
        other, wform = range(len(ys)), "iter"
        if list(other) != ys:
            return {"skip": "range operand needs ys = 0..m-1"}
    elif form == "vec":
        other = Vector(ys) if ys or not spec.get("ydtype") else Vector([], dtype=DTYPES[spec["ydtype"]])
        wform = "vec"
    elif form == "self":
        other, ys, wform = v, xs, "vec"
    elif form in ("list", "rlist"):
        other, wform = list(ys), "iter"
    elif form == "tuple":
        other, wform = tuple(ys), "iter"
    else:
        other, wform = ys[0], "scalar"
    # boundary: _Date against str / datetime deliberately departs from Python's comparison
    datey = _is_kind(v, (D,)) or _is_kind(other, (D,))
    if datey and (_is_kind(v, (str, DT)) or _is_kind(other, (str, DT))):
        return {"skip": "_Date against str/datetime"}
    if spec["op"] == "not":
        # unary logical operator: encoded as a binary one against a dummy scalar, so that the same judge applies
        # (non-nullable bool result of the same length, every position Python's own `not x` — for None that is True)
        if not all(x is None or type(x) is bool for x in xs) or not any(type(x) is bool for x in xs) and spec.get("xdtype") != "bool":
            return {"skip": "~ on a non-boolean vector is bitwise arithmetic"}
        op = lambda a, b: (~a if isinstance(a, Vector) else (not a))
    else:
        op = OPS[spec["op"]]
    if refl and spec["op"] in ("and", "or", "xor") and form == "rscalar" and type(other) in (bool, int):
        pass  # int.__and__(Vector) is NotImplemented -> Vector.__rand__
    def scalar(x, y):
        try:
            return 1 if bool(op(y, x) if refl else op(x, y)) else 0
        except Exception:
            return 2
    table, seen = [], set()
    pairs = zip(xs, ys) if wform != "scalar" else ((x, other) for x in xs)
    for x, y in pairs:
        if x is None or (y is None and wform != "scalar"):
            continue
        k = (it.uid(x), it.uid(y))
        if k not in seen:
            seen.add(k)
            table.append([k[0], k[1], scalar(x, y)])
    case = {"xs": [it.uid(x) for x in xs],
            "other": {"t": wform, "ys": [it.uid(y) for y in ys]} if wform != "scalar" else {"t": "scalar", "y": it.uid(other)},
            "table": table}
    if spec["op"] == "not":
        # Python's own `not x` is defined for None too (True): None is an ordinary operand value here, not a hole
        NONE_AS_VALUE = 10 ** 6
        case["xs"] = [NONE_AS_VALUE if x is None else it.uid(x) for x in xs]
        if any(x is None for x in xs):
            case["table"] = table + [[NONE_AS_VALUE, it.uid(other), 1]]
    try:
        r = op(other, v) if refl else op(v, other)
        if not isinstance(r, Vector):
            return {"fam": "cmp", "case": case, "impl": {"err": "other:notavector"},
                    "py_fail": f"comparison returned {type(r).__name__}, not a Vector"}
        data = list(r)
        if not all(type(b) is bool for b in data):
            return {"fam": "cmp", "case": case, "impl": {"err": "other:nonbool"}, "py_fail": f"comparison result holds non-bool values {data!r}"}
        impl = {"vec": {"data": data, "dtype": dtype_wire(r.schema())}}
    except Exception as e:
        impl = {"err": err_class(e)}
    return {"fam": "cmp", "case": case, "impl": impl}


def _build_table(cols, pre=None):
    """`pre` = {"names": [...], "warm": how, "route": how}: the table is first built under other column names, optionally used
    (so that whatever it derives from its names exists), and then brought to the final names by renaming the columns through
    their live views - the selection judged afterwards must see the names the columns have *now*"""
    from serif import Vector, Table
    if not pre:
        return Table([Vector([VALS[i] for i in c["vals"]], name=c["name"]) for c in cols])
    t = Table([Vector([VALS[i] for i in c["vals"]], name=nm) for c, nm in zip(cols, pre["names"])])
    warm = pre.get("warm")
    if warm == "dir":
        dir(t)
    elif warm == "attr":
        for n in dir(t):
            if not n.startswith("_"):
                try:
                    getattr(t, n)
                except Exception:
                    pass
                break
    elif warm == "getitem" and pre["names"] and isinstance(pre["names"][0], str):
        t[pre["names"][0]]
        t[(pre["names"][0],)]
    views = list(t.cols())
    for c, v, old in zip(cols, views, pre["names"]):
        if c["name"] != old:
            route = pre.get("route", "setter")
            if route == "rename" and c["name"] is not None:
                v.rename(c["name"])
            elif route == "alias" and c["name"] is not None and hasattr(v, "alias"):
                try:
                    v.alias(c["name"])
                except Exception:
                    v.name = c["name"]
            else:
                v.name = c["name"]
    return t


def _build_spec(s):
    t = s["t"]
    if t == "int":
        return s["i"]
    if t == "slice":
        return slice(*s["s"])
    if t == "name":
        return s["k"]
    if t == "names":
        return tuple(s["ks"])
    return s.get("v", 1.5)


def _tabwire(it, r):
    if r is None:
        return {"none": True}
    cs = list(r.cols())
    from serif import Vector
    if not all(isinstance(c, Vector) for c in cs):
        raise TypeError("not a table-like result")
    return {"tab": [_vecwire(it, c) for c in cs]}


def _obs_table_result(it, r, key_spec):
    from serif import Vector, Table
    from values import row_class
    Row = row_class()
    if key_spec["t"] == "tuple" and [i["t"] for i in key_spec["items"]] == ["int", "int"]:
        return {"cell": it.uid(r)}
    if r is None:
        return {"none": True}
    if isinstance(r, Row):
        return {"row": [it.uid(x) for x in list(r)]}
    if isinstance(r, Table):
        return _tabwire(it, r)
    if isinstance(r, Vector):
        if key_spec["t"] == "tuple" and [i["t"] for i in key_spec["items"]] == ["int", "slice"]:
            return {"row": [it.uid(x) for x in r]}
        return {"col": _vecwire(it, r)}
    return {"cell": it.uid(r)}


def _own_column(t, j):
    """one of the table's OWN live columns as row key (`t[t.flag]`, `t[t.pos]`)"""
    cs = t.cols()
    if not -len(cs) <= j < len(cs):
        return None, None
    col = cs[j]
    cur = list(col)
    if not cur or not (all(type(x) is bool for x in cur) or all(type(x) is int for x in cur)):
        return None, None
    return col, {"t": "vec", "dtype": dtype_wire(col.schema()), "es": [_welem(e) for e in cur]}


def _exec_table(spec):
    from serif.naming import _sanitize_user_name
    it = Interner()
    t = _build_table(spec["cols"], spec.get("pre"))
    case = {"cols": [_vecwire(it, c) for c in t.cols()]}
    case["san"] = [[n, _sanitize_user_name(n)] for n in sorted({c["name"] for c in spec["cols"] if c["name"] is not None})]
    if spec["fam"] == "tget":
        k = spec["key"]
        if k["t"] == "name":
            key, wkey, strs = k["k"], k, [k["k"]]
        elif k["t"] == "names":
            key, wkey, strs = tuple(k["ks"]), k, list(k["ks"])
        elif k["t"] == "tuple":
            items = k["items"]
            if items and all(i["t"] == "name" for i in items):
                return {"skip": "a tuple of str is a multi-name key"}
            key = tuple(_build_spec(i) for i in items)
            wkey = {"t": "tuple", "items": [i if i["t"] != "other" else {"t": "other"} for i in items]}
            strs = [s for i in items for s in ([i["k"]] if i["t"] == "name" else i["ks"] if i["t"] == "names" else [])]
        else:
            if k["key"]["t"] == "col":
                key, wk = _own_column(t, k["key"]["j"])
                if key is None:
                    return {"skip": "own column is neither a mask nor a position list"}
            else:
                key, wk = _build_key(k["key"], None)
            wkey, strs = {"t": "row", "key": wk}, []
        case["key"] = wkey
        case["low"] = [[s, s.lower()] for s in sorted(set(strs))]
        try:
            impl = _obs_table_result(it, t[key], k)
        except Exception as e:
            impl = {"err": err_class(e)}
        return {"fam": "tget", "case": case, "impl": impl}
    if spec["rows"]["t"] == "col":
        rows, wrows = _own_column(t, spec["rows"]["j"])
        if rows is None:
            return {"skip": "own column is neither a mask nor a position list"}
    else:
        rows, wrows = _build_key(spec["rows"], None)
    names = tuple(spec["names"])
    case["rows"], case["names"] = wrows, list(names)
    case["low"] = [[s, s.lower()] for s in sorted(set(names))]
    impl = {}
    for side, f in (("lhs", lambda: t[rows][names]), ("rhs", lambda: t[names][rows])):
        try:
            impl[side] = _tabwire(it, f())
        except Exception as e:
            impl[side] = {"err": err_class(e)}
    return {"fam": "tcomm", "case": case, "impl": impl}


# ------------------------------------------------------------------------------------------------
# reporting
# ------------------------------------------------------------------------------------------------

def _row_scope(k):
    if k["t"] == "col":
        return True
    return _in_scope(k) and k["t"] != "tuple" and not (k["t"] == "list" and not all(type(e) is bool for e in k["es"]))


def _is_err(impl):
    return isinstance(impl, dict) and "err" in impl


def nontrivial(spec, wire):
    fam, impl = spec["fam"], wire["impl"]
    if fam == "vget":
        if not _in_scope(spec["key"]):
            return False
        if _is_err(impl):
            return True
        if "vec" in impl:
            return 0 < len(impl["vec"]["data"]) < len(wire["case"]["data"]) or impl["vec"]["data"] != wire["case"]["data"][:len(impl["vec"]["data"])]
        return len(wire["case"]["data"]) > 1
    if fam == "slen":
        return _is_err(impl) or 0 < impl["ok"] < wire["case"]["n"]
    if fam == "cmp":
        if _is_err(impl):
            return True
        d = impl["vec"]["data"]
        return (True in d and False in d) or 0 in wire["case"]["xs"] or 0 in wire["case"]["other"].get("ys", [1])
    if fam == "tget":
        k = spec["key"]
        if k["t"] == "name":
            return _is_err(impl) or k["k"] not in [c["name"] for c in spec["cols"]]
        if k["t"] == "names":
            return _is_err(impl) or len(set(k["ks"])) < len(k["ks"]) or any(x not in [c["name"] for c in spec["cols"]] for x in k["ks"])
        if k["t"] == "row":
            return _row_scope(k["key"])
        items = k["items"]
        return len(items) == 2 and items[0]["t"] != "other" and items[1]["t"] != "other" and any(i["t"] in ("int", "slice") for i in items)
    return len(spec["names"]) > 0 and _row_scope(spec["rows"])


def histogram(spec, wire):
    fam, impl = spec["fam"], wire["impl"]
    out = [fam]
    if fam == "vget":
        out.append("vget:key=" + spec["key"]["t"] + ("" if _in_scope(spec["key"]) else "(out-of-scope)"))
        out.append("vget:n=%s" % (len(spec["vals"]) if len(spec["vals"]) <= 5 else "6+"))
        out.append("vget:err=" + impl["err"] if _is_err(impl) else "vget:ok-empty" if "vec" in impl and not impl["vec"]["data"] else "vget:ok")
    elif fam == "slen":
        out.append("slen:err" if _is_err(impl) else "slen:0" if impl["ok"] == 0 else "slen:>0")
    elif fam == "cmp":
        out.append("cmp:op=" + spec["op"])
        out.append("cmp:form=" + spec["other"]["t"])
        out.append("cmp:err=" + impl["err"] if _is_err(impl) else "cmp:ok")
    elif fam == "tget":
        k = spec["key"]
        out.append("tget:key=" + (k["t"] if k["t"] != "row" else "row-" + k["key"]["t"]))
        out.append("tget:err=" + impl["err"] if _is_err(impl) else "tget:" + next(iter(impl)))
    else:
        out.append("tcomm:rows=" + spec["rows"]["t"])
        out.append("tcomm:names=%d" % len(spec["names"]))
        out.append("tcomm:" + ("err" if _is_err(impl["lhs"]) else "ok") + "/" + ("err" if _is_err(impl["rhs"]) else "ok"))
    return out


def shrink(spec):
    fam = spec["fam"]
    if fam == "vget":
        v = spec["vals"]
        for i in range(len(v)):
            yield dict(spec, vals=v[:i] + v[i + 1:])
        k = spec["key"]
        if "es" in k:
            for i in range(len(k["es"])):
                yield dict(spec, key=dict(k, es=k["es"][:i] + k["es"][i + 1:]))
        if k["t"] == "slice":
            for j in range(3):
                if k["s"][j] is not None:
                    s = list(k["s"]); s[j] = None
                    yield dict(spec, key=dict(k, s=s))
        if spec.get("name"):
            yield dict(spec, name=None)
    elif fam == "slen":
        if spec["n"] > 0:
            yield dict(spec, n=spec["n"] - 1)
            yield dict(spec, n=spec["n"] // 2)
        for j in range(3):
            x = spec["s"][j]
            if x is not None:
                for y in (None, x // 2, x - 1 if x > 0 else x + 1):
                    if y != x and not (j == 2 and y == 0):
                        s = list(spec["s"]); s[j] = y
                        yield dict(spec, s=s)
    elif fam == "cmp":
        xs, o = spec["xs"], spec["other"]
        if o["t"] in ("scalar", "rscalar"):
            for i in range(len(xs)):
                yield dict(spec, xs=xs[:i] + xs[i + 1:])
        else:
            for i in range(min(len(xs), len(o["ys"]))):
                yield dict(spec, xs=xs[:i] + xs[i + 1:], other=dict(o, ys=o["ys"][:i] + o["ys"][i + 1:]))
    else:
        cols = spec["cols"]
        if len(cols) > 1:
            for i in range(len(cols)):
                yield dict(spec, cols=cols[:i] + cols[i + 1:])
        n = len(cols[0]["vals"]) if cols else 0
        for r in range(n):
            yield dict(spec, cols=[dict(c, vals=c["vals"][:r] + c["vals"][r + 1:]) for c in cols])
        if fam == "tcomm":
            ks = spec["names"]
            for i in range(len(ks)):
                yield dict(spec, names=ks[:i] + ks[i + 1:])
        elif spec["key"]["t"] == "names":
            ks = spec["key"]["ks"]
            for i in range(len(ks)):
                yield dict(spec, key={"t": "names", "ks": ks[:i] + ks[i + 1:]})


def _key_src(k):
    t = k["t"]
    if t == "int":
        return repr(bool(k["i"]) if k.get("as_bool") else k["i"])
    if t == "slice":
        return "slice(%r, %r, %r)" % tuple(k["s"])
    if t == "tuple":
        return "(" + "".join(_key_src(i) + ", " for i in k["items"]) + ")"
    if t == "list":
        return repr(list(k["es"]))
    if t == "vec":
        if not k["es"] and k.get("dtype"):
            return "Vector([], dtype=%s)" % k["dtype"]
        if k.get("nullable"):
            return "Vector(%r, dtype=DataType(%s, nullable=True))" % (list(k["es"]), k["dtype"])
        return "Vector(%r%s%s)" % (list(k["es"]), ", dtype=bool" if k.get("dtype") == "bool" and not all(type(e) is bool for e in k["es"]) else "",
                                   ", name=%r" % k["name"] if k.get("name") else "")
    if t == "self":
        return "v"
    if t == "col":
        return "t.cols()[%d]" % k["j"]
    if t == "name":
        return repr(k["k"])
    if t == "names":
        return repr(tuple(k["ks"]))
    return repr(k.get("v", 1.5))


def snippet(spec):
    fam = spec["fam"]
    head = "from serif import Vector, Table\nimport datetime\n"
    if fam == "vget":
        vals = [VALS[i] for i in spec["vals"]]
        ctor = "Vector(%r, name=%r)" % (vals, spec.get("name")) if vals or not spec.get("dtype") else "Vector([], dtype=%s, name=%r)" % (spec["dtype"], spec.get("name"))
        if spec.get("decl"):
            ctor = "Vector(%r, dtype=DataType(%s, nullable=%r), name=%r)" % (vals, spec["decl"][0], bool(spec["decl"][1]), spec.get("name"))
            head += "from serif.typing import DataType\n"
        if spec.get("src"):
            how = spec["src"]["src"]
            if how == "warm" and vals:
                ctor = ("Vector(%r, name=%r)%s; key = %s; v[key]; v[key]\nfor _ in range(2):\n    for i, e in enumerate(%r): v[i] = e"
                        % (vals[1:] + vals[:1], spec.get("name"), "; v.fingerprint()" if spec["src"].get("fp") else "", _key_src(spec["key"]), vals))
            elif how == "view":
                ctor = "Table([%s, Vector(list(range(%d)), name='other_')]).cols()[0]   # keep the table alive" % (ctor, len(vals))
            elif how == "row":
                ctor += ".T"
        if spec["key"].get("nullable"):
            head += "from serif.typing import DataType\n"
        return head + f"v = {ctor}\nkey = {_key_src(spec['key'])}\nr = v[key]\nprint(list(r) if isinstance(r, Vector) else r, getattr(r, 'name', None), r.schema() if isinstance(r, Vector) else None)\nprint(list(v)[key] if isinstance(key, (int, slice)) else None)"
    if fam == "slen":
        return "from serif.typeutils import slice_length\ns = slice(%r, %r, %r)\nprint(slice_length(s, %d), len(range(*s.indices(%d))))" % (*spec["s"], spec["n"], spec["n"])
    if fam == "cmp":
        xs = [VALS[i] for i in spec["xs"]]
        ys = [VALS[i] for i in spec["other"]["ys"]]
        form = spec["other"]["t"]
        o = {"vec": f"Vector({ys!r})", "self": "v", "list": repr(ys), "rlist": repr(ys), "tuple": repr(tuple(ys)),
             "range": f"range({len(ys)})", "rrange": f"range({len(ys)})"}.get(form, repr(ys[0]) if ys else "None")
        if spec["op"] == "not":
            return head + f"v = Vector({xs!r})\nr = ~v\nprint(list(r), r.schema())"
        sym = {"eq": "==", "ne": "!=", "lt": "<", "le": "<=", "gt": ">", "ge": ">=", "and": "&", "or": "|", "xor": "^"}[spec["op"]]
        e = f"{o} {sym} v" if form in ("rscalar", "rlist", "rrange") else f"v {sym} {o}"
        mk = f"Vector({xs!r})"
        if spec.get("xdecl"):
            head += "from serif.typing import DataType\n"
            mk = f"Vector({xs!r}, dtype=DataType({spec['xdecl'][0]}, nullable={bool(spec['xdecl'][1])}), name='x')"
        if spec.get("promote"):
            mk += f"; v[{spec['promote'][0]}] = {VALS[spec['promote'][1]]!r}"
        return head + f"v = {mk}\nr = {e}\nprint(list(r), r.schema())"
    cols = ", ".join("Vector(%r, name=%r)" % ([VALS[i] for i in c["vals"]], c["name"]) for c in spec["cols"])
    if fam == "tget":
        k = spec["key"]
        ks = _key_src(k["key"]) if k["t"] == "row" else _key_src(k)
        return head + f"t = Table([{cols}])\nr = t[{ks}]\nprint(r)"
    return head + (f"t = Table([{cols}])\nrows, names = {_key_src(spec['rows'])}, {tuple(spec['names'])!r}\n"
                   "a, b = t[rows][names], t[names][rows]\nprint([c.name for c in a.cols()], [list(c) for c in a.cols()])\n"
                   "print([c.name for c in b.cols()], [list(c) for c in b.cols()])")


LEVEL_TEXT = ("Proof (Lean 4, for all inputs, about the executable model the driver runs): v[i] is the i-th element with Python's negative "
              "subscripts and IndexError outside (getitem_int*); v[slice] holds exactly the elements at CPython's slice.indices/range "
              "positions for every start/stop/step, which are characterised arithmetically (slice_positions: position j is start'+j*step, "
              "inside 0..n-1, and there are exactly as many as stay before stop'), with v[a:b] = drop/take and v[::-1] = reverse as "
              "corollaries and step 0 the only error; typeutils.slice_length equals the number of selected positions (slice_length_correct, "
              "pure Int floor-division arithmetic) and agrees in the kernel with slice_length tabulated from the live source on every run; "
              "boolean masks (list or non-nullable bool Vector) keep exactly the True positions in order with name and dtype, wrong length "
              "is an error; integer lists are elementwise subscripts; every selecting key returns the elements at positions that depend on "
              "key and length only; comparisons/logical operators return a non-nullable bool vector of the same length, pointwise equal to "
              "the scalar comparison (a parameter, instantiated by Python's own results), None giving False, defined iff lengths agree and "
              "every needed scalar comparison is defined; table row selection gathers the same positions in every column keeping names and "
              "dtypes (table_rowsel_uniform); a name no column answers to is an error, also inside a name tuple and in the 2-D form "
              "(missing_column_errors*); exact names win over sanitised forms, leftmost first (resolve_sound); t[rows][names] and "
              "t[names][rows] both fail or give the same table for every row key and every non-empty name tuple (select_commute). "
              "Sampled, not proved: that the Python code behaves as the model (exhaustive small scopes + random cases judged by the Lean "
              "driver on every run), CPython's own slicing (the model of slice.indices/range is checked against list(v)[key] on every case).")
LEVEL_NOTE = ("Trusted: Lean kernel; axioms propext/Classical.choice/Quot.sound only; the harness, interning of values and the driver's JSON "
              "layer; Python's scalar comparisons, str.lower and _sanitize_user_name enter as oracle tables/strings; CPython tuple slicing is "
              "modelled (slice.indices + range) and cross-checked per case. Assumptions: 1-D vectors, 2-D tables with >= 1 column, names str "
              "or None, slice members None or exact ints. Not judged: exception classes; _Date versus str/datetime operands (documented "
              "departure); keys outside the quantifier (floats, None, nullable/untyped Vectors, mixed or empty lists, wrong-arity tuples, an "
              "int list on a Table, t[i, 'name']). select_commute is stated for non-empty name tuples (with the empty tuple a zero-column "
              "table has zero rows, so a mask of the original length no longer fits).")
