"""C11 — join cardinality expectations are enforced exactly."""
import itertools
from props import joincommon as jc
from props.joincommon import execute, nontrivial, histogram, shrink, snippet, NVARIANTS

PID = "C11"
RULE = ("the full decision table join kind (inner_join, join, full_join) x expect (the four values + six invalid strings) x "
        "left keys unique? x right keys unique?, judged by the Lean specification (raise SerifValueError iff a required "
        "uniqueness fails, over ALL rows so duplicates among unmatched rows count; invalid expect always rejected; otherwise "
        "the relational result) and by the Lean model that reads the three `expect in (...)` tuples of each method from the "
        "source (Serif.Gen, regenerated on every run). Every cell is realised by every pair of key lists of length <=3 over "
        "{0,1,2} (1 key column) and <=2 rows over {0,1} (2 key columns) [thorough: <=4 over {0,1,2}], plus random larger "
        "lists with a chosen side unique. Every call with a strict expectation is repeated with many_to_many and the two "
        "results must be identical when the strict call returns. non-trivial = both sides non-empty and a duplicate key "
        "on some side"
        ' Further families (joincommon.extra_cases): key lists in another order than the stored columns / with a column listed twice / mixing names, own vectors and external copies, right key columns stored in another order; one table joined with itself on DIFFERENT key columns; two tables keyed by the same external key vector objects; a join, then columns renamed through a view or rename_column (by the new name, by the old name = refused, names exchanged with a payload column), payload cells edited in place or the key column replaced by attribute assignment, then the judged join; sides and single buckets beyond 1000 rows; wide tables with interleaved key columns; key names that are no identifiers or read alike (NFC/NFD, trailing blank, case); zero-row sides without any column; datetime key columns holding raw dates. expect arguments that are not strings (None, 0, 1, True, bytes, tuple, list, float) must be rejected.')
ASSUMPTIONS = ["as for C09: hashable ladder-type keys, validation mirrored and not judged, key equality supplied by Python ==/hash"]
TRUSTED = ["the ast extraction of the `expect` membership tuples (extract_consts.section_joins)"]
BUDGET_S = {"quick": 22, "thorough": 240}

ALL_EXPECTS = jc.EXPECTS + jc.BAD_EXPECTS


def _table(pool, nk, ml, mr, tag="small"):
    i = 0
    for lk, rk in jc.small_pairs(pool, nk, ml, mr):
        for kind in ("inner", "left", "full"):
            for e in jc.EXPECTS:
                i += 1
                yield {"fam": "table." + tag, "kind": kind, "expect": e, "lk": lk, "rk": rk,
                       "v": (i * 173 + 7) % NVARIANTS, "mm": True}
            i += 1
            yield {"fam": "table." + tag, "kind": kind, "expect": jc.BAD_EXPECTS[i % len(jc.BAD_EXPECTS)], "lk": lk, "rk": rk,
                   "v": (i * 173 + 7) % NVARIANTS, "mm": True}


def _random(rng, n):
    for _ in range(n):
        lk, rk = jc.unique_keys(rng) if rng.random() < 0.7 else jc.random_keys(rng, 15)
        spec = {"fam": "table.random", "kind": rng.choice(["inner", "left", "full"]),
               "expect": rng.choice(jc.EXPECTS) if rng.random() < 0.9 else rng.choice(jc.BAD_EXPECTS),
               "lk": lk, "rk": rk, "v": rng.randrange(NVARIANTS), "mm": True}
        # every 5th random case is run 'warm': an earlier join on the same objects, then in-place key edits
        yield jc.add_warm(rng, spec) if rng.random() < 0.2 else spec


def generate(rng, tier):
    thorough = tier == "thorough"
    yield from jc.scripted_warm("table")
    yield from jc.self_joins("table")
    yield from _table([0, 1, 2], 1, 3, 3)
    yield from _table([0, 1], 2, 2, 2)
    yield from _table([-1, -2], 1, 2, 2, "collide")      # hash-equal distinct keys
    # further shapes / states (see joincommon.extra_cases) under every kind and expectation, and expect arguments that are no strings
    yield from jc.extra_cases(rng, "table", ["inner", "left", "full"], jc.EXPECTS, mm=True, scale=1 if not thorough else 10,
                              expect_objects=True)
    if not thorough:
        yield from _random(rng, 25000)
        return
    big = itertools.chain(_table([0, 1, 2], 1, 4, 4, "small4"), _table([0, 1, None], 2, 2, 2, "small2k"))
    yield from jc.interleave([big, _random(rng, 150000)], 64)


LEVEL_TEXT = ("Proof (Lean 4, all key lists, any key type): with the three membership tuples of each method as they stand in the "
              "source on this run (read by ast into Serif.Gen; the proofs unfold them, so a changed tuple breaks the build), each of "
              "inner_join / join / full_join raises - and then a value error - iff expect requires unique right keys and the right "
              "key list has a duplicate, or requires unique left keys and the left key list has one (exact; Nodup ranges over all "
              "rows, so duplicates among unmatched rows count); any expect value outside the four is rejected before anything else "
              "(bad_expect_rejected); when the call returns, its rows are the many_to_many rows (result_eq_many_to_many). The "
              "building blocks: the `duplicates` dict is non-empty iff the right keys repeat; the `left_keys_seen` check fires iff "
              "the left keys repeat. Sampled: that the three methods behave like the model (exhaustive decision table + random).")
LEVEL_NOTE = ("Trusted: Lean kernel, axioms propext/Classical.choice/Quot.sound only; harness + ast extractor; CPython dict/set "
              "semantics. Which exception class a rejected expect value or a refused key specification raises is not judged.")
