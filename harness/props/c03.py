"""C03 — a vector's reported dtype is always truthful (programs, inputs)."""
from props import exprcommon as X

PID = "C03"
RULE = ("programs over serif's public operations, evaluated stepwise on the real code; every node's real result is observed "
        "(exact type of each element, schema(), name) and judged by the Lean driver: (a) truthful(tags, dtype) on the result, "
        "(b) the result's dtype equals the operation's dtype rule of Serif/Model/Expr.lean applied to the observed operands. "
        "Families: known (one minimal program per recorded finding), struct (every structural/typed vector operation x 8 leaf "
        "dtypes x nullable x length 0/1/3), ops (every unary/binary/reflected operator and comparison x 5 operand forms x all "
        "pairs of leaf dtypes x nullable x length 0/1/3), names (tables with repeated/unsanitary/missing names through joins, "
        "aggregates, table arithmetic), tree (random programs of depth <= 4 over 34 operations, one of them `misc`: unique, ~, "
        "eomonth, pluck, head/tail, list << v, Vector.new, 8 broadcast methods/properties — judged by truthfulness alone). "
        "Added by the gap analysis: forms / bigforms (scripted operand FORMS and object STATES over every leaf dtype: tuple operands, "
        "bool/int Vector and tuple keys, Vector / tuple / self values, the same object on both sides of <<, >>, v[v], t + t, joins, "
        "constructor routes, falsy / negative / bytes / timedelta scalars, declared-wider-than-contents operands, keys and aggregands "
        "given by name / accessor spelling / bare / tuple, vectors and columns renamed in place after use, table unary / << / == / "
        "copy / reductions / 2-D selection (no model rule: truthfulness in Lean, names judged in Python), vectors of 300 and 1100 "
        "elements with the deciding element last), treex / big (random programs over all of that). "
        "non-trivial = at least one non-leaf operation returned a vector or table")
ASSUMPTIONS = [
    "elements are instances of exactly the pooled classes (None, bool, int, float, complex, str, bytes, date, datetime, list, tuple, "
    "two unrelated user classes); subclasses of ladder types and nested vectors are not modelled",
    "the exact type of every Python scalar result (x+y, -x, int(x), sum(group), ...) is an oracle computed by the harness with "
    "Python itself; C03.closed holds for every oracle whose cast results are instances of the target class",
    "positions selected by slices/masks, sort permutations, join row pairs and group-by groups are parameters computed by the "
    "harness with plain Python (they are the subject of C07/C09/C12/C14)",
    "a step whose observed element types differ from the model's (or that the model refuses) is judged by truthfulness only",
]
BUDGET_S = {"quick": 36, "thorough": 480}


def generate(rng, tier):
    return X.generate(rng, tier)


def execute(spec):
    return X.execute(spec, PID)


nontrivial = X.nontrivial
histogram = X.histogram
shrink = X.shrink
snippet = X.snippet


KNOWN = {}

LEVEL_TEXT = ("Proof: for a Lean model of every public operation that returns or mutates a vector or table (inference, "
              "binary/reflected/unary arithmetic incl. the tuple fallback and _Date day arithmetic, comparisons, <<, >>, cast, "
              "fillna, dropna, isna, to_object, copy/T, slice/mask/index getitem, sort_by, __setitem__ with promotion, Table "
              "construction, column/row selection, Row, table arithmetic, transpose, inner/left/full join, aggregate/window, table "
              "sort, cell assignment, read_csv) it is proved that truthful operands give a truthful result (one lemma per "
              "operation, step_truthful), and by structural induction over programs that every value of EVERY program is truthful "
              "(closed, at full strength) - for every outcome of the Python scalar operations (oracle parameter). infer_truthful, "
              "validate_iff_belongs (kinds other than object) and writeback_noop (writing element i back returns the identical "
              "vector) are full theorems. Sampled, not proved: that the model's dtype rule is the code's - every node of every "
              "generated program is executed on the real code and the driver checks truthful(real tags, real dtype) and real "
              "dtype = model dtype; exhaustive over operators x operand forms x pairs of 8 leaf dtypes x nullable x length 0/1/3, "
              "random programs of depth <= 4 beyond that. Four defects this check found (to_object, cast(date) of datetimes, None "
              "into an object column, Vector.new(None, n, typesafe=True)) were repaired in /repo (cbd2cdb, bd89f49, cca3c72, 4f6bc66); the model mirrors the repaired code.")
LEVEL_NOTE = ("Trusted: Lean kernel; axioms propext/Classical.choice/Quot.sound only; harness (observation of exact element types, "
              "oracles computed with Python's own operators, positions/permutations/join pairs/groups computed with plain Python); "
              "extract_consts (_PROMOTABLE and Vector._promote tabulated from the live code and proved equal to the model: "
              "promotable_table_agrees, promoteVec_table_agrees; validate_scalar / promote_with / infer_kind via C04). "
              "Assumptions: CastSound (Python constructors return instances of the class called); elements are exact instances of "
              "the pooled classes; unique, pluck, ~, eomonth, head/tail, `list << v`, Vector.new and the broadcast str/int/float/date "
              "methods and properties have no dtype rule in the model (Op.opaque: the model refuses, the real result is judged by "
              "truthfulness alone — exhaustively over leaf dtypes x nullable x length 0/1/3 and inside random programs); nested "
              "vectors, @ and rename are not modelled; `_Date` dispatch is modelled by the current dtype kind (true of the code since the repair that makes a "
              "date vector promoted in place to datetime a plain Vector). The outputs of other checks' generators are not "
              "fed through this check (DESIGN 5.C03 X(iii)): the table operations are generated here instead.")
