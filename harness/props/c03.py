"""C03 — a vector's reported dtype is always truthful (programs, inputs)."""
from props import exprcommon as X

PID = "C03"
RULE = ("programs over serif's public operations, evaluated stepwise on the real code; every node's real result is observed "
        "(exact type of each element, schema(), name) and judged by the Lean driver: (a) truthful(tags, dtype) on the result, "
        "(b) the result's dtype equals the operation's dtype rule of Serif/Model/Expr.lean applied to the observed operands. "
        "Families: known (one minimal program per recorded finding), struct (every structural/typed vector operation x 8 leaf "
        "dtypes x nullable x length 0/1/3), ops (every unary/binary/reflected operator and comparison x 5 operand forms x all "
        "pairs of leaf dtypes x nullable x length 0/1/3), names (tables with repeated/unsanitary/missing names through joins, "
        "aggregates, table arithmetic), tree (random programs of depth <= 4 over 34 operations, one of them `misc`: unique, ~, "
        "eomonth, pluck, head/tail, list << v, Vector.new, 8 broadcast methods/properties — judged by truthfulness alone). "
        "Added by the gap analysis: forms / bigforms (scripted operand FORMS and object STATES over every leaf dtype: tuple operands, "
        "bool/int Vector and tuple keys, Vector / tuple / self values, the same object on both sides of <<, >>, v[v], t + t, joins, "
        "constructor routes, falsy / negative / bytes / timedelta scalars, declared-wider-than-contents operands, keys and aggregands "
        "given by name / accessor spelling / bare / tuple, vectors and columns renamed in place after use, table unary / << / == / "
        "copy / reductions / 2-D selection (no model rule: truthfulness in Lean, names judged in Python), vectors of 300 and 1100 "
        "elements with the deciding element last), treex / big (random programs over all of that). "
        "non-trivial = at least one non-leaf operation returned a vector or table")
ASSUMPTIONS = [
    "elements are instances of exactly the pooled classes (None, bool, int, float, complex, str, bytes, date, datetime, list, tuple, "
    "two unrelated user classes); subclasses of ladder types and nested vectors are not modelled",
    "the exact type of every Python scalar result (x+y, -x, int(x), sum(group), ...) is an oracle computed by the harness with "
    "Python itself; C03.closed holds for every oracle whose cast results are instances of the target class",
    "positions selected by slices/masks, sort permutations, join row pairs and group-by groups are parameters computed by the "
    "harness with plain Python (they are the subject of C07/C09/C12/C14)",
    "a step whose observed element types differ from the model's (or that the model refuses) is judged by truthfulness only",
]
BUDGET_S = {"quick": 36, "thorough": 480}


ROLLBACK_ROWS = [  # (columns, row value): an earlier column is promoted on the way, a later one refuses -> the write is rolled back
    ({"a": [1, 2, 3], "b": ["x", "y", "z"]}, [1.0, 7]), ({"a": [1, 2, 3], "b": ["x", "y", "z"]}, [2.5, 7]),
    ({"a": [1, 2, 3], "b": ["x", "y", "z"]}, [(1 + 0j), 7]), ({"a": [1.0, 2.0], "b": ["x", "y"]}, [(1 + 0j), 7]),
    ({"a": [1, 2, 3], "c": [4, 5, 6], "b": ["x", "y", "z"]}, [1.0, 4.0, 7]), ({"a": [True, False], "b": ["x", "y"]}, [None, 7]),
    ({"a": [1, 2, 3], "b": ["x", "y", "z"]}, [None, 7]),
]


def _rollback(spec):
    """after a REFUSED multi-column table assignment every column must still be truthful: each element can be written back into its
    own position without an error and without changing the reported dtype (judged in Python: the write-back clause itself)"""
    import warnings
    from serif import Table
    cols, row = ROLLBACK_ROWS[spec["k"] % len(ROLLBACK_ROWS)]
    fails = []
    with warnings.catch_warnings():
        warnings.simplefilter("ignore")
        t = Table({n: list(v) for n, v in cols.items()})
        before = [(repr(c.schema()), [type(x).__name__ for x in c]) for c in t.cols()]
        key = [0, slice(0, 1), slice(None, 1)][spec["k"] // len(ROLLBACK_ROWS) % 3]
        try:
            if isinstance(key, int):
                t[key] = list(row)
            else:
                t[key] = [[x] for x in row]
            return {"skip": "the assignment was accepted"}
        except Exception:
            pass
        for j, c in enumerate(t.cols()):
            if (repr(c.schema()), [type(x).__name__ for x in c]) != before[j]:
                fails.append(f"column {j} shows {c.schema()!r} over element types {[type(x).__name__ for x in c]} after the refused "
                             f"assignment t[{key!r}] = {row!r} (before: {before[j]})")
            s0 = repr(c.schema())
            for i in range(len(c)):
                try:
                    c[i] = c[i]
                except Exception as e:
                    fails.append(f"after the refused assignment, writing element {i} of column {j} back was refused: {type(e).__name__}")
                    break
                if repr(c.schema()) != s0:
                    fails.append(f"after the refused assignment, writing element {i} of column {j} back changed its dtype {s0} -> {c.schema()!r}")
                    break
    w = {"fam": "known", "case": {}, "impl": {}}
    if fails:
        w["py_fail"] = "judged in Python: " + "; ".join(fails[:2])
    else:
        w["skip"] = "consistent (judged in Python)"
    return w


def generate(rng, tier):
    for k in range(3 * len(ROLLBACK_ROWS)):
        yield {"fam": "rollback", "k": k}
    yield from X.generate(rng, tier)


def execute(spec):
    if spec.get("fam") == "rollback":
        return _rollback(spec)
    return X.execute(spec, PID)


def nontrivial(spec, wire):
    return True if spec.get("fam") == "rollback" else X.nontrivial(spec, wire)


def histogram(spec, wire):
    return ["rollback"] if spec.get("fam") == "rollback" else X.histogram(spec, wire)


def shrink(spec):
    return iter(()) if spec.get("fam") == "rollback" else X.shrink(spec)


def snippet(spec):
    if spec.get("fam") == "rollback":
        cols, row = ROLLBACK_ROWS[spec["k"] % len(ROLLBACK_ROWS)]
        return f"from serif import Table\nt = Table({cols!r})\ntry:\n    t[0] = {row!r}\nexcept Exception: pass\nprint([(c.schema(), list(c)) for c in t.cols()])"
    return X.snippet(spec)


KNOWN = {}

LEVEL_TEXT = ("Proof: for a Lean model of every public operation that returns or mutates a vector or table (inference, "
              "binary/reflected/unary arithmetic incl. the tuple fallback and _Date day arithmetic, comparisons, <<, >>, cast, "
              "fillna, dropna, isna, to_object, copy/T, slice/mask/index getitem, sort_by, __setitem__ with promotion, Table "
              "construction, column/row selection, Row, table arithmetic, transpose, inner/left/full join, aggregate/window, table "
              "sort, cell assignment, read_csv) it is proved that truthful operands give a truthful result (one lemma per "
              "operation, step_truthful), and by structural induction over programs that every value of EVERY program is truthful "
              "(closed, at full strength) - for every outcome of the Python scalar operations (oracle parameter). infer_truthful, "
              "validate_iff_belongs (kinds other than object) and writeback_noop (writing element i back returns the identical "
              "vector) are full theorems. Sampled, not proved: that the model's dtype rule is the code's - every node of every "
              "generated program is executed on the real code and the driver checks truthful(real tags, real dtype) and real "
              "dtype = model dtype; exhaustive over operators x operand forms x pairs of 8 leaf dtypes x nullable x length 0/1/3, "
              "random programs of depth <= 4 beyond that. Four defects this check found (to_object, cast(date) of datetimes, None "
              "into an object column, Vector.new(None, n, typesafe=True)) were repaired in /repo (cbd2cdb, bd89f49, cca3c72, 4f6bc66); the model mirrors the repaired code.")
LEVEL_NOTE = ("Trusted: Lean kernel; axioms propext/Classical.choice/Quot.sound only; harness (observation of exact element types, "
              "oracles computed with Python's own operators, positions/permutations/join pairs/groups computed with plain Python); "
              "extract_consts (_PROMOTABLE and Vector._promote tabulated from the live code and proved equal to the model: "
              "promotable_table_agrees, promoteVec_table_agrees; validate_scalar / promote_with / infer_kind via C04). "
              "Assumptions: CastSound (Python constructors return instances of the class called); elements are exact instances of "
              "the pooled classes; unique, pluck, ~, eomonth, head/tail, `list << v`, Vector.new and the broadcast str/int/float/date "
              "methods and properties have no dtype rule in the model (Op.opaque: the model refuses, the real result is judged by "
              "truthfulness alone — exhaustively over leaf dtypes x nullable x length 0/1/3 and inside random programs); nested "
              "vectors, @ and rename are not modelled; `_Date` dispatch is modelled by the current dtype kind (true of the code since the repair that makes a "
              "date vector promoted in place to datetime a plain Vector). The outputs of other checks' generators are not "
              "fed through this check (DESIGN 5.C03 X(iii)): the table operations are generated here instead.")
