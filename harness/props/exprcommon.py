"""Shared by C03 and C18: programs (expression trees) over serif's public operations, evaluated STEPWISE on the
real code.  Every node of a tree becomes one `step` of the wire case:

    {"op": name, "p": {params}, "args": [observation of each operand], "or": {oracles}, "out": {"ok": obs} | {"err": cls}}

observation of a vector = ["v", [exact-type tag of each element], schema() as [kind, nullable] | null, name]
observation of a table  = ["t", [[tags, dtype, name] for each column]]     (anything else: ["x"])

The Lean driver judges every step with Serif/Model/Expr.lean (see Serif/Drive/Expr.lean).
Oracles are what *Python* computes, never serif: the exact type of `x + y`, `-x`, `int(x)`, `sum(group)` …, the
positions a slice / mask selects, a stable sort's permutation, the key-equal row pairs of a join, the groups of a
group-by.  `_sanitize_user_name` (property C17's subject) is used as the oracle for the sanitised part of
aggregate names.
"""
import operator, random, io, math, datetime, json, os
from values import tag_code, kind_code, dtype_wire, err_class
from extract_consts import Foo, Bar, Baz

D, DT = datetime.date, datetime.datetime

# ------------------------------------------------------------------------------------------------
# values: every scalar in a spec is an index into this pool
# ------------------------------------------------------------------------------------------------
FOO, BAR = Foo(), Bar()
VALS = [None, True, False, 0, 1, 2, -3, 7, 0.5, 2.0, -1.5, 1 + 2j, 0j, "a", "b", "", "x1", "2020-01-05",
        D(2020, 1, 2), D(1999, 12, 31), DT(2020, 1, 2, 3, 4), DT(1999, 12, 31), FOO, BAR, b"a", [1], (1,), 3,
        datetime.timedelta(days=1)]
VSRC = ["None", "True", "False", "0", "1", "2", "-3", "7", "0.5", "2.0", "-1.5", "(1+2j)", "0j", "'a'", "'b'", "''",
        "'x1'", "'2020-01-05'", "date(2020, 1, 2)", "date(1999, 12, 31)", "datetime(2020, 1, 2, 3, 4)",
        "datetime(1999, 12, 31)", "FOO", "BAR", "b'a'", "[1]", "(1,)", "3", "timedelta(days=1)"]
NONE = 0
# value indices by leaf dtype
KINDS = {
    "bool": [1, 2], "int": [3, 4, 5, 6, 7, 27], "float": [8, 9, 10], "complex": [11, 12], "str": [13, 14, 15, 16, 17],
    "date": [18, 19], "datetime": [20, 21], "object": [22, 4, 13, 23, 8, 18],
}
KIND_NAMES = list(KINDS)
SCALARS = [0, 1, 4, 5, 8, 11, 13, 18, 20, 22]            # one scalar operand per exact type (None, bool, int, int, float, …)
# the extended families (`ext`) also use scalars that are falsy, negative, bytes or a timedelta: `int ** -3` is a float, `v / 0`
# raises, `date + timedelta` is a date, and a truthiness test (`if not other`) takes 0, 0j, False and '' for "no operand"
SCALARS_X = SCALARS + [2, 3, 6, 10, 12, 15, 24, 28]
NAMES = [None, "a", "b", "c", "A", "a b", "sum", "x__1", "1x", "", "b_sum", "key", "key2", "a_count", "col", "col_sum",
         "é", "a_sum2", "T", "name", " a", "b ", "A.b", "a-b"]

BIN = {"add": operator.add, "sub": operator.sub, "mul": operator.mul, "truediv": operator.truediv,
       "floordiv": operator.floordiv, "mod": operator.mod, "pow": operator.pow}
BINSYM = {"add": "+", "sub": "-", "mul": "*", "truediv": "/", "floordiv": "//", "mod": "%", "pow": "**"}
CMP = {"lt": operator.lt, "le": operator.le, "gt": operator.gt, "ge": operator.ge, "eq": operator.eq, "ne": operator.ne,
       # the logical operators go through the same helper and promise the same: a non-nullable bool vector (also for int operands,
       # whose &, |, ^ are ints in Python)
       "and": operator.and_, "or": operator.or_, "xor": operator.xor}
CMPSYM = {"lt": "<", "le": "<=", "gt": ">", "ge": ">=", "eq": "==", "ne": "!=", "and": "&", "or": "|", "xor": "^"}
UN = {"neg": operator.neg, "pos": operator.pos, "abs": operator.abs}
UNSYM = {"neg": "-{}", "pos": "+{}", "abs": "abs({})"}
CAST = {"int": int, "float": float, "str": str, "bool": bool, "complex": complex, "date": D, "datetime": DT}
AGGS = ["sum", "mean", "min", "max", "count", "stdev"]


def leaf_vals(rng, kind, n, nullable):
    pool = KINDS[kind]
    vals = [rng.choice(pool) for _ in range(n)]
    if kind == "object" and n >= 2:
        vals[0], vals[1] = pool[0], pool[1 + rng.randrange(2)]      # make it really mixed
    if nullable and n:
        vals[rng.randrange(n)] = NONE
    return vals


# ------------------------------------------------------------------------------------------------
# observation
# ------------------------------------------------------------------------------------------------
def _vec_obs(v):
    return [[tag_code(x) for x in v], dtype_wire(v.schema()), v.name]


def observe(o):
    from serif import Vector, Table
    try:
        if isinstance(o, Table):
            cols = o.cols()
            if any(isinstance(c, Table) or not isinstance(c, Vector) for c in cols):
                return ["x"]
            obs = []
            for c in cols:
                if any(isinstance(x, Vector) for x in c):
                    return ["x"]
                n = c.name
                if n is not None and not isinstance(n, str):
                    return ["x"]
                obs.append(_vec_obs(c))
            if len({len(c[0]) for c in obs}) > 1:
                return ["x"]
            return ["t", obs]
        if isinstance(o, Vector):
            if any(isinstance(x, Vector) for x in o):
                return ["x"]
            if o.name is not None and not isinstance(o.name, str):
                return ["x"]
            return ["v"] + _vec_obs(o)
    except Exception:
        return ["x"]
    return ["x"]


def sres(f):
    """exact type of a Python scalar computation, or which failure"""
    try:
        return tag_code(f())
    except TypeError:
        return -1
    except Exception:
        return -2


# ------------------------------------------------------------------------------------------------
# known findings (patterns the random families steer around; the family "known" exhibits them)
# ------------------------------------------------------------------------------------------------
def known_pattern(name, p, args):
    """id of the recorded defect this step would run into, judged from the operand observations.
    Nothing is recorded at present (to_object / cast(date) / None into an object column were repaired in /repo:
    cbd2cdb, bd89f49, cca3c72); the hook stays so that a future finding can be confined to the `known` family."""
    return None


# ------------------------------------------------------------------------------------------------
# evaluation of one node on the real code
# ------------------------------------------------------------------------------------------------
class Fail(Exception):
    pass


_RECORDED = None


def recorded_findings():
    """ids listed in known_findings.json: only those are steered around by the random families, so that a finding
    that gets repaired (and removed from the file) is exercised everywhere again"""
    global _RECORDED
    if _RECORDED is None:
        import os
        path = os.path.join(os.path.dirname(os.path.dirname(os.path.dirname(os.path.abspath(__file__)))), "known_findings.json")
        try:
            _RECORDED = {f.get("id") for f in json.load(open(path)).get("findings", [])}
        except Exception:
            _RECORDED = set()
    return _RECORDED


def _positions(key, n):
    """positions selected by a key, with Python's own sequence semantics"""
    k = key[0]
    if k == "slice":
        return list(range(*slice(key[1], key[2], key[3]).indices(n)))
    if k in ("ints", "vints", "tints"):
        return [i + n if i < 0 else i for i in key[1]]
    if k == "int":
        return [key[1] + n if key[1] < 0 else key[1]]
    if k in ("mask", "vmask"):
        return [i for i, b in enumerate(key[1]) if b]
    raise ValueError(k)


def _pykey(key):
    """the key object handed to the library.  `vmask` / `vints` are the same positions given as a bool / int *Vector*, `tints` as
    a tuple: other branches of __setitem__, same meaning"""
    k = key[0]
    if k == "slice":
        return slice(key[1], key[2], key[3])
    if k == "ints":
        return list(key[1])
    if k == "tints":
        return tuple(key[1])
    if k == "int":
        return key[1]
    if k == "mask":
        return list(key[1])
    if k in ("vmask", "vints"):
        from serif import Vector
        return Vector(list(key[1]))
    raise ValueError(k)


def _keysrc(key):
    k = key[0]
    if k == "slice":
        return ":".join("" if x is None else str(x) for x in key[1:4])
    if k in ("vmask", "vints"):
        return f"Vector({list(key[1])!r})"
    return repr(_pykey(key))


def _lsrc(node, idxs):
    """source text of a sequence operand (a list, or a tuple when the node says seq='tuple')"""
    inner = ", ".join(VSRC[i] for i in idxs)
    if node.get("seq") == "tuple":
        return "(" + inner + ("," if len(idxs) == 1 else "") + ")"
    return "[" + inner + "]"


def _lval(node, idxs):
    vals = [VALS[i] for i in idxs]
    return tuple(vals) if node.get("seq") == "tuple" else vals


def _other(node):
    """(python operand, wire encoding) of the non-Vector operand of a binary node"""
    form = node["form"]
    if form[1] == "s" or form[0] == "s":
        v = VALS[node["s"]]
        return v, ["s", tag_code(v)]
    vals = _lval(node, node["l"])
    return vals, ["l", [tag_code(x) for x in vals]]


def _bin_oracle(fn, refl, xs, ys, scalar_form, date_days):
    out = []
    for x, y in zip(xs, ys):
        if x is None or (y is None and not scalar_form):
            out.append(0)
        elif date_days:
            out.append(sres(lambda: D.fromordinal(x.toordinal() + y)))
        elif refl:
            out.append(sres(lambda: fn(y, x)))
        else:
            out.append(sres(lambda: fn(x, y)))
    return out


def _date_path(fnname, refl, a, other_is_vec, other):
    """mirrors the dispatch of `_Date.__add__`: day arithmetic for date vector + int vector / int"""
    if fnname != "add" or refl or a.schema() is None or a.schema().kind is not D:
        return False
    if other_is_vec:
        return other.schema() is not None and other.schema().kind is int
    return isinstance(other, int)


def _stable_perm(vals, reverse, na_last):
    idx = [i for i, v in enumerate(vals) if v is not None]
    nones = [i for i, v in enumerate(vals) if v is None]
    try:
        idx = sorted(idx, key=lambda i: vals[i], reverse=reverse)
    except Exception:
        pass
    return idx + nones if na_last else nones + idx


def _groups(keycols, n):
    seen, row_group = {}, []
    for i in range(n):
        k = tuple(c[i] for c in keycols)
        g = seen.get(k)
        if g is None:
            g = seen[k] = len(seen)
        row_group.append(g)
    return row_group, len(seen)


def _agg_ref(fn, vals):
    clean = [v for v in vals if v is not None]
    if fn == "sum":
        return sum(clean)
    if fn == "count":
        return len(clean)
    if fn == "mean":
        return sum(clean) / len(clean) if clean else None
    if fn == "min":
        return min(clean) if clean else None
    if fn == "max":
        return max(clean) if clean else None
    if fn == "stdev":
        if len(clean) <= 1:
            return None
        m = sum(clean) / len(clean)
        return (sum((v - m) ** 2 for v in clean) / (len(clean) - 1)) ** 0.5
    raise ValueError(fn)


def _parse_cell(value):
    if not value or value.strip() == "":
        return None
    value = value.strip()
    for f in (int, float):
        try:
            return f(value)
        except ValueError:
            pass
    return value


def _first_exact(names, j):
    return isinstance(names[j], str) and names.index(names[j]) == j


SORT_OF = {"leaf": "v", "dict": "t", "csv": "t", "arith": "v", "cmp": "v", "unary": "v", "cast": "v", "fillna": "v",
           "dropna": "v", "isna": "v", "toObject": "v", "copy": "v", "vT": "v", "sortV": "v", "getitem": "v", "getV": "v",
           "setitem": "v", "lshift": "v", "rshift": "t", "rshiftDict": "t", "table": "t", "selCol": "v", "selCols": "t",
           "row": "v", "rowsel": "t", "rowV": "t", "tarith": "t", "transposeT": "t", "join": "t", "aggregate": "t",
           "sortT": "t", "tabSet": "t", "misc": "v", "renameV": "v", "renameT": "t", "tmisc": "t", "tmiscv": "v"}

# public operations without a dtype rule in the model: judged by the specification (truthfulness) alone
MISC = {"unique": (lambda a: a.unique(), "{}.unique()"), "invert": (lambda a: ~a, "~{}"),
        "eomonth": (lambda a: a.eomonth(), "{}.eomonth()"), "pluck0": (lambda a: a.pluck(0), "{}.pluck(0)"),
        "pluckdef": (lambda a: a.pluck(1, default=0), "{}.pluck(1, default=0)"),
        "upper": (lambda a: a.upper(), "{}.upper()"), "year": (lambda a: a.year, "{}.year"),
        "bit_length": (lambda a: a.bit_length(), "{}.bit_length()"), "real": (lambda a: a.real, "{}.real"),
        "is_integer": (lambda a: a.is_integer(), "{}.is_integer()"), "strip": (lambda a: a.strip(), "{}.strip()"),
        "date": (lambda a: a.date(), "{}.date()"), "conjugate": (lambda a: a.conjugate(), "{}.conjugate()"),
        "head": (lambda a: a.head(2), "{}.head(2)") , "tail": (lambda a: a.tail(2), "{}.tail(2)"),
        "bit_lshift": (lambda a: a.bit_lshift(1), "{}.bit_lshift(1)"), "bit_rshift": (lambda a: a.bit_rshift(1), "{}.bit_rshift(1)")}


def kid_sorts(node):
    op = node["op"]
    if op in ("leaf", "dict", "csv"):
        return []
    if op == "misc":
        return [] if node["fn"] == "new" else ["v"]
    if op in ("arith", "cmp", "lshift"):
        return ["v", "v"] if node["form"] == "vv" else ["v"]
    if op in ("getV",):
        return ["v", "v"]
    if op == "rshift":
        return list(node["form"][:2]) if node["form"][1] in "vt" else [node["form"][0]]
    if op == "rshiftDict":
        return ["t"] + ["v"] * len(node["names"])
    if op == "table":
        return ["v"] * len(node["kids"])
    if op in ("selCol", "selCols", "row", "rowsel", "transposeT", "aggregate", "sortT", "tabSet", "renameT", "tmiscv"):
        return ["t"]
    if op == "tmisc":
        return ["t", "t"] if node["fn"] == "lshiftT" else ["t"]
    if op == "rowV":
        return ["t", "v"]
    if op == "tarith":
        return {"ts": ["t"], "tl": ["t"], "st": ["t"], "lt": ["t"], "tv": ["t", "v"], "tt": ["t", "t"]}[node["form"]]
    if op == "join":
        return ["t", "t"]
    return ["v"]


class Runner:
    """evaluates a tree on the real code, recording one wire step per node"""

    def __init__(self, n, steer=True):
        self.steps = []
        self.n = n
        self.steer = steer
        self.src = []          # python statements reproducing the run
        self.nvar = 0
        self.results = {}      # id(node) -> real result (used by the shrinker)
        self.pyfail = []       # name rules judged in Python (operations the Lean model refuses): texts of disagreements

    def var(self):
        self.nvar += 1
        return f"x{self.nvar}"

    def default(self, sort):
        vals = [4, 5, 3, 7, 4, 5][: self.n]
        if sort == "v":
            return {"op": "leaf", "vals": vals, "name": None}
        return {"op": "dict", "names": ["a", "b"], "cols": [vals, [8, 9, 8, 10, 9, 8][: self.n]]}

    def kid(self, node, sort):
        from serif import Table, Vector
        try:
            o, s = self.ev(node)
            ok = isinstance(o, Table) if sort == "t" else (isinstance(o, Vector) and not isinstance(o, Table))
            if ok and observe(o)[0] != "x":
                return o, s
        except Fail:
            pass
        return self.ev(self.default(sort))

    def ev(self, node):
        """returns (real object, name of the python variable holding it); raises Fail if the code refuses"""
        kids = [self.kid(k, s) for k, s in zip(node.get("kids", []), kid_sorts(node))]
        if node.get("self") and len(kids) == 2 and (node.get("form") == "vv" or len(set(kid_sorts(node)[:2])) == 1):
            kids = [kids[0], kids[0]]        # `v op v`, `v << v`, `v[v]`, `t + t`, `t.join(t, …)`: the very same object on both sides
        objs = [k[0] for k in kids]
        srcs = [k[1] for k in kids]
        args = [observe(o) for o in objs]
        name, p, orc, run, src = self.plan(node, objs, srcs)
        if self.steer and known_pattern(name, p, args) in recorded_findings():
            return kids[0]
        v = self.var()
        step = {"op": name, "p": p, "args": args, "or": orc}
        try:
            res = run()
        except Exception as e:
            step["out"] = {"err": err_class(e)}
            self.steps.append(step)
            if name in ("setitem", "tabSet"):
                # a refused in-place write: what the operand reports afterwards must still be truthful (whatever was rolled back)
                self.steps.append({"op": "opaque", "p": {"fn": "after-refused-" + name}, "args": args, "or": {},
                                   "out": {"ok": observe(objs[0])}})
            self.src.append(f"# {v} = {src(v)[0] if isinstance(src(v), tuple) else src(v)}   -> {type(e).__name__}")
            raise Fail()
        step["out"] = {"ok": observe(res)}
        self.steps.append(step)
        self.results[id(node)] = res
        s = src(v)
        if isinstance(s, tuple):
            self.src.extend(s)
        else:
            self.src.append(f"{v} = {s}")
        return res, v

    # -- one planner per operation: returns (wire name, wire params, oracles, thunk running the real code, source) --
    def plan(self, node, objs, srcs):
        from serif import Vector, Table, read_csv
        from serif.naming import _sanitize_user_name
        op = node["op"]
        if op == "leaf":
            vals = [VALS[i] for i in node["vals"]]
            nm = node.get("name")
            s = "Vector([" + ", ".join(VSRC[i] for i in node["vals"]) + "]" + (f", name={nm!r}" if nm is not None else "") + ")"
            ctor = node.get("ctor")
            if ctor:
                # other routes to the same inferred vector: a tuple, a one-shot iterator, another Vector
                wrap = {"tuple": tuple, "iter": iter, "vec": Vector}[ctor]
                inner = "[" + ", ".join(VSRC[i] for i in node["vals"]) + "]"
                s = "Vector(" + ("Vector" if ctor == "vec" else ctor) + "(" + inner + ")" + (f", name={nm!r}" if nm is not None else "") + ")"
                return ("leaf", {"tags": [tag_code(x) for x in vals], "name": nm}, {},
                        lambda: Vector(wrap(vals), name=nm) if nm is not None else Vector(wrap(vals)), lambda v: s)
            return ("leaf", {"tags": [tag_code(x) for x in vals], "name": nm}, {},
                    lambda: Vector(vals, name=nm) if nm is not None else Vector(vals), lambda v: s)
        if op == "dict":
            cols = [[VALS[i] for i in c] for c in node["cols"]]
            d = dict(zip(node["names"], cols))
            s = "Table({" + ", ".join(f"{n!r}: [" + ", ".join(VSRC[i] for i in c) + "]" for n, c in zip(node["names"], node["cols"])) + "})"
            if node.get("ctor") == "dictv":
                # the values are Vectors carrying names of their own: the dict keys are the column names
                inner = NAMES[1:4]
                return ("dict", {"names": node["names"], "cols": [[tag_code(x) for x in c] for c in cols]}, {},
                        lambda: Table({k: Vector(c, name=inner[i % 3]) for i, (k, c) in enumerate(d.items())}),
                        lambda v: "Table({" + ", ".join(f"{n!r}: Vector([" + ", ".join(VSRC[i] for i in c) + f"], name={inner[j % 3]!r})"
                                                        for j, (n, c) in enumerate(zip(node["names"], node["cols"]))) + "})")
            return ("dict", {"names": node["names"], "cols": [[tag_code(x) for x in c] for c in cols]}, {},
                    lambda: Table(d), lambda v: s)
        if op == "csv":
            text, header = node["text"], node["header"]
            import csv as _csv
            rows = list(_csv.reader(io.StringIO(text)))
            if not rows:
                p = {"hdr": None, "rows": []}
            elif header:
                p = {"hdr": rows[0], "rows": [[tag_code(_parse_cell(c)) for c in r] for r in rows[1:]]}
            else:
                p = {"hdr": None, "rows": [[tag_code(_parse_cell(c)) for c in r] for r in rows]}
                if not rows[0]:
                    p = None
            if p is None or (p["hdr"] is not None and len(p["hdr"]) == 0):
                raise Fail()       # zero-column CSV: boundary
            return ("csv", p, {}, lambda: read_csv(io.StringIO(text), has_header=header),
                    lambda v: f"read_csv(io.StringIO({text!r}), has_header={header})")
        if op == "misc" and node["fn"] == "new":
            dv, ln, ts = VALS[node["s"]], node["len"], node["typesafe"]
            return ("opaque", {"fn": "new"}, {}, lambda: Vector.new(dv, ln, typesafe=ts),
                    lambda v: f"Vector.new({VSRC[node['s']]}, {ln}, typesafe={ts})")
        a = objs[0]
        A = srcs[0]
        if op == "misc":
            if node["fn"] == "rlshift":
                vals = _lval(node, node["l"])
                return ("opaque", {"fn": "rlshift"}, {}, lambda: vals << a,
                        lambda v: _lsrc(node, node["l"]) + f" << {A}")
            f, fmt = MISC[node["fn"]]
            return ("opaque", {"fn": node["fn"]}, {}, lambda: f(a), lambda v: fmt.format(A))
        if op == "renameV":
            # a rename in place (after the vector has been looked at): every later operation sees the stored name
            nm, how = node["name"], node["how"]

            def run():
                if node.get("warm"):
                    a.fingerprint(); repr(a)
                if how == "alias":
                    a.alias(nm)
                elif how == "rename":
                    a.rename(nm)
                else:
                    a.name = nm
                if a.name != nm:
                    self.pyfail.append(f"after renaming a vector to {nm!r} ({how}) its name is {a.name!r}")
                return a
            return ("opaque", {"fn": "rename"}, {}, run,
                    lambda v: (f"{A}.alias({nm!r})" if how == "alias" else f"{A}.rename({nm!r})" if how == "rename" else f"{A}.name = {nm!r}", f"{v} = {A}"))
        if op == "renameT":
            # a column renamed through a live column view / rename_column after the table has been used (names listed, accessors
            # built, printed): the stored names are what every later operation must go by
            if not a.cols():
                raise Fail()
            j, nm, how = node["j"] % len(a.cols()), node["name"], node["how"]
            old = a.column_names()
            if how in ("getitem", "method") and not _first_exact(old, j):
                how = "cols"
            want = old[:j] + [nm] + old[j + 1:]

            def run():
                if node.get("warm"):
                    a.column_names(); dir(a); a.fingerprint(); repr(a)
                if how == "getitem":
                    a[old[j]].name = nm
                elif how == "method":
                    a.rename_column(old[j], nm)
                else:
                    a.cols(j).name = nm
                if a.column_names() != want:
                    self.pyfail.append(f"columns {old!r}: after renaming column {j} to {nm!r} ({how}) the stored names are {a.column_names()!r}")
                return a
            return ("opaque", {"fn": "renameT"}, {}, run,
                    lambda v: ((f"{A}[{old[j]!r}].name = {nm!r}" if how == "getitem" else f"{A}.rename_column({old[j]!r}, {nm!r})" if how == "method"
                                else f"{A}.cols({j}).name = {nm!r}"), f"{v} = {A}"))
        if op in ("tmisc", "tmiscv"):
            # table operations without a rule in the Lean model: the result is judged by truthfulness (C03); where the statement of C18
            # names the operation (copy, slicing, selection keep stored names in order) the names are judged here, in Python
            fn = node["fn"]
            names = a.column_names()
            nc, nr = len(names), len(a)
            keep = None
            if fn in ("neg", "pos", "abs", "invert"):
                f = {"neg": operator.neg, "pos": operator.pos, "abs": operator.abs, "invert": operator.invert}[fn]
                run, src = (lambda: f(a)), {"neg": "-{}", "pos": "+{}", "abs": "abs({})", "invert": "~{}"}[fn].format(A)
            elif fn == "lshiftT":
                b = objs[1]
                run, src = (lambda: a << b), f"{A} << {srcs[1]}"
            elif fn == "lshiftL":
                idxs = (list(node["l"]) + [NONE] * nc)[:nc]
                vals = [VALS[i] for i in idxs]
                run, src = (lambda: a << vals), f"{A} << [" + ", ".join(VSRC[i] for i in idxs) + "]"
            elif fn in ("eqS", "ltS"):
                sv = VALS[node["s"]]
                run, src = ((lambda: a == sv) if fn == "eqS" else (lambda: a < sv)), f"{A} {'==' if fn == 'eqS' else '<'} {VSRC[node['s']]}"
            elif fn == "copyT":
                run, src, keep = (lambda: a.copy()), f"{A}.copy()", (list(names) if nc else None)      # (a 0x0 table copies to a plain empty vector)
            elif fn in ("sum", "max", "min", "mean"):
                run, src = (lambda: getattr(a, fn)()), f"{A}.{fn}()"
            elif fn == "sel2dCols":          # t[r0:r1, c0:c1]: a row slice of a column slice
                r, c = slice(*node["rows"]), slice(*node["colsl"])
                run, src, keep = (lambda: a[r, c]), f"{A}[{_keysrc(['slice'] + node['rows'])}, {_keysrc(['slice'] + node['colsl'])}]", names[c]
                if nr == 0 or not names[c] or not len(range(nr)[r]):
                    keep = None             # zero-row / zero-column results: boundaries (a 0x0 table forgets its columns)
            elif fn == "sel2dNames":         # t[r0:r1, ('a', 'b')]
                r = slice(*node["rows"])
                js = [j % nc for j in node["js"]] if nc else []
                js = [j for j in js if _first_exact(names, j)]
                if not js:
                    raise Fail()
                key = tuple(names[j] for j in js)
                run, src, keep = (lambda: a[r, key]), f"{A}[{_keysrc(['slice'] + node['rows'])}, {key!r}]", list(key)
                if nr == 0 or not len(range(nr)[r]):
                    keep = None
            elif fn in ("sel2dInt", "sel2dName"):      # t[r0:r1, j] / t[r0:r1, 'a']: one column of a row slice (a vector)
                if not nc:
                    raise Fail()
                r, j = slice(*node["rows"]), node["j"] % nc
                if fn == "sel2dName":
                    if not _first_exact(names, j):
                        raise Fail()
                    run, src = (lambda: a[r, names[j]]), f"{A}[{_keysrc(['slice'] + node['rows'])}, {names[j]!r}]"
                else:
                    run, src = (lambda: a[r, j]), f"{A}[{_keysrc(['slice'] + node['rows'])}, {j}]"
                keep = names[j]
            else:
                raise ValueError(fn)

            def run2():
                res = run()
                if keep is not None or fn in ("sel2dInt", "sel2dName"):
                    got = res.column_names() if isinstance(res, Table) else res.name if isinstance(res, Vector) else "?"
                    if got != keep:
                        self.pyfail.append(f"{src.replace(A, 'T')} on columns named {names!r}: result is named {got!r}, the stored names give {keep!r}")
                return res
            return ("opaque", {"fn": fn}, {}, run2, lambda v: src)
        if op in ("arith", "cmp"):
            form, fnname = node["form"], node["fn"]
            table = BIN if op == "arith" else CMP
            sym = (BINSYM if op == "arith" else CMPSYM)[fnname]
            fn = table[fnname]
            refl = form in ("sv", "lv")
            xs = list(a)
            if form == "vv":
                b = objs[1]
                other, ow, ys, osrc = b, None, list(b), srcs[1]
            else:
                other, ow = _other(node)
                scalar = form in ("vs", "sv")
                ys = [other] * len(xs) if scalar else list(other)
                osrc = VSRC[node["s"]] if scalar else _lsrc(node, node["l"])
            scalar_form = form in ("vs", "sv")
            days = op == "arith" and _date_path(fnname, refl, a, form == "vv", other)
            if op == "cmp":
                f2 = lambda x, y: bool(fn(x, y))
            else:
                f2 = fn
            orc = {"bin": [_bin_oracle(f2, refl, xs, ys, scalar_form, days)]}
            aop = "gen"
            if op == "arith" and fnname == "add":
                aop = "radd" if refl else "add"
            p = {"other": ow}
            if op == "arith":
                p["aop"] = aop
            if refl:
                return (op, p, orc, lambda: fn(other, a), lambda v: f"{osrc} {sym} {A}")
            return (op, p, orc, lambda: fn(a, other), lambda v: f"{A} {sym} {osrc}")
        if op == "unary":
            fn = UN[node["fn"]]
            return ("unary", {}, {"un": [0 if x is None else sres(lambda: fn(x)) for x in a]}, lambda: fn(a),
                    lambda v: UNSYM[node["fn"]].format(A))
        if op == "cast":
            T = CAST[node["to"]]
            conv = {"date": D.fromisoformat, "datetime": DT.fromisoformat}.get(node["to"], T)
            return ("cast", {"k": kind_code(T)}, {"cast": [0 if x is None else sres(lambda: conv(x)) for x in a]},
                    lambda: a.cast(T), lambda v: f"{A}.cast({node['to']})")
        if op == "fillna":
            s = VALS[node["s"]]
            return ("fillna", {"t": tag_code(s)}, {}, lambda: a.fillna(s), lambda v: f"{A}.fillna({VSRC[node['s']]})")
        if op == "dropna":
            return ("dropna", {}, {}, lambda: a.dropna(), lambda v: f"{A}.dropna()")
        if op == "isna":
            return ("isna", {}, {}, lambda: a.isna(), lambda v: f"{A}.isna()")
        if op == "toObject":
            return ("toObject", {}, {}, lambda: a.to_object(), lambda v: f"{A}.to_object()")
        if op == "copy":
            return ("copy", {}, {}, lambda: a.copy(), lambda v: f"{A}.copy()")
        if op == "vT":
            return ("copy", {}, {}, lambda: a.T, lambda v: f"{A}.T")
        if op == "sortV":
            rev, nal = node["reverse"], node["na_last"]
            return ("sortV", {"perm": _stable_perm(list(a), rev, nal)}, {}, lambda: a.sort_by(reverse=rev, na_last=nal),
                    lambda v: f"{A}.sort_by(reverse={rev}, na_last={nal})")
        if op == "getitem":
            key = node["key"]
            pk = _pykey(key)
            if key[0] == "mask":
                p, nm = {"m": list(key[1])}, "getMask"
            else:
                pos = _positions(key, len(a))
                if any(i < 0 or i >= len(a) for i in pos):
                    pos = [len(a)]          # out of range: the model refuses as well
                p, nm = {"idx": pos}, "getIdx"
            return (nm, p, {}, lambda: a[pk], lambda v: f"{A}[{_keysrc(key)}]")
        if op == "getV":
            k = objs[1]
            kv = list(k)
            n = len(a)
            p = {"m": [bool(x) for x in kv]}
            try:
                p["idx"] = [int(x + n if x < 0 else x) if isinstance(x, int) and -n <= x < n else n for x in kv]
            except Exception:
                p["idx"] = [n]
            return ("getV", p, {}, lambda: a[k], lambda v: f"{A}[{srcs[1]}]")
        if op in ("setitem", "tabSet"):
            key, val = node["key"], node["val"]
            if op == "tabSet":
                if not a.cols():
                    raise Fail()
                j = node["j"] % len(a.cols())
                n = len(a)
            else:
                n = len(a)
            try:
                pos = _positions(key, n)
            except Exception:
                raise Fail()
            if any(i < 0 or i >= n for i in pos) or (key[0] in ("mask", "vmask") and len(key[1]) != n) or (key[0] in ("ints", "vints", "tints") and not pos):
                raise Fail()            # key errors belong to C07/C08
            if val[0] == "s":
                pv = VALS[val[1]]
                newvals = [pv] * len(pos)
                vsrc = VSRC[val[1]]
            elif val[0] == "self":
                # `v[:] = v`, `v[::-1] = v`: the value is the very vector being written
                if op != "setitem" or key[0] != "slice" or len(pos) != n:
                    raise Fail()
                pv, newvals, vsrc = a, list(a), A
            else:
                pv = [VALS[i] for i in val[1]]
                vform = val[2] if len(val) > 2 else None
                if key[0] == "int":
                    if vform == "vec":
                        raise Fail()        # a vector as an element: nested vectors are not modelled
                    if vform == "tuple":
                        pv = tuple(pv)
                    newvals = [pv]          # a single position receives the list itself
                elif len(pv) != len(pos):
                    raise Fail()
                else:
                    newvals = pv
                vsrc = "[" + ", ".join(VSRC[i] for i in val[1]) + "]"
                if vform == "tuple":
                    pv, vsrc = tuple(pv), "tuple(" + vsrc + ")"
                elif vform == "vec":
                    pv, vsrc = Vector(pv), "Vector(" + vsrc + ")"
            ups = [[i, tag_code(x)] for i, x in zip(pos, newvals)]
            pk = _pykey(key)
            if op == "setitem":
                def run():
                    a[pk] = pv
                    return a
                return ("setitem", {"ups": ups}, {}, run, lambda v: (f"{A}[{_keysrc(key)}] = {vsrc}", f"{v} = {A}"))

            def run():
                a[pk, j] = pv
                return a
            return ("tabSet", {"j": j, "ups": ups}, {}, run, lambda v: (f"{A}[{_keysrc(key)}, {j}] = {vsrc}", f"{v} = {A}"))
        if op == "lshift":
            if node["form"] == "vv":
                b = objs[1]
                return ("lshift", {"other": None}, {}, lambda: a << b, lambda v: f"{A} << {srcs[1]}")
            other, ow = _other(node)
            osrc = VSRC[node["s"]] if node["form"] == "vs" else _lsrc(node, node["l"])
            return ("lshift", {"other": ow}, {}, lambda: a << other, lambda v: f"{A} << {osrc}")
        if op == "rshift":
            if node["form"][1] in "vt":
                b = objs[1]
                return ("rshift", {"other": None}, {}, lambda: a >> b, lambda v: f"{A} >> {srcs[1]}")
            vals = _lval(node, node["l"])
            return ("rshift", {"other": ["l", [tag_code(x) for x in vals]]}, {}, lambda: a >> vals,
                    lambda v: f"{A} >> " + _lsrc(node, node["l"]))
        if op == "rshiftDict":
            d = dict(zip(node["names"], objs[1:]))
            if len(d) != len(node["names"]):
                raise Fail()
            return ("rshiftDict", {"names": node["names"]}, {}, lambda: a >> d,
                    lambda v: f"{A} >> {{" + ", ".join(f"{n!r}: {s}" for n, s in zip(node["names"], srcs[1:])) + "}")
        if op == "table":
            return ("table", {}, {}, lambda: Table(list(objs)), lambda v: "Table([" + ", ".join(srcs) + "])")
        # ---- table operand ----
        names = a.column_names()
        ncols = len(names)
        if op == "selCol":
            if not ncols:
                raise Fail()
            j = node["j"] % ncols
            if _first_exact(names, j):
                return ("selCol", {"j": j}, {}, lambda: a[names[j]], lambda v: f"{A}[{names[j]!r}]")
            return ("selCol", {"j": j}, {}, lambda: a.cols(j), lambda v: f"{A}.cols({j})")
        if op == "selCols":
            if not ncols:
                raise Fail()
            js = [j % ncols for j in node["js"]]
            js = [j for j in js if _first_exact(names, j)]
            if not js:
                raise Fail()
            key = tuple(names[j] for j in js)
            return ("selCols", {"js": js}, {}, lambda: a[key], lambda v: f"{A}[{key!r}]")
        if op == "row":
            if not len(a):
                raise Fail()
            i = node["i"] % len(a)
            return ("row", {"i": i}, {}, lambda: a[i], lambda v: f"{A}[{i}]")
        if op == "rowsel":
            key = node["key"]
            pk = _pykey(key)
            if key[0] == "mask":
                return ("rowMask", {"m": list(key[1])}, {}, lambda: a[pk], lambda v: f"{A}[{_keysrc(key)}]")
            return ("rowIdx", {"idx": _positions(key, len(a))}, {}, lambda: a[pk], lambda v: f"{A}[{_keysrc(key)}]")
        if op == "rowV":
            k = objs[1]
            kv = list(k)
            n = len(a)
            p = {"m": [bool(x) for x in kv]}
            try:
                p["idx"] = [int(x + n if x < 0 else x) if isinstance(x, int) and -n <= x < n else n for x in kv]
            except Exception:
                p["idx"] = [n]
            return ("rowV", p, {}, lambda: a[k], lambda v: f"{A}[{srcs[1]}]")
        if op == "tarith":
            form, fnname = node["form"], node["fn"]
            fn, sym = BIN[fnname], BINSYM[fnname]
            aop = "add" if fnname == "add" else "gen"
            cols = a.cols()
            if form in ("ts", "tl", "st", "lt"):
                refl = form in ("st", "lt")          # scalar / list on the LEFT of the table
                node2 = dict(node, form="vs" if form in ("ts", "st") else "vl")
                other, ow = _other(node2)
                scalar = form in ("ts", "st")
                osrc = VSRC[node["s"]] if scalar else _lsrc(node, node["l"])
                orc = []
                for c in cols:
                    xs = list(c)
                    ys = [other] * len(xs) if scalar else list(other)
                    orc.append(_bin_oracle(fn, refl, xs, ys, scalar, _date_path(fnname, refl, c, False, other)))
                if refl:
                    return ("tarith", {"aop": "radd" if fnname == "add" else "gen", "other": ow}, {"bin": orc}, lambda: fn(other, a),
                            lambda v: f"{osrc} {sym} {A}")
                return ("tarith", {"aop": aop, "other": ow}, {"bin": orc}, lambda: fn(a, other), lambda v: f"{A} {sym} {osrc}")
            b = objs[1]
            orc = []
            if form == "tv":
                for c in cols:
                    orc.append(_bin_oracle(fn, False, list(c), list(b), False, _date_path(fnname, False, c, True, b)))
            else:
                for c, d in zip(cols, b.cols()):
                    orc.append(_bin_oracle(fn, False, list(c), list(d), False, _date_path(fnname, False, c, True, d)))
            return ("tarith", {"aop": aop, "other": None}, {"bin": orc}, lambda: fn(a, b), lambda v: f"{A} {sym} {srcs[1]}")
        if op == "transposeT":
            return ("transposeT", {}, {}, lambda: a.T, lambda v: f"{A}.T")
        if op == "join":
            b = objs[1]
            if not ncols or not b.cols():
                raise Fail()
            lk, rk = node["lk"] % ncols, node["rk"] % len(b.cols())
            if node.get("adapt", True):
                # prefer a pair of key columns the join accepts (same kind, not float): most random pairs are refused
                ok = [(i, j) for i, c in enumerate(a.cols()) for j, d in enumerate(b.cols())
                      if c.schema() is not None and d.schema() is not None and c.schema().kind is d.schema().kind
                      and c.schema().kind in (int, str, bool, D, DT, object)]
                if ok and (node["lk"] + node["rk"]) % 4:
                    lk, rk = ok[(node["lk"] * 3 + node["rk"]) % len(ok)]
            L, R = list(a.cols()[lk]), list(b.cols()[rk])
            how = node["how"]
            pairs, matched = [], set()
            for i, x in enumerate(L):
                hit = False
                for j, y in enumerate(R):
                    try:
                        same = (x,) == (y,)
                    except Exception:
                        same = False
                    if same:
                        pairs.append([i, j]); matched.add(j); hit = True
                if not hit and how != "inner":
                    pairs.append([i, None])
            if how == "full":
                pairs += [[None, j] for j in range(len(R)) if j not in matched]
            meth = {"inner": "inner_join", "left": "join", "full": "full_join"}[how]
            lcol, rcol = a.cols()[lk], b.cols()[rk]
            lsrc, rsrc = f"{A}.cols({lk})", f"{srcs[1]}.cols({rk})"
            af = node.get("argform")
            if af == "name":
                # the key columns given by their stored names (when the name reaches exactly that column)
                bn = b.column_names()
                try:
                    if _first_exact(names, lk) and a[names[lk]] is lcol and _first_exact(bn, rk) and b[bn[rk]] is rcol:
                        lcol, rcol, lsrc, rsrc = names[lk], bn[rk], repr(names[lk]), repr(bn[rk])
                except Exception:
                    pass
            elif af == "list":
                lcol, rcol, lsrc, rsrc = [lcol], [rcol], f"[{lsrc}]", f"[{rsrc}]"
            return ("join", {"kind": how, "pairs": pairs}, {},
                    lambda: getattr(a, meth)(b, lcol, rcol, expect="many_to_many"),
                    lambda v: f"{A}.{meth}({srcs[1]}, {lsrc}, {rsrc}, expect='many_to_many')")
        if op == "aggregate":
            if not ncols:
                raise Fail()
            cols = a.cols()
            keys = [j % ncols for j in node["keys"]]
            if not keys:
                raise Fail()
            p = {"window": node["window"], "keys": keys}
            kw, flat = {}, []
            af = node.get("argform")

            def colspec(j):
                """how column j is named in the call: the column object, or (argform 'name') its stored name when that reaches it"""
                if af in ("name", "acc") and isinstance(names[j], str):
                    # 'acc': a spelling that is not the stored name but reaches the same column (lower case / sanitised accessor);
                    # the outputs are named after the STORED name all the same
                    cands = ([_sanitize_user_name(names[j]), names[j].lower()] if af == "acc" else []) + [names[j]]
                    for c in cands:
                        try:
                            if isinstance(c, str) and a[c] is cols[j]:
                                return c, repr(c)
                        except Exception:
                            pass
                return cols[j], f"{A}.cols({j})"

            def pack(js):
                """the argument for a list of columns: a list, a tuple, or (argform 'single') the bare column when there is one"""
                specs = [colspec(j) for j in js]
                if af == "single" and len(specs) == 1:
                    return specs[0]
                if af == "tuple":
                    return tuple(x for x, _ in specs), "(" + ", ".join(t for _, t in specs) + ",)"
                return [x for x, _ in specs], "[" + ", ".join(t for _, t in specs) + "]"
            asrc_parts = []
            for f in AGGS:
                js = [j % ncols for j in node.get(f, [])]
                p[f] = js
                if js:
                    kw[f + "_over"], t_ = pack(js)
                    asrc_parts.append(f", {f}_over={t_}")
                    flat += [(j, f, None) for j in js]
            apply = [[nm, j % ncols] for nm, j in node.get("apply", [])]
            if len({nm for nm, _ in apply}) != len(apply):
                raise Fail()
            p["apply"] = apply
            if apply:
                kw["apply"] = {nm: (colspec(j)[0], len) for nm, j in apply}
                flat += [(j, "len", nm) for nm, j in apply]
            try:
                row_group, ng = _groups([list(cols[k]) for k in keys], len(a))
            except TypeError:
                raise Fail()            # unhashable key values
            p["rowGroup"], p["ngroups"] = row_group, ng
            members = [[i for i, g in enumerate(row_group) if g == gg] for gg in range(ng)]
            agg = []
            for j, f, nm in flat:
                data = list(cols[j])
                if f == "len":
                    agg.append([tag_code(len(m)) for m in members])
                else:
                    agg.append([sres(lambda: _agg_ref(f, [data[i] for i in m])) for m in members])
            san = []
            for j, f, nm in flat:
                if f != "len":
                    base = names[j] or "col"
                    # non-string names are defined through their str() form: ask for that (a cache keyed on the raw
                    # name object must not be able to answer for another object that merely hashes equal)
                    san.append([base, _sanitize_user_name(base if isinstance(base, str) else str(base))])
            meth = "window" if node["window"] else "aggregate"
            over, ksrc = pack(keys)
            asrc = "".join(asrc_parts)
            if apply:
                asrc += ", apply={" + ", ".join(f"{nm!r}: ({colspec(j)[1]}, len)" for nm, j in apply) + "}"
            return ("aggregate", p, {"agg": agg, "san": san}, lambda: getattr(a, meth)(over=over, **kw),
                    lambda v: f"{A}.{meth}(over={ksrc}{asrc})")
        if op == "sortT":
            if not ncols:
                raise Fail()
            j = node["by"] % ncols
            rev, nal = node["reverse"], node["na_last"]
            col = a.cols()[j]
            return ("sortT", {"perm": _stable_perm(list(col), rev, nal)}, {}, lambda: a.sort_by(col, reverse=rev, na_last=nal),
                    lambda v: f"{A}.sort_by({A}.cols({j}), reverse={rev}, na_last={nal})")
        raise ValueError(op)


# ------------------------------------------------------------------------------------------------
# program generation
# ------------------------------------------------------------------------------------------------
def rand_leaf(rng, n, named=True):
    kind = rng.choice(["int", "int", "float", "bool", "str", "date", "object", "complex", "datetime", "int", "float"])
    return {"op": "leaf", "vals": leaf_vals(rng, kind, n, rng.random() < 0.35),
            "name": rng.choice(NAMES) if named and rng.random() < 0.6 else None}


def rand_key(rng, n, allow_int=False):
    r = rng.random()
    if allow_int and n and r < 0.3:
        return ["int", rng.randrange(-n, n)]
    if r < 0.55:
        return ["slice", rng.choice([None, 0, 1, -1, 2, 5]), rng.choice([None, 0, 1, 2, -1, 9]), rng.choice([None, None, 1, 2, -1])]
    if r < 0.8:
        return ["mask", [rng.random() < 0.5 for _ in range(n)]]
    return ["ints", [rng.randrange(-n, n) for _ in range(rng.randint(1, 3))] if n else [0]]


def rand_table_leaf(rng, n):
    r = rng.random()
    if r < 0.45:
        k = rng.randint(1, 3)
        names = rng.sample([x for x in NAMES if x is not None], k)
        kinds = [rng.choice(["int", "int", "float", "str", "bool", "date", "object"]) for _ in range(k)]
        return {"op": "dict", "names": names, "cols": [leaf_vals(rng, kd, n, rng.random() < 0.3) for kd in kinds]}
    if r < 0.6:
        cells = ["", "1", "2.5", "x", " 7 ", "-3", "1e3", "a b", "None"]
        k = rng.randint(1, 3)
        hdr = rng.random() < 0.75
        lines = []
        if hdr:
            lines.append(",".join(rng.choice(["a", "b", "A", "a b", "", "sum", "1x", " a", "b ", "a"]) for _ in range(k)))
        for _ in range(n):
            lines.append(",".join(rng.choice(cells) for _ in range(rng.choice([k, k, k, max(1, k - 1), k + 1]))))
        return {"op": "csv", "text": "\n".join(lines) + ("\n" if lines else ""), "header": hdr}
    # list form: repeated / missing names are possible
    k = rng.randint(1, 3)
    return {"op": "table", "kids": [rand_leaf(rng, n) for _ in range(k)]}


VOPS = ["misc", "misc", "arith", "arith", "arith", "cmp", "unary", "cast", "fillna", "dropna", "isna", "toObject", "copy", "vT", "sortV",
        "getitem", "getitem", "getV", "setitem", "setitem", "lshift", "selCol", "selCol", "row"]
TOPS = ["rshift", "rshift", "rshiftDict", "table", "selCols", "rowsel", "rowsel", "rowV", "tarith", "tarith", "transposeT",
        "join", "join", "aggregate", "aggregate", "sortT", "tabSet"]


VOPS_X = VOPS + ["renameV", "renameV", "tmiscv", "tmiscv", "setitem", "setitem", "lshift"]
TOPS_X = TOPS + ["renameT", "renameT", "renameT", "tmisc", "tmisc", "tmisc", "tmisc"]
TMISC = ["neg", "pos", "abs", "invert", "lshiftT", "lshiftL", "eqS", "ltS", "copyT", "copyT", "sum", "max", "min", "mean",
         "sel2dCols", "sel2dCols", "sel2dNames", "sel2dNames"]


def _rows(rng):
    return [rng.choice([None, 0, 1]), rng.choice([None, 1, 2, -1, 9]), rng.choice([None, None, 1, 2, -1])]


def build_x(rng, sort, depth, n, big=False):
    """the extended programs: everything `build` makes, plus the operand FORMS and object STATES it never produces — sequence operands
    as tuples, keys as bool/int Vectors and tuples, values as Vectors / tuples / the written vector itself, the same object on both
    sides of <<, >>, v[v], t + t and joins, constructor routes (tuple, iterator, Vector, dict of named Vectors), falsy / negative /
    bytes / timedelta scalars, key and aggregand columns given by name / bare / as tuples, vectors and table columns renamed in place
    after the object has been used, and the table operations the model has no rule for (unary, <<, comparison, copy, reductions,
    2-D selection; judged by truthfulness, names in Python)"""
    if depth <= 0 or rng.random() < 0.12:
        leaf = rand_leaf(rng, n) if sort == "v" else rand_table_leaf(rng, n)
        if leaf["op"] == "leaf" and rng.random() < 0.3:
            leaf["ctor"] = rng.choice(["tuple", "iter", "vec"])
        if leaf["op"] == "dict" and rng.random() < 0.4:
            leaf["ctor"] = "dictv"
        return leaf
    op = rng.choice(VOPS_X if sort == "v" else TOPS_X)
    if big and op in ("join", "transposeT"):
        op = "sortT"              # a many-to-many join / a transposition of a long table is quadratic: C09-C11 / C02 do long ones
    sub = lambda s: build_x(rng, s, depth - 1, n, big)
    if op == "renameV":
        return {"op": op, "name": rng.choice(NAMES), "how": rng.choice(["attr", "attr", "alias", "rename"]), "warm": rng.random() < 0.5,
                "kids": [sub("v")]}
    if op == "renameT":
        return {"op": op, "j": rng.randrange(4), "name": rng.choice(NAMES[1:] + [None]), "how": rng.choice(["cols", "getitem", "method"]),
                "warm": rng.random() < 0.7, "kids": [sub("t")]}
    if op == "tmisc":
        fn = rng.choice(TMISC)
        node = {"op": op, "fn": fn, "kids": [sub("t"), sub("t")] if fn == "lshiftT" else [sub("t")]}
        if fn == "lshiftT" and rng.random() < 0.2:
            node["self"] = True
        if fn == "lshiftL":
            node["l"] = [rng.choice(SCALARS_X) for _ in range(3)]
        if fn in ("eqS", "ltS"):
            node["s"] = rng.choice(SCALARS_X)
        if fn.startswith("sel2d"):
            node.update(rows=_rows(rng), colsl=[rng.choice([None, 0, 1]), rng.choice([None, 1, 2]), None], js=[rng.randrange(4) for _ in range(rng.randint(1, 3))])
        return node
    if op == "tmiscv":
        return {"op": op, "fn": rng.choice(["sel2dInt", "sel2dName"]), "rows": _rows(rng), "j": rng.randrange(4), "kids": [sub("t")]}
    node = build(rng, sort, 1, n, op=op)          # the plain node of this operation …
    if op in ("getV", "rowV"):
        node["kids"][0] = sub(kid_sorts(node)[0])          # (the key sub-program stays a likely mask / position vector)
    else:
        node["kids"] = [sub(k) for k in kid_sorts(node)]   # … over sub-programs of the extended kind
    if op in ("arith", "cmp", "lshift", "tarith", "fillna") and "s" in node and rng.random() < 0.5:
        node["s"] = rng.choice(SCALARS_X)
    if "l" in node and rng.random() < 0.5:
        node["seq"] = "tuple"
    if len(node["kids"]) == 2 and len(set(kid_sorts(node)[:2])) == 1 and op in ("arith", "cmp", "lshift", "rshift", "getV", "tarith", "join") \
            and rng.random() < 0.2:
        node["self"] = True
    if op == "setitem":
        key, val = node["key"], node["val"]
        if key[0] == "mask" and rng.random() < 0.6:
            key = ["vmask", key[1]]
        elif key[0] == "ints" and rng.random() < 0.7:
            key = [rng.choice(["vints", "tints"]), key[1]]
        if val[0] == "l" and rng.random() < 0.6:
            val = ["l", val[1], rng.choice(["tuple", "vec"])]
        if rng.random() < 0.12:
            key, val = ["slice", None, None, rng.choice([None, -1])], ["self"]
        node["key"], node["val"] = key, val
    if op == "join":
        node["argform"] = rng.choice([None, "name", "name", "list"])
    if op == "aggregate":
        node["argform"] = rng.choice([None, "name", "acc", "acc", "single", "tuple"])
    return node


def build(rng, sort, depth, n, op=None):
    if op is None:
        if depth <= 0 or rng.random() < 0.12:
            return rand_leaf(rng, n) if sort == "v" else rand_table_leaf(rng, n)
        op = rng.choice(VOPS if sort == "v" else TOPS)
    sub = lambda s: build(rng, s, depth - 1, n)
    vals = lambda k=None: leaf_vals(rng, k or rng.choice(KIND_NAMES), n, rng.random() < 0.3)
    if op in ("arith", "cmp"):
        form = rng.choice(["vv", "vv", "vs", "vl"] + (["sv", "lv"] if op == "arith" else []))
        node = {"op": op, "fn": rng.choice(list(BIN if op == "arith" else CMP)), "form": form,
                "kids": [sub("v"), sub("v")] if form == "vv" else [sub("v")]}
        if form == "vv" and rng.random() < 0.15:
            node["self"] = True
        if "s" in form:
            node["s"] = rng.choice(SCALARS)
        if "l" in form:
            node["l"] = vals()
        return node
    if op == "unary":
        return {"op": op, "fn": rng.choice(list(UN)), "kids": [sub("v")]}
    if op == "misc":
        r = rng.random()
        if r < 0.15:
            return {"op": op, "fn": "new", "s": rng.choice(SCALARS), "len": rng.choice([0, 1, n]), "typesafe": rng.random() < 0.5, "kids": []}
        if r < 0.3:
            return {"op": op, "fn": "rlshift", "l": vals(), "kids": [sub("v")]}
        return {"op": op, "fn": rng.choice(list(MISC)), "kids": [sub("v")]}
    if op == "cast":
        return {"op": op, "to": rng.choice(list(CAST)), "kids": [sub("v")]}
    if op == "fillna":
        return {"op": op, "s": rng.choice(SCALARS), "kids": [sub("v")]}
    if op in ("dropna", "isna", "toObject", "copy", "vT"):
        return {"op": op, "kids": [sub("v")]}
    if op == "sortV":
        return {"op": op, "reverse": rng.random() < 0.5, "na_last": rng.random() < 0.5, "kids": [sub("v")]}
    if op == "getitem":
        return {"op": op, "key": rand_key(rng, n), "kids": [sub("v")]}
    if op == "getV":
        r = rng.random()
        if r < 0.5:
            key = {"op": "cmp", "fn": rng.choice(list(CMP)), "form": "vs", "s": rng.choice([4, 5, 8, 13]), "kids": [sub("v")]}
        elif r < 0.8:
            key = {"op": "leaf", "vals": [rng.choice([3, 4, 5, 6]) for _ in range(rng.randint(0, 3))], "name": None}
        else:
            key = sub("v")
        return {"op": op, "kids": [sub("v"), key]}
    if op == "setitem":
        key = rand_key(rng, n, allow_int=True)
        val = ["s", rng.choice(SCALARS + [4, 8, 0])] if rng.random() < 0.6 else ["l", [rng.choice(SCALARS) for _ in range(rng.randint(0, 3))]]
        return {"op": op, "key": key, "val": val, "kids": [sub("v")]}
    if op == "lshift":
        form = rng.choice(["vv", "vs", "vl"])
        node = {"op": op, "form": form, "kids": [sub("v"), sub("v")] if form == "vv" else [sub("v")]}
        if form == "vs":
            node["s"] = rng.choice(SCALARS)
        if form == "vl":
            node["l"] = leaf_vals(rng, rng.choice(KIND_NAMES), rng.randint(0, 2), rng.random() < 0.3)
        return node
    if op == "selCol":
        return {"op": op, "j": rng.randrange(4), "kids": [sub("t")]}
    if op == "row":
        return {"op": op, "i": rng.randrange(4), "kids": [sub("t")]}
    if op == "rshift":
        form = rng.choice(["vv", "vt", "tv", "tt", "vl", "tl"])
        node = {"op": op, "form": form, "kids": [sub(form[0])] + ([sub(form[1])] if form[1] in "vt" else [])}
        if form[1] == "l":
            node["l"] = vals()
        return node
    if op == "rshiftDict":
        k = rng.randint(1, 2)
        return {"op": op, "names": rng.sample([x for x in NAMES if x is not None], k), "kids": [sub("t")] + [sub("v") for _ in range(k)]}
    if op == "table":
        return {"op": op, "kids": [sub("v") for _ in range(rng.randint(1, 3))]}
    if op == "selCols":
        return {"op": op, "js": [rng.randrange(4) for _ in range(rng.randint(1, 3))], "kids": [sub("t")]}
    if op == "rowsel":
        key = rand_key(rng, n)
        if key[0] == "ints":
            key = ["slice", None, None, -1]
        return {"op": op, "key": key, "kids": [sub("t")]}
    if op == "rowV":
        r = rng.random()
        if r < 0.6:
            key = {"op": "cmp", "fn": rng.choice(list(CMP)), "form": "vs", "s": rng.choice([4, 5, 8]), "kids": [rand_leaf(rng, n)]}
        else:
            key = {"op": "leaf", "vals": [rng.choice([3, 4, 5]) for _ in range(rng.randint(0, 3))], "name": None}
        return {"op": op, "kids": [sub("t"), key]}
    if op == "tarith":
        form = rng.choice(["ts", "ts", "tl", "tv", "tt", "tt", "st", "st", "lt"])
        node = {"op": op, "fn": rng.choice(list(BIN)), "form": form,
                "kids": [sub("t")] + ([sub("v")] if form == "tv" else [sub("t")] if form == "tt" else [])}
        if form in ("ts", "st"):
            node["s"] = rng.choice(SCALARS)
        if form in ("tl", "lt"):
            node["l"] = vals()
        return node
    if op == "transposeT":
        return {"op": op, "kids": [sub("t")]}
    if op == "join":
        return {"op": op, "how": rng.choice(["inner", "left", "full"]), "lk": rng.randrange(3), "rk": rng.randrange(3),
                "kids": [sub("t"), sub("t")]}
    if op == "aggregate":
        node = {"op": op, "window": rng.random() < 0.4, "keys": [rng.randrange(3) for _ in range(rng.choice([1, 1, 2]))],
                "kids": [sub("t")]}
        for f in rng.sample(AGGS, rng.randint(0, 3)):
            node[f] = [rng.randrange(3) for _ in range(rng.choice([1, 1, 2]))]
        if rng.random() < 0.3:
            node["apply"] = [[nm, rng.randrange(3)] for nm in rng.sample(["n", "a", "b_sum", "key", "a_count2", "col_sum"], rng.randint(1, 2))]
        return node
    if op == "sortT":
        return {"op": op, "by": rng.randrange(3), "reverse": rng.random() < 0.5, "na_last": rng.random() < 0.5, "kids": [sub("t")]}
    if op == "tabSet":
        key = rand_key(rng, n, allow_int=True)
        if key[0] in ("mask", "ints"):
            key = ["int", 0]
        return {"op": op, "j": rng.randrange(3), "key": key, "val": ["s", rng.choice(SCALARS + [4, 8, 0])], "kids": [sub("t")]}
    raise ValueError(op)


def expand(spec):
    """a seeded spec names a tree; an explicit spec carries it"""
    if "tree" in spec:
        return spec["tree"], spec.get("n", 3)
    rng = random.Random(spec["seed"])
    n = rng.choice([0, 1, 2, 3, 3, 3, 4])
    sort = "t" if (spec.get("sort") == "t" or (spec.get("sort") is None and rng.random() < 0.45)) else "v"
    if spec.get("ext"):
        n = spec.get("n", n)            # the `big` family: vectors beyond any size threshold a fast path might have
        return build_x(rng, sort, spec.get("depth", 3), n, big=n > 16), n
    return build(rng, sort, spec.get("depth", 3), n), n


def explicit(spec):
    tree, n = expand(spec)
    return {"fam": spec["fam"], "tree": tree, "n": n, **({"known": True} if spec.get("known") else {})}


def py_fail_text(r, pid):
    """name rules of operations the Lean model has no rule for are judged in Python, and reported for C18"""
    if pid == "C18" and r.pyfail:
        return "judged in Python (no rule in the Lean model): " + "; ".join(r.pyfail[:3])
    return None


def run_spec(spec):
    import warnings
    tree, n = expand(spec)
    r = Runner(n, steer=not spec.get("known"))
    with warnings.catch_warnings():
        warnings.simplefilter("ignore")
        try:
            r.ev(tree)
        except Fail:
            pass
    return r


def execute(spec, pid):
    r = run_spec(spec)
    if not r.steps:
        return {"skip": "nothing was evaluated"}
    w = {"fam": spec["fam"], "p": pid, "case": {"steps": r.steps}, "impl": [[s["op"], s["out"]] for s in r.steps]}
    pf = py_fail_text(r, pid)
    if pf:
        w["py_fail"] = pf
    return w


# ------------------------------------------------------------------------------------------------
# the exhaustive small scopes
# ------------------------------------------------------------------------------------------------
def typed_leaf(kind, nullable, length, name=None, variant=0):
    """a leaf of the given inferred dtype; length 0 of a *typed* vector is a slice of a length-1 one"""
    if kind == "untyped":
        return {"op": "leaf", "vals": [], "name": name}      # Vector([]): schema() is None
    pool = KINDS[kind]
    if kind == "object":
        vals = [pool[0], pool[1], pool[2]][:max(length, 2)]
    else:
        vals = [pool[(variant + i) % len(pool)] for i in range(max(length, 1))]
    if nullable:
        vals = vals + [NONE] if length in (0, 1) else vals[:-1] + [NONE]
    if kind == "object" and length == 1 and not nullable:
        # a single element cannot be of mixed type: the object column is a 2-element one sliced to 1
        return {"op": "getitem", "key": ["slice", 0, 1, None], "kids": [{"op": "leaf", "vals": vals, "name": name}]}
    leaf = {"op": "leaf", "vals": vals, "name": name}
    if length == 0:
        return {"op": "getitem", "key": ["slice", 0, 0, None], "kids": [leaf]}
    if len(vals) != length:
        return {"op": "getitem", "key": ["slice", 0, length, None], "kids": [leaf]} if not nullable else \
               {"op": "getitem", "key": ["slice", len(vals) - length, None, None], "kids": [leaf]}
    return leaf


def exhaustive_ops(tier):
    """every unary/binary/reflected operator × operand form × pair of leaf dtypes × nullable × length {0,1,3}"""
    lengths = [0, 1, 3]
    for length in lengths:
        kinds = KIND_NAMES + (["untyped"] if length == 0 else [])
        for k1 in kinds:
            for n1 in (False, True):
                if k1 == "untyped" and n1:
                    continue
                a = typed_leaf(k1, n1, length, name="a")
                for fn in UN:
                    yield {"fam": "ops", "n": length, "tree": {"op": "unary", "fn": fn, "kids": [a]}}
                for k2 in kinds:
                    for n2 in (False, True):
                        if k2 == "untyped" and n2:
                            continue
                        b = typed_leaf(k2, n2, length, name="b", variant=1)
                        lvals = [] if k2 == "untyped" else leaf_vals(random.Random(KIND_NAMES.index(k2) * 100 + n2 * 10 + length), k2, length, n2)
                        sidx = NONE if n2 else KINDS["int" if k2 == "untyped" else k2][0]
                        for op, table, forms in (("arith", BIN, ("vv", "vs", "vl", "sv", "lv")), ("cmp", CMP, ("vv", "vs", "vl"))):
                            for fn in table:
                                for form in forms:
                                    if "s" in form and n2 and k2 != "int":
                                        continue        # the scalar None is the same operand for every k2
                                    node = {"op": op, "fn": fn, "form": form, "kids": [a, b] if form == "vv" else [a]}
                                    if "s" in form:
                                        node["s"] = sidx
                                    if "l" in form:
                                        node["l"] = lvals
                                    yield {"fam": "ops", "n": length, "tree": node}


def exhaustive_structural(tier):
    """every structural / typed operation on every leaf dtype × nullable × length"""
    for length in (0, 1, 3):
        kinds = KIND_NAMES + (["untyped"] if length == 0 else [])
        for k1 in kinds:
            for n1 in (False, True):
                if k1 == "untyped" and n1:
                    continue
                for name in ("a", None):
                    a = typed_leaf(k1, n1, length, name=name)
                    one = lambda node: {"fam": "struct", "n": length, "tree": node}
                    for op in ("dropna", "isna", "toObject", "copy", "vT"):
                        yield one({"op": op, "kids": [a]})
                    for fn in MISC:
                        yield one({"op": "misc", "fn": fn, "kids": [a]})
                    if name is None:
                        for s in SCALARS:
                            yield one({"op": "misc", "fn": "rlshift", "l": [s] * min(length, 2), "kids": [a]})
                            if not n1 and k1 == kinds[0]:
                                for ts in (False, True):
                                    yield one({"op": "misc", "fn": "new", "s": s, "len": length, "typesafe": ts, "kids": []})
                    for to in CAST:
                        yield one({"op": "cast", "to": to, "kids": [a]})
                    for s in SCALARS:
                        yield one({"op": "fillna", "s": s, "kids": [a]})
                        yield one({"op": "lshift", "form": "vs", "s": s, "kids": [a]})
                        if length:
                            yield one({"op": "setitem", "key": ["int", length - 1], "val": ["s", s], "kids": [a]})
                            yield one({"op": "setitem", "key": ["slice", None, None, None], "val": ["s", s], "kids": [a]})
                            yield one({"op": "tabSet", "j": 0, "key": ["int", 0], "val": ["s", s],
                                       "kids": [{"op": "table", "kids": [a]}]})
                    for rev in (False, True):
                        for nal in (False, True):
                            yield one({"op": "sortV", "reverse": rev, "na_last": nal, "kids": [a]})
                    for key in (["slice", None, None, None], ["slice", 1, None, None], ["slice", None, None, -1], ["slice", 5, 9, None],
                                ["mask", [i % 2 == 0 for i in range(length)]], ["ints", [0, -1] if length else [0]]):
                        yield one({"op": "getitem", "key": key, "kids": [a]})
                    if length:
                        for s1, s2 in ((4, 8), (8, 13), (0, 11), (1, 4), (18, 20), (8, 0)):
                            yield one({"op": "setitem", "key": ["slice", 0, 2, None], "val": ["l", [s1, s2][:min(2, length)]], "kids": [a]})
                    for k2 in kinds:
                        for n2 in (False, True):
                            if k2 == "untyped" and n2:
                                continue
                            b = typed_leaf(k2, n2, length, name="b", variant=1)
                            yield one({"op": "lshift", "form": "vv", "kids": [a, b]})
                            yield one({"op": "rshift", "form": "vv", "kids": [a, b]})
                            if name == "a":
                                yield one({"op": "lshift", "form": "vl", "l": b["vals"] if b["op"] == "leaf" else [], "kids": [a]})
                                yield one({"op": "table", "kids": [a, b]})
                                yield one({"op": "row", "i": 0, "kids": [{"op": "table", "kids": [a, b]}]})


def name_families(rng, tier):
    """tables with repeated, unsanitary and missing column names through every table operation"""
    pool = [None, "a", "a", "b", "A", "a b", "sum", "x__1", "", "b_sum", "key", "key2", "a_sum", "a_sum2", "col", "col_sum", "é",
            " a", "b ", "A.b", "a-b", "a_b"]
    reps = 3000 if tier == "quick" else 30000
    for _ in range(reps):
        n = rng.choice([0, 1, 2, 3])
        k = rng.randint(1, 4)
        cols = [{"op": "leaf", "vals": leaf_vals(rng, rng.choice(["int", "int", "float", "bool"]), n, rng.random() < 0.3),
                 "name": rng.choice(pool)} for _ in range(k)]
        t = {"op": "table", "kids": cols}
        r = rng.random()
        if r < 0.45:
            node = {"op": "aggregate", "window": rng.random() < 0.5, "keys": [rng.randrange(k) for _ in range(rng.choice([1, 1, 2, 3]))],
                    "kids": [t]}
            for f in rng.sample(AGGS, rng.randint(1, 4)):
                node[f] = [rng.randrange(k) for _ in range(rng.choice([1, 2, 2, 3]))]
            if rng.random() < 0.4:
                node["apply"] = [[nm, rng.randrange(k)] for nm in rng.sample(["a", "a_sum", "key", "key2", "a_sum2", "b_count"], rng.randint(1, 3))]
        elif r < 0.6:
            k2 = rng.randint(1, 3)
            t2 = {"op": "table", "kids": [{"op": "leaf", "vals": leaf_vals(rng, "int", n, False), "name": rng.choice(pool)} for _ in range(k2)]}
            node = {"op": "join", "how": rng.choice(["inner", "left", "full"]), "lk": rng.randrange(k), "rk": rng.randrange(k2), "kids": [t, t2]}
        elif r < 0.75:
            t2 = {"op": "table", "kids": [{"op": "leaf", "vals": leaf_vals(rng, "int", n, False), "name": rng.choice([None, "a", "b", rng.choice(pool)])}
                                          for _ in range(k)]}
            node = {"op": "tarith", "fn": rng.choice(list(BIN)), "form": "tt", "kids": [t, t2]}
        elif r < 0.85:
            # table with a scalar on either side: every column name is kept
            node = {"op": "tarith", "fn": rng.choice(list(BIN)), "form": rng.choice(["ts", "st", "st"]), "s": rng.choice([4, 5, 8]), "kids": [t]}
        else:
            node = build(rng, "t", 1, n)
            if node.get("kids") and kid_sorts(node)[0] == "t":
                node["kids"][0] = t
        if rng.random() < 0.4:
            node = {"op": rng.choice(["sortT", "transposeT", "rowsel", "selCols"]), "by": 0, "reverse": False, "na_last": True,
                    "key": ["slice", None, None, -1], "js": [0, 1, 2], "kids": [node]}
        yield {"fam": "names", "n": n, "tree": node}


def decl_leaf(kind, how, name="a"):
    """a length-2 vector whose DECLARED dtype is wider than inference gives for its present elements: nullable with the None sliced
    away (`decl`), or object over elements of one kind (`obj`)"""
    pool = KINDS[kind]
    if kind == "object":
        vals = [pool[0], pool[1]]
    else:
        vals = [pool[0], pool[1 % len(pool)]]
    if how == "decl":
        return {"op": "getitem", "key": ["slice", 0, 2, None], "kids": [{"op": "leaf", "vals": vals + [NONE], "name": name}]}
    return {"op": "toObject", "kids": [{"op": "leaf", "vals": vals, "name": name}]}


def exhaustive_forms(tier):
    """the operand forms and object states of `build_x`, scripted over every leaf dtype"""
    one = lambda node, n=3: {"fam": "forms", "n": n, "tree": node}
    pairs = ((4, 8), (8, 13), (0, 11), (1, 4), (18, 20), (8, 0), (0, 8), (4, 4))
    for k1 in KIND_NAMES:
        for n1 in (False, True):
            for name in ("a", None):
                a = typed_leaf(k1, n1, 3, name=name)
                # keys as Vectors / tuples, values as tuples / Vectors / the vector itself
                for key in (["vmask", [True, False, True]], ["vints", [0, -1]], ["tints", [2, 0]], ["vints", [1, 1]], ["tints", [0, 0]]):
                    for s1 in SCALARS:
                        yield one({"op": "setitem", "key": key, "val": ["s", s1], "kids": [a]})
                    for s1, s2 in pairs[:4] if name else pairs[4:]:
                        for vf in (None, "tuple", "vec"):
                            yield one({"op": "setitem", "key": key, "val": ["l", [s1, s2]] + ([vf] if vf else []), "kids": [a]})
                for s1, s2 in pairs:
                    for vf in ("tuple", "vec"):
                        yield one({"op": "setitem", "key": ["slice", 0, 2, None], "val": ["l", [s1, s2], vf], "kids": [a]})
                for step in (None, -1):
                    yield one({"op": "setitem", "key": ["slice", None, None, step], "val": ["self"], "kids": [a]})
                # the same object on both sides
                for op, table in (("arith", BIN), ("cmp", CMP)):
                    for fn in table:
                        yield one({"op": op, "fn": fn, "form": "vv", "self": True, "kids": [a, a]})
                yield one({"op": "lshift", "form": "vv", "self": True, "kids": [a, a]})
                yield one({"op": "rshift", "form": "vv", "self": True, "kids": [a, a]})
                yield one({"op": "getV", "self": True, "kids": [a, a]})
                t = {"op": "table", "kids": [a, typed_leaf("int", False, 3, name="k")]}
                yield one({"op": "tarith", "fn": "add", "form": "tt", "self": True, "kids": [t, t]})
                yield one({"op": "tmisc", "fn": "lshiftT", "self": True, "kids": [t, t]})
                for how in ("inner", "left", "full"):
                    for af in (None, "name", "list"):
                        yield one({"op": "join", "how": how, "lk": 1, "rk": 1, "adapt": False, "self": True, "argform": af, "kids": [t, t]})
                for af in (None, "name", "acc", "single", "tuple"):
                    for w in (False, True):
                        yield one({"op": "aggregate", "window": w, "keys": [1], "argform": af, "min": [0], "max": [0], "count": [0, 0],
                                   "apply": [["n", 0]], "kids": [t]})
                        t2 = {"op": "table", "kids": [typed_leaf(k1, n1, 3, name="A b"), typed_leaf("int", False, 3, name="K")]}
                        yield one({"op": "aggregate", "window": w, "keys": [1], "argform": af, "min": [0], "count": [0, 1], "kids": [t2]})
                # constructor routes
                if name == "a":
                    vals = a["vals"] if a["op"] == "leaf" else a["kids"][0]["vals"]
                    for ctor in ("tuple", "iter", "vec"):
                        yield one({"op": "copy", "kids": [{"op": "leaf", "vals": vals, "name": name, "ctor": ctor}]})
                    yield one({"op": "selCol", "j": 0, "kids": [{"op": "dict", "names": ["x", "y"], "cols": [vals, vals[::-1]], "ctor": "dictv"}]})
                # extra scalars (falsy, negative, bytes, timedelta) on either side; sequence operands as tuples
                for s1 in SCALARS_X[len(SCALARS):] if name else ():
                    for fn in BIN:
                        for form in ("vs", "sv"):
                            yield one({"op": "arith", "fn": fn, "form": form, "s": s1, "kids": [a]})
                    for fn in CMP:
                        yield one({"op": "cmp", "fn": fn, "form": "vs", "s": s1, "kids": [a]})
                    yield one({"op": "fillna", "s": s1, "kids": [a]})
                    yield one({"op": "lshift", "form": "vs", "s": s1, "kids": [a]})
                    yield one({"op": "tarith", "fn": "pow", "form": "ts", "s": s1, "kids": [t]})
                    yield one({"op": "tarith", "fn": "truediv", "form": "st", "s": s1, "kids": [t]})
                if name is None:
                    for k2 in KIND_NAMES:
                        lvals = leaf_vals(random.Random(KIND_NAMES.index(k2) * 7 + n1), k2, 3, n1)
                        for fn in BIN:
                            for form in ("vl", "lv"):
                                yield one({"op": "arith", "fn": fn, "form": form, "l": lvals, "seq": "tuple", "kids": [a]})
                        for fn in CMP:
                            yield one({"op": "cmp", "fn": fn, "form": "vl", "l": lvals, "seq": "tuple", "kids": [a]})
                        yield one({"op": "lshift", "form": "vl", "l": lvals, "seq": "tuple", "kids": [a]})
                        yield one({"op": "rshift", "form": "vl", "l": lvals, "seq": "tuple", "kids": [a]})
                        yield one({"op": "tarith", "fn": "add", "form": "tl", "l": lvals, "seq": "tuple", "kids": [t]})
                        yield one({"op": "tarith", "fn": "sub", "form": "lt", "l": lvals, "seq": "tuple", "kids": [t]})
                # renamed in place after use; table operations without a model rule
                for how in ("attr", "alias", "rename"):
                    for warm in (False, True):
                        r = {"op": "renameV", "name": "z 1", "how": how, "warm": warm, "kids": [a]}
                        yield one({"op": "unary", "fn": "neg", "kids": [r]})
                        yield one({"op": "table", "kids": [r, a]})
                for how in ("cols", "getitem", "method") if not n1 else ():
                    for warm in (False, True):
                        for nm in ("k", "Z z", None):
                            r = {"op": "renameT", "j": 0, "name": nm, "how": how, "warm": warm, "kids": [t]}
                            yield one({"op": "aggregate", "window": False, "keys": [0], "sum": [1], "count": [0], "kids": [r]})
                            yield one({"op": "sortT", "by": 1, "reverse": False, "na_last": True, "kids": [r]})
                            yield one({"op": "tarith", "fn": "add", "form": "tt", "kids": [r, t]})
                            yield one({"op": "join", "how": "left", "lk": 1, "rk": 1, "adapt": False, "kids": [r, t]})
                            yield one({"op": "tmisc", "fn": "copyT", "kids": [r]})
                for fn in TMISC:
                    if fn not in ("lshiftT",):
                        yield one({"op": "tmisc", "fn": fn, "l": [4, 8, 0], "s": 4, "rows": [0, 2, None], "colsl": [0, 1, None], "js": [1, 0], "kids": [t]})
                for fn in ("sel2dInt", "sel2dName"):
                    for rows in ([0, 2, None], [None, None, -1], [1, 1, None]):
                        yield one({"op": "tmiscv", "fn": fn, "rows": rows, "j": 0, "kids": [t]})
    # vectors beyond any size threshold, the one element that decides the dtype in the LAST position
    for n in (300, 1100):
        for base, odd in ((4, NONE), (4, 8), (1, 4), (18, 20), (13, NONE), (8, 11), (8, NONE)):
            a = {"op": "leaf", "vals": [base] * (n - 1) + [odd], "name": "a"}
            b = {"op": "leaf", "vals": [5, 6] * (n // 2), "name": "b"}
            big = lambda node: {"fam": "bigforms", "n": n, "tree": node}
            for fn in UN:
                yield big({"op": "unary", "fn": fn, "kids": [a]})
            for fn in ("add", "truediv", "pow", "mul"):
                yield big({"op": "arith", "fn": fn, "form": "vs", "s": 5, "kids": [a]})
                yield big({"op": "arith", "fn": fn, "form": "sv", "s": 5, "kids": [a]})
                yield big({"op": "arith", "fn": fn, "form": "vv", "kids": [a, b]})
                yield big({"op": "arith", "fn": fn, "form": "vv", "kids": [b, a]})
            yield big({"op": "arith", "fn": "add", "form": "vv", "self": True, "kids": [a, a]})
            for fn in ("eq", "lt", "and"):
                yield big({"op": "cmp", "fn": fn, "form": "vs", "s": 5, "kids": [a]})
                yield big({"op": "cmp", "fn": fn, "form": "vv", "kids": [a, b]})
            for to in ("float", "str", "bool"):
                yield big({"op": "cast", "to": to, "kids": [a]})
            for s1 in (4, 8, 13):
                yield big({"op": "fillna", "s": s1, "kids": [a]})
                yield big({"op": "lshift", "form": "vs", "s": s1, "kids": [b]})
                yield big({"op": "setitem", "key": ["int", n - 1], "val": ["s", s1], "kids": [b]})
                yield big({"op": "setitem", "key": ["int", -1], "val": ["s", s1], "kids": [a]})
            yield big({"op": "setitem", "key": ["int", n - 1], "val": ["s", NONE], "kids": [b]})
            yield big({"op": "setitem", "key": ["slice", None, None, None], "val": ["self"], "kids": [a]})
            for op in ("dropna", "isna", "toObject", "copy", "vT"):
                yield big({"op": op, "kids": [a]})
            for fn in ("unique", "invert"):
                yield big({"op": "misc", "fn": fn, "kids": [a]})
            yield big({"op": "misc", "fn": "rlshift", "l": [5, 5], "kids": [a]})
            yield big({"op": "sortV", "reverse": True, "na_last": False, "kids": [a]})
            yield big({"op": "getitem", "key": ["slice", None, None, -1], "kids": [a]})
            yield big({"op": "getitem", "key": ["slice", 256, None, None], "kids": [a]})
            yield big({"op": "getitem", "key": ["mask", [i % 2 == 1 for i in range(n)]], "kids": [a]})
            yield big({"op": "lshift", "form": "vv", "kids": [b, a]})
            yield big({"op": "rshift", "form": "vv", "kids": [b, a]})
            t = {"op": "table", "kids": [a, b]}
            yield big({"op": "row", "i": 3, "kids": [t]})
            yield big({"op": "sortT", "by": 1, "reverse": False, "na_last": True, "kids": [t]})
            yield big({"op": "rowsel", "key": ["slice", None, None, -1], "kids": [t]})
            yield big({"op": "tarith", "fn": "add", "form": "ts", "s": 5, "kids": [t]})
            yield big({"op": "tarith", "fn": "mul", "form": "tt", "kids": [t, t]})
            yield big({"op": "tabSet", "j": 1, "key": ["int", 0], "val": ["s", 8], "kids": [t]})
            yield big({"op": "tmisc", "fn": "neg", "kids": [t]})
            yield big({"op": "tmisc", "fn": "copyT", "kids": [t]})
            for w in (False, True):
                yield big({"op": "aggregate", "window": w, "keys": [1], "sum": [0], "mean": [0], "max": [0], "count": [0], "kids": [t]})
            u = {"op": "table", "kids": [{"op": "leaf", "vals": [5, 6, 7], "name": "k"}, {"op": "leaf", "vals": [8, NONE, 13], "name": "w"}]}
            for how in ("inner", "left", "full"):
                yield big({"op": "join", "how": how, "lk": 1, "rk": 0, "adapt": False, "kids": [t, u]})
    # operands whose declared dtype is wider than their contents, on either side of the binary operations
    for k1 in KIND_NAMES:
        for how in ("decl", "obj"):
            a = decl_leaf(k1, how)
            for fn in UN:
                yield one({"op": "unary", "fn": fn, "kids": [a]}, 2)
            for to in CAST:
                yield one({"op": "cast", "to": to, "kids": [a]}, 2)
            for s1 in SCALARS:
                yield one({"op": "fillna", "s": s1, "kids": [a]}, 2)
                yield one({"op": "setitem", "key": ["int", 0], "val": ["s", s1], "kids": [a]}, 2)
            for op in ("dropna", "isna", "toObject", "copy"):
                yield one({"op": op, "kids": [a]}, 2)
            yield one({"op": "sortV", "reverse": False, "na_last": True, "kids": [a]}, 2)
            for k2 in KIND_NAMES:
                for n2 in (False, True):
                    b = typed_leaf(k2, n2, 2, name="b", variant=1)
                    for x, y in ((a, b), (b, a)):
                        for fn in ("add", "truediv", "pow"):
                            yield one({"op": "arith", "fn": fn, "form": "vv", "kids": [x, y]}, 2)
                        for fn in ("eq", "lt", "and"):
                            yield one({"op": "cmp", "fn": fn, "form": "vv", "kids": [x, y]}, 2)
                        yield one({"op": "lshift", "form": "vv", "kids": [x, y]}, 2)
                        yield one({"op": "getV", "kids": [x, y]}, 2)
                        yield one({"op": "join", "how": "full", "lk": 0, "rk": 0, "adapt": False,
                                   "kids": [{"op": "table", "kids": [x]}, {"op": "table", "kids": [y]}]}, 2)


KNOWN_SPECS = [
    {"fam": "known", "known": True, "n": 2, "tree": {"op": "toObject", "kids": [{"op": "leaf", "vals": [4, 0], "name": None}]}},
    {"fam": "known", "known": True, "n": 1, "tree": {"op": "cast", "to": "date", "kids": [{"op": "leaf", "vals": [20], "name": None}]}},
    {"fam": "known", "known": True, "n": 2, "tree": {"op": "setitem", "key": ["int", 0], "val": ["s", 0],
                                                       "kids": [{"op": "leaf", "vals": [4, 13], "name": None}]}},
]


def generate(rng, tier):
    for s in KNOWN_SPECS:
        yield s
    yield from exhaustive_structural(tier)
    yield from exhaustive_ops(tier)
    if not os.environ.get("VERIF_OLD_FAMILIES_ONLY"):
        yield from exhaustive_forms(tier)        # (uses no randomness: the seeds of the families below stay what they were)
    yield from name_families(rng, tier)
    ntrees = 40000 if tier == "quick" else 1500000
    for i in range(ntrees):
        yield {"fam": "tree", "seed": rng.getrandbits(48), "depth": rng.choice([2, 3, 3, 4, 4])}
    if os.environ.get("VERIF_OLD_FAMILIES_ONLY"):
        return          # (for comparing what the families below add: NOTES.md of the gap analysis)
    # the extended random programs (after the older families, whose seeds stay what they were)
    for i in range(6000 if tier == "quick" else 300000):
        yield {"fam": "treex", "seed": rng.getrandbits(48), "depth": rng.choice([2, 3, 3, 4]), "ext": 1}
    for i in range(36 if tier == "quick" else 1500):
        yield {"fam": "big", "seed": rng.getrandbits(48), "depth": rng.choice([1, 2, 2]), "ext": 1, "n": rng.choice([40, 300, 300, 1100])}


# ------------------------------------------------------------------------------------------------
# reporting helpers
# ------------------------------------------------------------------------------------------------
def nontrivial(spec, wire):
    steps = wire["case"]["steps"]
    return any(s["op"] not in ("leaf", "dict") and "ok" in s["out"] and s["out"]["ok"][0] != "x" for s in steps)


def histogram(spec, wire):
    steps = wire["case"]["steps"]
    out = [f"steps:{min(len(steps), 12)}"]
    for s in steps:
        res = "ok" if "ok" in s["out"] else "refused"
        if res == "ok" and s["out"]["ok"][0] == "x":
            res = "not-plain"
        out.append(f"op:{s['op']}:{res}")
        if "ok" in s["out"] and s["out"]["ok"][0] == "v":
            o = s["out"]["ok"]
            out.append("len:%s" % ("0" if not o[1] else "1" if len(o[1]) == 1 else "2+"))
            out.append("dtype:%s" % ("none" if o[2] is None else f"{o[2][0]}{'?' if o[2][1] else ''}"))
    return out


def _subtrees(node):
    for i, k in enumerate(node.get("kids", [])):
        yield i, k


_VIDX = None


def _literal(obj):
    """a leaf / table-of-leaves expression with the same element values and names as a real result, if expressible"""
    global _VIDX
    from serif import Vector, Table
    if _VIDX is None:
        _VIDX = {}
        for i, v in enumerate(VALS):
            try:
                _VIDX.setdefault((type(v), v), i)
            except TypeError:
                pass

    def leaf(v):
        idx = []
        for x in v:
            try:
                i = 0 if x is None else _VIDX.get((type(x), x))
            except TypeError:
                i = None
            if i is None:
                return None
            idx.append(i)
        nm = v.name
        if nm is not None and not isinstance(nm, str):
            return None
        return {"op": "leaf", "vals": idx, "name": nm}
    try:
        if isinstance(obj, Table):
            kids = [leaf(c) for c in obj.cols()]
            if not kids or any(k is None for k in kids):
                return None
            return {"op": "table", "kids": kids}
        if isinstance(obj, Vector):
            return leaf(obj)
    except Exception:
        return None
    return None


def shrink(spec):
    """structural: replace the tree by a sub-tree, a sub-tree by a literal of its value or by a default leaf,
    drop names, aggregate arguments and table columns"""
    if "tree" not in spec:
        yield explicit(spec)
        return
    tree, n = spec["tree"], spec.get("n", 3)
    base = {k: v for k, v in spec.items() if k != "tree"}
    try:
        results = run_spec(spec).results
    except Exception:
        results = {}

    def literalised(node):
        for i, k in _subtrees(node):
            if k["op"] not in ("leaf",) and not (k["op"] == "table" and all(x["op"] == "leaf" for x in k["kids"])):
                lit = _literal(results.get(id(k)))
                if lit is not None:
                    yield dict(node, kids=node["kids"][:i] + [lit] + node["kids"][i + 1:])
                for v in literalised(k):
                    yield dict(node, kids=node["kids"][:i] + [v] + node["kids"][i + 1:])

    for v in literalised(tree):
        yield dict(base, tree=v)

    def variants(node):
        for i, k in _subtrees(node):
            yield k                                   # hoist the child
        if node["op"] not in ("leaf", "dict", "csv"):
            sorts = kid_sorts(node)
            for i, k in _subtrees(node):
                if k["op"] not in ("leaf", "dict") and i < len(sorts):
                    repl = Runner(n).default(sorts[i])
                    yield dict(node, kids=node["kids"][:i] + [repl] + node["kids"][i + 1:])
                for v in variants(k):
                    if SORT_OF.get(v["op"]) == (sorts[i] if i < len(sorts) else None):
                        yield dict(node, kids=node["kids"][:i] + [v] + node["kids"][i + 1:])
        if node["op"] == "leaf":
            if node.get("name") is not None:
                yield dict(node, name=None)
        if node["op"] == "aggregate":
            for f in AGGS + ["apply"]:
                if node.get(f):
                    yield {k: v for k, v in node.items() if k != f}
                    if len(node[f]) > 1:
                        yield dict(node, **{f: node[f][:-1]})
            if len(node["keys"]) > 1:
                yield dict(node, keys=node["keys"][:-1])
        if node["op"] == "table" and len(node["kids"]) > 1:
            for i in range(len(node["kids"])):
                yield dict(node, kids=node["kids"][:i] + node["kids"][i + 1:])

    for v in variants(tree):
        yield dict(base, tree=v)


def snippet(spec):
    r = run_spec(spec if "tree" in spec else explicit(spec))
    lines = ["import io", "from datetime import date, datetime, timedelta", "from serif import Vector, Table, read_csv",
             "class Foo: pass", "class Bar: pass", "FOO, BAR = Foo(), Bar()"] + r.src
    if r.nvar:
        last = f"x{r.nvar}"
        lines.append(f"r = {last}")
        lines.append("print(r.column_names() if isinstance(r, Table) else (r.name, r.schema(), [type(x).__name__ for x in r]))")
        lines.append("if isinstance(r, Table): print([(c.schema(), [type(x).__name__ for x in c]) for c in r.cols()])")
    return "\n".join(lines)


def failing_step(wire, verdict):
    m = verdict.get("model") or {}
    i = m.get("step")
    if i is None:
        return None, None
    return wire["case"]["steps"][i], m.get("kind")
