"""C15 — alias tracking is exact: no leaked write, no spurious refusal.

Trace validation with the interpreter's real storage identities as the allocator's choices: after every API
step the set of ALL live Vector/Table objects of the process is enumerated (gc.get_objects), each with the
identity of its storage tuple; the differences between consecutive snapshots are the model events
(create / swap / drop), and every write attempt is judged.
"""
import gc, random, warnings, weakref
from values import storage
from datetime import date as _D, datetime as _DT

PID = "C15"
RULE = ("random histories (quick 30 steps, thorough up to 80) of: fresh vectors (lengths 0–3), vectors over shared caller tuples "
        "(Vector(tup) twice, Vector(v._underlying)), copies, slices, arithmetic results, tables built by >> (the double-__init__ "
        "path), Table([...]), Table({...}), live column views, attribute assignment, writes with and without promotion (every in-place "
        "promotion route: int->float, int/float->complex, date->datetime; int, float, date and str vectors and caller tuples), multi-column table writes that fail in their last "
        "column and are rolled back, dropping "
        "handles, gc.collect() at random points and bursts of short-lived same-size vectors/tuples to provoke identity reuse. "
        "Every write attempt is judged: refused iff (non-empty and another LIVE object `is`-shares the storage tuple); accepted writes "
        "must leave every other live object's contents unchanged; the Lean registry model, fed with the real storage identities, "
        "must predict every accept/refuse; after every step the tracker's REAL registry is inspected for exactness (no live object "
        "under an identity that is not its storage, every live non-empty object registered under its own) when it can be located. "
        "Plus a unit family on a private _AliasTracker instance: register / unregister / "
        "check_writable called directly with identities 1–4 reused at will and objects killed at chosen points, judged against "
        "'refuse iff ≥2 live objects currently registered under the identity' and against the model functions (non-trivial = a "
        "refusal and a check after a kill). non-trivial (histories) = the history contains ≥1 judged write after at least one drop or storage "
        "swap; distinct by the recorded event list")
ASSUMPTIONS = ["liveness is refcount-driven (CPython); all live Vector objects of the process are visible to gc.get_objects()",
               "storage identity = id() of the tuple; the empty tuple is identity 0 (never checked by the library)",
               "which identity the interpreter recycles cannot be forced; bursts make reuse frequent and the count of observed reuses "
               "is reported in the evidence"]
BUDGET_S = {"quick": 30, "thorough": 420}
LEVEL_TEXT = ("Proof over a model of alias_tracker.py and of the unregister/swap/register protocol (Lean, Model/AliasHeap.lean) with an "
              "ADVERSARIAL allocator — every allocating operation takes the new storage identity as an unconstrained argument, so reuse of "
              "a freed identity that still has (dead) registry entries is inside every quantifier: the registry is exact in every "
              "reachable state (registry_exact, induction over arbitrary histories of create/share/re-init/promote/swap/write/drop); a "
              "write is refused iff another live object uses the same non-empty storage (refused_iff_shared, refused_only_if_shared); an "
              "object sharing with no live object is always writable whatever happened before (unshared_always_writable); a refused write "
              "changes nothing (refused_changes_nothing); an accepted write never changes what another live object shows provided the "
              "interpreter does not reissue the identity of storage still in use (no_leak); the tracker class driven directly with arbitrary "
              "identities refines 'the set of registered (object, identity) pairs' (tracker_refines_spec). Tied to the code by trace validation in which "
              "the model is fed the interpreter's REAL tuple identities and must predict every accept/refuse of the real library, and by "
              "checking the invariant of registry_exact on the implementation's own registry after every step.")
LEVEL_NOTE = ("Trusted: Lean kernel + standard axioms; the snapshot/diff code that turns real histories into model events; CPython's "
              "refcounting and weak-reference semantics. The runtime part no model can exhibit — which identity CPython recycles — is "
              "taken from the trace and universally quantified in the theorems. That every library path follows the protocol is "
              "established on the executed histories only.")
REPLAY_CASE = True

EMPTY_ID = id(())
LIMBO = 1 << 80


def sid(t):
    return 0 if id(t) == EMPTY_ID else id(t)


_VT = None


def _vector_types():
    """every class whose instances register with the alias tracker (Row views do not)"""
    global _VT
    if _VT is None:
        import serif
        seen, todo = set(), [serif.Vector]
        while todo:
            c = todo.pop()
            if c in seen:
                continue
            seen.add(c)
            todo += c.__subclasses__()
        _VT = {c for c in seen if c.__name__ != "Row"}
    return _VT


def _registry():
    """the live tracker's registry {identity: [weak references]}, found without relying on attribute names; None if the
    tracker keeps no such dict (then the registry oracle is simply off)"""
    try:
        from serif import alias_tracker as at
    except Exception:
        return None
    for holder in vars(at).values():
        d = getattr(holder, "__dict__", None)
        if not isinstance(d, dict) or isinstance(holder, type):
            continue
        for v in d.values():
            if isinstance(v, dict) and all(isinstance(k, int) and isinstance(x, list) for k, x in v.items()) \
                    and any(isinstance(r, weakref.ref) for x in v.values() for r in x):
                return v
    return None


class Tracker:
    """assigns serial numbers to live Vector objects and diffs snapshots"""

    def __init__(self):
        self.known = {}      # id(obj) -> (weakref, serial)
        self.serial = 0
        self.prev = {}       # serial -> (sid, contents)
        self.limbo = 0
        self.vals = {}

    def uid(self, x):
        if x is None:
            return 0
        import serif
        if isinstance(x, serif.Vector):
            return ("obj", id(x))
        k = (type(x).__name__, repr(x))
        if k not in self.vals:
            self.vals[k] = len(self.vals) + 1
        return self.vals[k]

    def snapshot(self):
        import serif
        VT = _vector_types()
        objs = [o for o in gc.get_objects() if type(o) in VT and storage(o) is not None]
        cur, live = {}, {}
        for o in objs:
            ent = self.known.get(id(o))
            if ent is None or ent[0]() is not o:
                ent = (weakref.ref(o), self.serial)
                self.known[id(o)] = ent
                self.serial += 1
            und = storage(o)
            conts = []
            for x in und:
                u = self.uid(x)
                if isinstance(u, tuple):       # a column object: identified by its serial
                    e2 = self.known.get(u[1])
                    u = 10 ** 6 + (e2[1] if e2 and e2[0]() is x else 0)
                conts.append(u)
            cur[ent[1]] = (sid(und), conts)
            live[ent[1]] = o
        del objs
        # forget dead entries
        for k in [k for k, (r, s) in self.known.items() if r() is None]:
            del self.known[k]
        return cur, live

    def registry_faults(self, live):
        """exactness of the REAL registry (the invariant `registry_exact` is about), so that a broken protocol step shows at once
        instead of only when the interpreter happens to recycle the identity: (stale) a live object registered under an
        identity that is not its storage; (missing) a live object with non-empty storage not registered under it"""
        reg = _registry()
        if reg is None:
            return None
        by_obj = {id(o): s for s, o in live.items()}
        stale, missing = [], []
        for k, refs in list(reg.items()):
            for r in list(refs):
                o = r() if isinstance(r, weakref.ref) else None
                if o is None:
                    continue
                und = storage(o)
                if und is not None and id(und) != k and id(o) in by_obj:
                    stale.append([by_obj[id(o)], 0 if k == EMPTY_ID else k])
                del o, und
        for s_, o in live.items():
            und = storage(o)
            if und:
                refs = reg.get(id(und)) or []
                if not any(isinstance(r, weakref.ref) and r() is o for r in refs):
                    missing.append(s_)
            del und
        return {"stale": sorted(stale), "missing": sorted(missing)}

    def diff_events(self, cur, skip=()):
        ev = []
        prev = self.prev
        for s in sorted(prev):
            if s not in cur:
                ev.append({"e": "drop", "o": s})
        changed = [s for s in sorted(cur) if s in prev and s not in skip and prev[s][0] != cur[s][0]]
        for s in changed:       # two-phase: park on unique limbo identities first
            self.limbo += 1
            ev.append({"e": "swap", "o": s, "s": LIMBO + self.limbo, "c": []})
        for s in changed:
            ev.append({"e": "swap", "o": s, "s": cur[s][0], "c": cur[s][1]})
        for s in sorted(cur):
            if s not in prev:
                ev.append({"e": "create", "o": s, "s": cur[s][0], "c": cur[s][1]})
        return ev


NS = 6
# operations whose results must never share storage with another live object
UNSHARED_OPS = {"newvec", "copy", "pycopy", "slice", "arith", "tabfrom", "stack", "setattr", "burst", "concat", "tderive", "selfop"}


def choose(rng, w):
    kinds = w["kinds"]()
    vecs = [i for i, k in enumerate(kinds) if k == "v"]
    tabs = [i for i, k in enumerate(kinds) if k == "t"]
    dst = rng.randrange(NS)
    menu = [("newvec", 4), ("sharetuple", 3), ("burst", 4), ("gc", 1), ("drop", 3), ("pool", 1)]
    if vecs:
        menu += [("shareof", 3), ("copy", 1), ("pycopy", 2), ("slice", 1), ("write", 10), ("arith", 1), ("tabfrom", 2), ("concat", 3), ("selfop", 2)]
    if len(vecs) >= 1:
        menu += [("stack", 4)]
    if tabs:
        menu += [("pycopy_t", 2), ("tderive", 4)]
        menu += [("getcol", 4), ("tabwrite_view", 2), ("write_cell", 4), ("share_col", 2), ("rowfail", 3)]
    if tabs and vecs:
        menu += [("setattr", 3)]
    ops = [m for m, k in menu for _ in range(k)]
    op = rng.choice(ops)
    if op == "newvec":
        return {"op": op, "dst": dst, "n": rng.choice([0, 1, 2, 2, 3]), "base": rng.randrange(5),
                "kind": rng.choice(["int", "int", "int", "date", "float", "str"])}
    if op == "sharetuple":
        return {"op": op, "dst": dst, "k": rng.randrange(5)}
    if op == "pool":
        return {"op": op, "k": rng.randrange(5), "n": rng.choice([0, 1, 2, 3]), "kind": rng.choice(["int", "int", "date", "float"])}
    if op == "burst":
        return {"op": op, "count": rng.randint(2, 12), "n": rng.choice([1, 2, 2, 3])}
    if op == "slice":
        return {"op": op, "dst": dst, "src": rng.choice(vecs), "key": rng.choice([[None, None], [0, None], [None, 2], [0, 2], [1, None], [0, 1], [-3, None]])}
    if op in ("shareof", "copy", "arith"):
        return {"op": op, "dst": dst, "src": rng.choice(vecs)}
    if op == "pycopy":
        # copy.copy / copy.deepcopy / Vector(v): copies like any other — own storage, known to the tracker
        return {"op": "pycopy", "dst": dst, "src": rng.choice(vecs), "how": rng.choice(["copy", "deepcopy", "ctor"])}
    if op == "pycopy_t":
        return {"op": "pycopy", "dst": dst, "src": rng.choice(tabs), "how": rng.choice(["copy", "deepcopy"])}
    if op == "tderive":
        # tables derived from a table (row slice / mask with a list or a Vector / positions / column selection / T / copy / >> / << /
        # sort / the second indexing dimension): every one goes through the Vector(...)-returns-a-Table constructor path
        return {"op": op, "dst": dst, "src": rng.choice(tabs), "form": rng.choice(["rows", "rowsall", "mask", "vmask", "take", "select", "T", "copy", "stackdict",
                                                                                   "stackself", "append", "sort", "col2d", "cols2d", "neg"])}
    if op == "selfop":
        # the same object on both sides of an operation: the library detaches one operand with a transient copy, which must be gone
        # (and out of the registry) when the operation returns
        return {"op": op, "dst": dst, "src": rng.choice(vecs), "form": rng.choice(["add", "eq", "getself", "lshift", "rshift", "matmul"])}
    if op == "concat":
        # `<<` with nothing to add on one side: the result is still an operation result with storage of its own
        return {"op": op, "dst": dst, "src": rng.choice(vecs), "form": rng.choice(["list0", "vec0", "rlist0", "tuple0", "vec0l", "list1", "mask0", "sort", "fillna0", "fillnaNone", "dropna",
                                                                                "cast", "toobj", "pos", "idxall", "head", "tail", "unique", "fillna0", "dropna", "vmask0", "idxallv", "ctorname", "copyvals"])}
    if op == "write":
        return {"op": op, "r": rng.choice(vecs), "promote": rng.random() < 0.2,
                "form": rng.choice(["int", "int", "slice", "mask", "selfval", "selfrev", "selfkey", "ilist", "vmask", "vilist", "tuple", "vecval"])}
    if op == "tabfrom":
        return {"op": op, "dst": dst, "srcs": [rng.choice(vecs) for _ in range(rng.randint(1, 2))], "form": rng.choice(["list", "dict"])}
    if op == "stack":
        return {"op": op, "dst": dst, "a": rng.choice(vecs), "b": rng.choice(vecs)}
    if op == "getcol":
        return {"op": op, "dst": dst, "t": rng.choice(tabs), "j": rng.randrange(3)}
    if op == "tabwrite_view":
        return {"op": "write_col", "t": rng.choice(tabs), "j": rng.randrange(3), "promote": rng.random() < 0.3,
                "form": rng.choice(["int", "slice", "mask", "ilist", "vmask", "vecval"])}
    if op == "write_cell":
        return {"op": "write_cell", "t": rng.choice(tabs), "j": rng.randrange(3), "promote": rng.random() < 0.3,
                "form": rng.choice(["cell", "cell", "name", "mask", "col", "colvec"])}
    if op == "rowfail":
        return {"op": "rowfail", "t": rng.choice(tabs), "form": rng.choice(["row", "region"])}
    if op == "share_col":
        return {"op": "share_col", "t": rng.choice(tabs), "j": rng.randrange(3), "dst": dst}
    if op == "setattr":
        return {"op": op, "t": rng.choice(tabs), "j": rng.randrange(3), "src": rng.choice(vecs)}
    if op == "drop":
        return {"op": op, "r": rng.randrange(NS)}
    return {"op": "gc"}


def target_of(slots, st):
    """the object a write step goes through (own frame, returned to the caller for the duration of the step only)"""
    import serif
    if st["op"] == "write":
        return slots[st["r"]]
    t = slots[st["t"]]
    if len(t) == 0 and st["op"] == "write_cell":
        return None
    cols = t.cols()
    return cols[st["j"] % len(cols)] if cols else None


def do_write_cell(t, st):
    """table item assignment addressing ONE column: only that column's storage decides whether it is refused"""
    j = st["j"] % len(t.cols())
    c = t.cols()[j]
    k = c.schema().kind if c.schema() is not None else None
    p = st.get("promote")
    val = {_D: _DT(2022, 5, 6, 7) if p else _D(2022, 5, 6), float: (1 + 2j) if p else 7.5, str: "w", int: 2.5 if p else 7}.get(k, 7)
    del c
    f = st.get("form", "cell")
    if f == "name":
        from props.histcommon import accessor_names
        acc = accessor_names(t, j)
        t[0, acc[0] if acc else j] = val
    elif f == "mask":
        from serif import Vector
        t[Vector([True] + [False] * (len(t) - 1)), j] = val
    elif f == "col":
        t[:, j] = [val] * len(t)
    elif f == "colvec":
        from serif import Vector
        t[:, j] = Vector([val] * len(t))          # the value is a vector: read, never adopted
    else:
        t[0, j] = val


def _mk(kind, i):
    return _D(2021, 3, 1 + i % 28) if kind == "date" else i + 0.25 if kind == "float" else "s%d" % i if kind == "str" else i


def do_write(o, st):
    from serif import Vector as _V
    n = len(o)
    val = 2.5 if st.get("promote") else 7
    # every in-place promotion route: int -> float, int/float -> complex, date -> datetime
    k = o.schema().kind if o.schema() is not None else None
    if k is _D:
        val = _DT(2022, 5, 6, 7) if st.get("promote") else _D(2022, 5, 6)
    elif k is float:
        val = (1 + 2j) if st.get("promote") else 7.5
    elif k is str:
        val = "w"
    elif k is int and st.get("promote") and st.get("form") == "mask":
        val = 1 + 2j
    f = st.get("form", "int")
    if n == 0:
        o[0:0] = []
    elif f == "int":
        o[0] = val
    elif f == "slice":
        o[0:1] = [val]
    elif f == "ilist":
        o[[0, -1]] = [val, val]
    elif f == "vmask":
        o[_V([True] + [False] * (n - 1))] = val      # the mask as a Vector
    elif f == "vilist":
        o[_V([0])] = val
    elif f == "tuple":
        o[(0,)] = val
    elif f == "vecval":
        o[0:1] = _V([val])
    elif f == "selfval":
        o[:] = o                      # the written vector is itself the value ...
    elif f == "selfrev":
        o[::-1] = o
    elif f == "selfkey" and k is bool:
        o[o] = False                  # ... or the key (a boolean vector masking itself)
    elif f == "selfkey" and k is int and all(isinstance(x, int) and 0 <= x < n for x in o):
        o[o] = list(o)                # an int vector indexing itself
    else:
        o[[True] + [False] * (n - 1)] = val


def _accessors(t, j):
    from props.histcommon import accessor_names
    n = len(t.cols())
    return accessor_names(t, j % n) if n else []


def run_step(slots, pool, st):
    import serif
    Vector, Table = serif.Vector, serif.Table
    op = st["op"]
    if op == "newvec":
        slots[st["dst"]] = Vector([_mk(st.get("kind", "int"), st["base"] + i) for i in range(st["n"])])
    elif op == "sharetuple":
        slots[st["dst"]] = Vector(pool[st["k"]])
    elif op == "pool":
        pool[st["k"]] = tuple(_mk(st.get("kind", "int"), i) for i in range(100 + st["k"], 100 + st["k"] + st["n"]))
    elif op == "burst":
        tmp = [Vector([j] * st["n"]) for j in range(st["count"])]
        junk = [tuple([j] * st["n"]) for j in range(st["count"])]
        del tmp, junk
    elif op == "shareof":
        slots[st["dst"]] = Vector(storage(slots[st["src"]]))
    elif op == "copy":
        slots[st["dst"]] = slots[st["src"]].copy()
    elif op == "slice":
        src = slots[st["src"]]
        slots[st["dst"]] = src[st.get("key", [0, 2])[0]:st.get("key", [0, 2])[1]]
        del src
    elif op == "pycopy":
        import copy as _copy
        src = slots[st["src"]]
        slots[st["dst"]] = (_copy.copy(src) if st["how"] == "copy" else _copy.deepcopy(src) if st["how"] == "deepcopy" else Vector(src))
        del src
    elif op == "arith":
        slots[st["dst"]] = slots[st["src"]] + 1
    elif op == "concat":
        src, f = slots[st["src"]], st.get("form")
        if f == "vmask0":
            slots[st["dst"]] = src[Vector([True] * len(src))] if len(src) else src.copy()
        elif f == "idxallv":
            slots[st["dst"]] = src[Vector(list(range(len(src))))] if len(src) else src.copy()
        elif f == "ctorname":
            slots[st["dst"]] = Vector(src, name="k")
        elif f == "copyvals":
            slots[st["dst"]] = src.copy(storage(src))       # copy(new_values) handed the very tuple the source holds
        elif f == "list0":
            slots[st["dst"]] = src << []
        elif f == "tuple0":
            slots[st["dst"]] = src << ()
        elif f == "vec0":
            slots[st["dst"]] = src << src[0:0]
        elif f == "vec0l":
            slots[st["dst"]] = src[0:0] << src
        elif f == "rlist0":
            slots[st["dst"]] = [] << src
        elif f == "mask0":
            slots[st["dst"]] = src[[True] * len(src)]
        elif f == "sort":
            slots[st["dst"]] = src.sort_by()
        elif f in ("fillna0", "fillnaNone", "dropna", "cast", "toobj", "pos", "idxall", "head", "tail", "unique"):
            # derivations that often have nothing to do (no None to fill or drop, a cast to the kind the vector has, all
            # positions selected): the result is a new vector all the same and must not share the source's storage
            n = len(src)
            try:
                if f == "fillna0":
                    first = next((x for x in src if x is not None), 0)
                    r = src.fillna(first)
                elif f == "fillnaNone":
                    r = src.fillna(None)
                elif f == "dropna":
                    r = src.dropna()
                elif f == "cast":
                    r = src.cast(src.schema().kind) if src.schema() is not None else src.copy()
                elif f == "toobj":
                    r = src.to_object()
                elif f == "pos":
                    r = +src
                elif f == "idxall":
                    r = src[list(range(n))] if n else src.copy()
                elif f == "head":
                    r = src.head(n + 1)
                elif f == "tail":
                    r = src.tail(n + 1)
                else:
                    r = src.unique() if len(set(map(id, src))) == n else src.copy()
            except Exception:
                r = src.copy()
            slots[st["dst"]] = r if isinstance(r, Vector) and r is not src else src.copy()
            del r
        else:
            slots[st["dst"]] = src << [7]
        del src
    elif op == "tderive":
        t, f = slots[st["src"]], st["form"]
        n, nc = len(t), len(t.cols())
        names = tuple(x for x in t.column_names() if isinstance(x, str))
        r = None
        if f == "rows":
            r = t[0:max(n - 1, 0)]
        elif f == "rowsall":
            r = t[:]
        elif f == "mask":
            r = t[[True] * n] if n else t.copy()
        elif f == "vmask":
            r = t[Vector([True] * n)] if n else t.copy()
        elif f == "take":
            r = t[Vector(list(range(n)))] if n else t.copy()
        elif f == "select":
            r = t[names] if names else t.copy()
        elif f == "T":
            r = t.T
        elif f == "copy":
            r = t.copy()
        elif f == "stackdict":
            r = t >> {"zz": list(range(n))}
        elif f == "stackself":
            r = t >> t
        elif f == "append":
            r = t << t
        elif f == "sort":
            r = t.sort_by(t.cols()[0]) if nc else t.copy()
        elif f == "col2d":
            r = t[:, 0] if nc else t.copy()
        elif f == "cols2d":
            r = t[:, 0:nc]
        else:
            r = -t
        slots[st["dst"]] = r if isinstance(r, Vector) and r is not t else t.copy()
        del t, r
    elif op == "selfop":
        src, f = slots[st["src"]], st["form"]
        try:
            r = (src + src if f == "add" else src == src if f == "eq" else src[src] if f == "getself" else src << src if f == "lshift"
                 else src >> src if f == "rshift" else None)
            if f == "matmul":
                src @ src
        except Exception:
            r = None
        slots[st["dst"]] = r if isinstance(r, Vector) and r is not src else src.copy()
        del src, r
    elif op == "tabfrom":
        vs = [slots[i] for i in st["srcs"]]
        slots[st["dst"]] = Table(vs) if st["form"] == "list" else Table({"c%d" % i: list(v) for i, v in enumerate(vs)})
        del vs
    elif op == "stack":
        slots[st["dst"]] = slots[st["a"]] >> slots[st["b"]]
    elif op == "getcol":
        cols = slots[st["t"]].cols()
        if cols:
            slots[st["dst"]] = cols[st["j"] % len(cols)]
        del cols
    elif op == "setattr":
        t = slots[st["t"]]
        acc = _accessors(t, st["j"])
        if acc:
            setattr(t, acc[0], slots[st["src"]])
        del t
    elif op == "rowfail":
        # a multi-column table write that fails in its LAST column after the earlier ones accepted: the table rolls the
        # earlier columns back, and every transient storage must leave the registry again
        t = slots[st["t"]]
        cols = t.cols()
        if len(cols) >= 2 and len(t) > 0:
            ok = {int: 7, float: 7.5, _D: _D(2023, 1, 1), _DT: _DT(2023, 1, 1, 1), str: "q", complex: 1j, bool: True}
            vals = []
            for j, c in enumerate(cols):
                k = c.schema().kind if c.schema() is not None else None
                good = ok.get(k, 7)
                vals.append(good if j < len(cols) - 1 else (5 if k is str else "zz" if k is not object else good))
            del cols, c
            try:
                if st.get("form") == "region":
                    t[0:1, :] = [[v] for v in vals]
                else:
                    t[0, :] = vals
            except serif.AliasError:
                raise
            except Exception:
                pass
            del vals
        else:
            del cols
        del t
    elif op == "share_col":
        # a column assigned from a raw caller tuple, and a second vector over the same tuple: they really share storage
        t = slots[st["t"]]
        acc = _accessors(t, st["j"])
        if acc and len(t) > 0:
            tup = tuple(range(500, 500 + len(t)))
            setattr(t, acc[0], tup)
            slots[st["dst"]] = Vector(tup)
            del tup
        del t
    elif op == "drop":
        slots[st["r"]] = None
    elif op == "gc":
        gc.collect()


def applicable(kinds, st):
    def k(i):
        return kinds[i]
    op = st["op"]
    if op in ("shareof", "copy", "slice", "arith", "concat", "selfop"):
        return k(st["src"]) == "v"
    if op == "tderive":
        return k(st["src"]) == "t"
    if op == "pycopy":
        return k(st["src"]) in ("v", "t") and (st["how"] != "ctor" or k(st["src"]) == "v")
    if op == "write":
        return k(st["r"]) == "v"
    if op == "tabfrom":
        return all(k(i) == "v" for i in st["srcs"])
    if op == "stack":
        return k(st["a"]) == "v" and k(st["b"]) == "v"
    if op in ("getcol", "write_col", "write_cell", "share_col", "rowfail"):
        return k(st["t"]) == "t"
    if op == "setattr":
        return k(st["t"]) == "t" and k(st["src"]) == "v"
    return True


def run_history(spec):
    import serif
    rng = random.Random(spec.get("seed", 0))
    slots = [None] * NS
    pool = [(101, 102), (201,), (), (_D(2020, 1, 1), _D(2020, 1, 2)), (1.5, 2.5)]

    def kinds():
        out = []
        for o in slots:
            if o is None:
                out.append(None)
            elif isinstance(o, serif.Table):
                out.append("t")
            elif isinstance(o, serif.Vector) and not any(isinstance(x, serif.Vector) for x in o):
                out.append("v")
            else:
                out.append("x")
        return out
    w = {"kinds": kinds}
    tr = Tracker()
    gc.collect()
    tr.prev, _ = tr.snapshot()
    events = [{"e": "create", "o": s, "s": v[0], "c": v[1]} for s, v in sorted(tr.prev.items())]
    steps = []
    given = spec.get("steps")
    n = len(given) if given is not None else spec.get("nsteps", 30)
    stats = {"writes": 0, "refused": 0, "after_churn": 0, "reuse": 0}
    freed = set()
    churn = False
    with warnings.catch_warnings():
        warnings.simplefilter("ignore")
        for i in range(n):
            if given is not None:
                st = given[i]
                if not applicable(kinds(), st):
                    continue
            else:
                st = choose(rng, w)
            steps.append(st)
            if st["op"] in ("write", "write_col", "write_cell"):
                o = target_of(slots, st)
                if o is None:
                    continue
                cur0, live0 = tr.snapshot()
                me = [s for s, x in live0.items() if x is o][0]
                und = storage(o)
                sharers = sorted(s for s, x in live0.items() if x is not o and storage(x) is und)
                before = {s: list(v[1]) for s, v in cur0.items()}
                length = len(und)
                del live0, und
                refused = False
                try:
                    if st["op"] == "write_cell":
                        do_write_cell(slots[st["t"]], st)
                    else:
                        do_write(o, st)
                except serif.AliasError:
                    refused = True
                except Exception as e:
                    del o
                    continue          # some other refusal (type error …): not an alias decision
                del o
                cur, live = tr.snapshot()
                rf = tr.registry_faults(live)
                del live
                changed = sorted(s for s in cur if s != me and s in before and cur[s][1] != before[s]
                                 and not any(u >= 10 ** 6 for u in cur[s][1]))
                # an accepted write is recorded as "write onto a unique limbo identity, then swap onto the real one":
                # with promotion the final tuple can reuse the identity of the vector's own original tuple
                tr.limbo += 1
                ev = {"e": "write", "o": me, "refused": refused, "sharers": sharers, "len": length, "others_changed": changed,
                      "s": None if refused else LIMBO + tr.limbo, "c": cur[me][1] if me in cur else [], "desc": st}
                events.append(ev)
                if not refused and me in cur:
                    events.append({"e": "swap", "o": me, "s": cur[me][0], "c": cur[me][1]})
                stats["writes"] += 1
                stats["refused"] += refused
                if churn:
                    stats["after_churn"] += 1
                if not refused and cur[me][0] in freed:
                    stats["reuse"] += 1
                events += tr.diff_events(cur, skip=(me,))
                if rf and (rf["stale"] or rf["missing"]):
                    events.append({"e": "regcheck", "stale": rf["stale"], "missing": rf["missing"], "desc": st})
                stats["regchecks"] = stats.get("regchecks", 0) + (rf is not None)
                tr.prev = cur
            else:
                try:
                    run_step(slots, pool, st)
                except Exception as e:
                    pass
                cur, live = tr.snapshot()
                rf = tr.registry_faults(live)
                del live
                evs = tr.diff_events(cur)
                if rf and (rf["stale"] or rf["missing"]):
                    evs.append({"e": "regcheck", "stale": rf["stale"], "missing": rf["missing"], "desc": st})
                stats["regchecks"] = stats.get("regchecks", 0) + (rf is not None)
                if st["op"] in UNSHARED_OPS:
                    evs += [{"e": "fresh", "o": e["o"], "desc": st} for e in evs if e["e"] == "create"]
                for e in evs:
                    if e["e"] == "drop":
                        freed.add(tr.prev[e["o"]][0]); churn = True
                    elif e["e"] in ("create", "swap") and e["s"] in freed and e["s"] < LIMBO:
                        stats["reuse"] += 1
                    if e["e"] == "swap":
                        churn = True
                events += evs
                tr.prev = cur
    for i in range(NS):
        slots[i] = None
    pool[:] = []
    gc.collect()
    return steps, events, stats


class _Obj:
    __slots__ = ("__weakref__",)


def run_tracker(spec):
    """unit-level: a private _AliasTracker instance, identities 1..4 chosen by the harness, objects killed at chosen points"""
    from serif import alias_tracker as at
    cls = getattr(at, "_AliasTracker", None)
    if cls is None or not all(callable(getattr(cls, m, None)) for m in ("register", "unregister", "check_writable")):
        return None
    err = getattr(at, "AliasError", None)
    tr = cls()
    rng = random.Random(spec["seed"])
    ops, objs, live = [], [], []
    stats = {"checks": 0, "refused": 0, "after_kill": 0}
    killed = False
    for _ in range(spec["n"]):
        r = rng.random()
        if r < 0.15 or not live:
            objs.append(_Obj()); live.append(len(objs) - 1)
            ops.append({"op": "new"})
            continue
        o = rng.choice(live)
        s = rng.choice((1, 1, 2, 2, 3, 4))
        if r < 0.45:
            tr.register(objs[o], s); ops.append({"op": "reg", "o": o, "s": s})
        elif r < 0.58:
            tr.unregister(objs[o], s); ops.append({"op": "unreg", "o": o, "s": s})
        elif r < 0.72:
            objs[o] = None; live.remove(o); killed = True
            ops.append({"op": "kill", "o": o})
        else:
            refused = False
            try:
                tr.check_writable(objs[o], s)
            except Exception as e:
                if err is not None and isinstance(e, err):
                    refused = True
                else:
                    raise
            ops.append({"op": "check", "o": o, "s": s, "refused": refused})
            stats["checks"] += 1; stats["refused"] += refused; stats["after_kill"] += killed
    return ops, stats


def generate(rng, tier):
    n = 1200 if tier == "quick" else 40000
    for i in range(600 if tier == "quick" else 20000):
        yield {"fam": "tracker", "seed": rng.randrange(1 << 30), "n": 40}
    for i in range(n):
        yield {"fam": "history", "seed": rng.randrange(1 << 30), "nsteps": 30 if tier == "quick" or i % 3 else 80}


def execute(spec):
    if spec["fam"] == "tracker":
        r = run_tracker(spec)
        if r is None:
            return {"skip": "alias_tracker._AliasTracker with register/unregister/check_writable not found"}
        return {"fam": "tracker", "case": {"ops": r[0]}, "impl": r[1]}
    steps, events, stats = run_history(spec)
    return {"fam": "history", "case": {"events": events}, "impl": stats, "_steps": steps}


def nontrivial(spec, wire):
    if spec["fam"] == "tracker":
        return wire["impl"]["after_kill"] >= 1 and wire["impl"]["refused"] >= 1
    return wire["impl"]["after_churn"] >= 1


def histogram(spec, wire):
    if spec["fam"] == "tracker":
        s = wire["impl"]
        return ["tracker-op:" + o["op"] for o in wire["case"]["ops"]] + ["tracker-check:refused"] * s["refused"] + \
            ["tracker-check:accepted"] * (s["checks"] - s["refused"])
    out = ["event:" + e["e"] for e in wire["case"]["events"]]
    s = wire["impl"]
    out += ["write:refused"] * s["refused"] + ["write:accepted"] * (s["writes"] - s["refused"]) + ["identity-reuse-observed"] * s["reuse"]
    return out


def shrink(spec):
    if spec["fam"] == "tracker":
        for n in range(spec["n"] - 1, 0, -1):
            yield dict(spec, n=n)
        return
    if "steps" not in spec:
        steps, _, _ = run_history(spec)
        yield {"fam": "history", "steps": steps}
        return
    st = spec["steps"]
    for i in range(len(st) - 1, -1, -1):
        yield dict(spec, steps=st[:i] + st[i + 1:])


def snippet(spec):
    if spec["fam"] == "tracker":
        r = run_tracker(spec)
        return "# direct calls on a private serif.alias_tracker._AliasTracker(); ops:\n" + "\n".join("# " + repr(o) for o in (r[0] if r else []))
    steps = spec.get("steps") or run_history(spec)[0]
    return "# history over 6 slots and a pool of caller tuples; steps:\n" + "\n".join("# " + repr(s) for s in steps)
