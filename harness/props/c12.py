"""C12 — group-by aggregation: one row per key in first-appearance order, correct values.
(The table/argument machinery here is shared with C13, harness/props/c13.py.)"""
import itertools, json, os, subprocess, sys, math
from fractions import Fraction
from values import Interner, err_class, storage

PID = "C12"
RULE = ("agg: every table with <=4 rows, one key column over {0,1,None} and a value column over {1,2,None} (quick and "
        "thorough), two key columns with <=3 rows (quick) / <=4 rows (thorough), each with all six built-ins plus a recording "
        "custom function; random tables to 60 rows with 1-3 key columns given by name / by the table's own vector / by an external "
        "vector, key pools with None, strings, 1/True/1.0 (one equality class), every subset of the aggregate arguments, the same "
        "column several times, all-None groups, colliding / unsanitary / missing names; reduce: Vector.sum/mean/min/max/stdev against "
        "aggregate over one constant key, all vectors over {1,2,None} to length 5 and random ones; malformed: wrong-length key or "
        "value vectors must be rejected; hashseed (thorough): the same call in subprocesses with different PYTHONHASHSEED and string keys. "
        "non-trivial = at least two groups one of which has at least two rows (reduce: at least two non-None values and one None)")
ASSUMPTIONS = [
    "aggregated value columns hold ints and None only (sum/count/min/max compared exactly; mean and stdev**2 against exact rationals "
    "with 1e-9 relative tolerance); float/Decimal/date value columns are not generated",
    "key cells are hashable and self-equal (no NaN, no lists); key equality is Python's ==/hash, interned by the harness",
    "columns are identified by position and by name: keys first, then sum, mean, min, max, count, stdev blocks in that order, then "
    "the apply entries; names as computed by make_agg_name/uniquify with the sanitised base taken from serif.naming._sanitize_user_name",
    "one to three partition keys (over=[] is not generated)",
]
TRUSTED = ["_sanitize_user_name is used as an oracle for the base of '<base>_<fn>' names (its own rules are C17/C18)",
           "float results are turned into exact fractions by the harness (fractions.Fraction) before Lean compares them"]
BUDGET_S = {"quick": 22, "thorough": 330}

FNS = ["sum", "mean", "min", "max", "stdev", "count"]          # keyword order of the signature
KW = {f: f + "_over" for f in FNS}


# --------------------------------------------------------------------------------------
# building the Python inputs from a spec
# --------------------------------------------------------------------------------------
# spec = {"fam":…, "cols":[[name, [values…]]…], "ext":[[name,[values…]]…], "over":[ref…],
#         "sum":[ref…]|absent, …, "apply":[[name, ref]…], "single":[argnames passed as a bare str/Vector]}
# ref  = ["n", i] column i of the table, by its name | ["v", i] column i, by the table's own vector
#        | ["x", j] external vector j (not stored in the table)

class Recorder:
    """custom aggregation function: logs its argument and returns an id determined by the argument"""

    def __init__(self, mutate=False):
        self.log = []
        self.table = {}
        self.args = []
        self.mutate = mutate
        self.kept = []

    def stale(self):
        """a function may keep the list it was handed (a 'collect' aggregation): every kept list must still hold the values of
        its own call once the whole aggregate / window call has returned (minus what the function itself did to it)"""
        return any(k is not None and list(k) != want for k, want in self.kept)

    def __call__(self, vals):
        arg = vals
        vals = list(vals)
        self.kept.append((arg if isinstance(arg, list) and not self.mutate else None, list(vals)))
        if self.mutate and isinstance(arg, list):
            # a user function may use its argument as scratch space (sort it, pop from it): every call must have been handed
            # the group's values in a list of its own
            arg.reverse()
            arg.append("scratch")
        self.log.append(vals)
        k = tuple((type(v).__name__, repr(v)) for v in vals)
        if k not in self.table:
            self.table[k] = len(self.table)
            self.args.append(vals)
        return self.table[k]


def _vec(spec, name, vals):
    """a value vector; with spec["declared"] an int column holding None is built with a *declared* plain dtype
    (`Vector(vals, dtype=int)`, non-nullable by construction): aggregates must go by the values, not by the schema"""
    from serif import Vector
    vals = list(vals)
    if spec.get("declared") and any(v is None for v in vals) and any(v is not None for v in vals) \
            and all(v is None or (type(v) is int) for v in vals):
        return Vector(vals, dtype=int, name=name)
    return Vector(vals, name=name)


def build(spec):
    from serif import Vector, Table
    t = Table([_vec(spec, name, vals) for name, vals in spec["cols"]])
    ext = [_vec(spec, name, vals) for name, vals in spec.get("ext", [])]
    return t, ext


def resolve(t, ext, ref):
    """the vector a ref denotes (for the model side)"""
    kind, i = ref
    if kind == "x":
        return ext[i]
    return t.cols()[i]


def pyarg(t, ext, ref, spec):
    kind, i = ref
    if kind == "n":
        return spec["cols"][i][0]
    if kind == "v":
        return t.cols()[i]
    return ext[i]


def call_kwargs(t, ext, spec, recs):
    single = spec.get("single", [])
    kw = {}
    over = [pyarg(t, ext, r, spec) for r in spec["over"]]
    kw["over"] = over[0] if ("over" in single and len(over) == 1) else over
    for f in FNS:
        refs = spec.get(f)
        if refs is None:
            continue
        a = [pyarg(t, ext, r, spec) for r in refs]
        kw[KW[f]] = a[0] if (f in single and len(a) == 1) else a
    if spec.get("apply"):
        kw["apply"] = {name: (pyarg(t, ext, ref, spec), rec) for (name, ref), rec in zip(spec["apply"], recs)}
    return kw


def observe(res):
    """public observation of a result table: names and cells"""
    cols = res.cols()
    return {"names": list(res.column_names()), "cols": [list(storage(c)) for c in cols]}


def run_raw(spec, which=("agg",)):
    """runs the real code; everything returned is JSON-native (None/bool/int/float/str)"""
    import warnings
    with warnings.catch_warnings():
        warnings.simplefilter("ignore")
        warm = spec.get("warm")
        if warm:
            # a result must not depend on earlier calls on the same table: build the table with other key cells, aggregate/window
            # once, then write the final cells IN PLACE (hash-equal partners such as -1 / -2 included) and only then run the
            # judged call — anything memoised by the first call is stale now
            pre = dict(spec, cols=[[nm, list(v)] for nm, v in spec["cols"]], ext=[[nm, list(v)] for nm, v in spec.get("ext", [])])
            for kind, j, i, old in warm["edits"]:
                (pre["cols"] if kind == "t" else pre["ext"])[j][1][i] = old
            t, ext = build(pre)
            for w in which:
                try:
                    (t.aggregate if w == "agg" else t.window)(**call_kwargs(t, ext, spec, [Recorder(bool(spec.get("mutating"))) for _ in range(len(spec.get("apply") or []))]))
                except Exception:
                    pass
            for kind, j, i, old in warm["edits"]:
                col = t.cols()[j] if kind == "t" else ext[j]
                try:
                    col[i] = (spec["cols"] if kind == "t" else spec["ext"])[j][1][i]
                except Exception:
                    raise Skip("the in-place edit was refused")
        else:
            t, ext = build(spec)
        out = {"nrows": len(t),
               "tcols": [list(storage(c)) for c in t.cols()], "tnames": [c.name for c in t.cols()],
               "xcols": [list(storage(c)) for c in ext], "xnames": [c.name for c in ext]}
        napply = len(spec.get("apply") or [])
        recs = [Recorder(bool(spec.get("mutating"))) for _ in range(napply)]
        for w in which:
            for r in recs:
                r.log = []
                r.kept = []
            kw = call_kwargs(t, ext, spec, recs)
            try:
                res = (t.aggregate if w == "agg" else t.window)(**kw)
                o = {"ok": observe(res)}
            except Exception as e:
                o = {"err": err_class(e)}
            o["logs"] = [list(r.log) for r in recs]
            if any(r.stale() for r in recs):
                # the group lists handed to an apply function were reused / rewritten after the call: report it as a log that no
                # longer shows each group's values (the judge compares the logs with the groups)
                o["logs"] = [[list(k) if k is not None else want for k, want in r.kept] for r in recs]
            out[w] = o
        out["ftabs"] = [[[a, r.table[tuple((type(v).__name__, repr(v)) for v in a)]] for a in r.args] for r in recs]
    return out


def run_raw_subprocess(spec, which, hashseed):
    env = dict(os.environ, PYTHONHASHSEED=str(hashseed))
    here = os.path.dirname(os.path.dirname(os.path.abspath(__file__)))
    code = ("import sys, json; sys.path.insert(0, %r); import core; from props import c12; "
            "print(json.dumps(c12.run_raw(json.loads(sys.stdin.read()), %r)))" % (here, tuple(which)))
    p = subprocess.run([sys.executable, "-c", code], input=json.dumps(spec), capture_output=True, text=True, env=env, timeout=120)
    if p.returncode != 0:
        raise RuntimeError("subprocess failed: " + p.stderr[-500:])
    return json.loads(p.stdout.strip().splitlines()[-1])


# --------------------------------------------------------------------------------------
# wire encoding
# --------------------------------------------------------------------------------------

def num_of(v):
    """numeric view of an output cell: None | [num, den] exact | [0, 0] (not a finite number)"""
    if v is None:
        return None
    if isinstance(v, (int, Fraction)) or (isinstance(v, float) and math.isfinite(v)):
        f = Fraction(v)
        return [f.numerator, f.denominator]
    return [0, 0]


def sanitised_base(name):
    from serif.naming import _sanitize_user_name
    s = _sanitize_user_name(name or "col")
    return s if s else "col"


def encode(spec, raw, which):
    """-> (case, {w: impl result}) or raises Skip"""
    I = Interner()

    def col_of(ref):
        kind, i = ref
        if kind == "x":
            return raw["xnames"][i], raw["xcols"][i]
        if kind == "n":          # a name denotes the first column carrying exactly that name
            i = raw["tnames"].index(spec["cols"][i][0])
        return raw["tnames"][i], raw["tcols"][i]

    case = {"nrows": raw["nrows"], "over": [], "apply": []}
    for ref in spec["over"]:
        name, cells = col_of(ref)
        ws = I.wires(cells)
        case["over"].append({"name": name, "eq": [w[1] for w in ws], "uid": [w[2] for w in ws]})
    for f in FNS:
        case[f] = []
        for ref in spec.get(f) or []:
            name, cells = col_of(ref)
            if any(not (c is None or type(c) is int) for c in cells):
                raise Skip("aggregated column holds non-int values")
            case[f].append({"san": sanitised_base(name), "ints": cells})
    for k, (name, ref) in enumerate(spec.get("apply") or []):
        _, cells = col_of(ref)
        case["apply"].append({"name": name, "data": [I.uid(c) for c in cells],
                              "ftab": [[[I.uid(c) for c in a], i] for a, i in raw["ftabs"][k]]})
    impls = {}
    for w in which:
        o = raw[w]
        if "err" in o:
            impls[w] = {"err": o["err"]}
            continue
        cols = []
        for cells in o["ok"]["cols"]:
            ws = I.wires(cells)
            cols.append({"eq": [x[1] for x in ws], "uid": [x[2] for x in ws], "num": [num_of(c) for c in cells]})
        impls[w] = {"ok": {"names": o["ok"]["names"], "cols": cols},
                    "logs": [[[I.uid(c) for c in call] for call in log] for log in o["logs"]]}
    return case, impls


class Skip(Exception):
    pass


def execute_group(spec, which):
    hs = spec.get("hashseed")
    try:
        raw = run_raw(spec, which) if hs is None else run_raw_subprocess(spec, which, hs)
        case, impls = encode(spec, raw, which)
    except Skip as s:
        return None, None, str(s)
    return case, impls, None


def _reduce_cells(spec):
    """built-in aggregates over a column whose cells are containers (tuples: version numbers, coordinates): a cell is ONE value of
    its group, also when the group has a single row — judged here against plain Python (the Lean model speaks about numbers)"""
    import warnings
    from serif import Table
    keys = spec["ckeys"]
    cells = [None if c is None else tuple(c) for c in spec["cells"]]
    order = []
    for k in keys:
        if k not in order:
            order.append(k)
    groups = {k: [c for kk, c in zip(keys, cells) if kk == k and c is not None] for k in order}
    want = {"count": [len(groups[k]) for k in order], "min": [min(groups[k]) if groups[k] else None for k in order],
            "max": [max(groups[k]) if groups[k] else None for k in order]}
    bad = []
    with warnings.catch_warnings():
        warnings.simplefilter("ignore")
        t = Table({"k": list(keys), "c": list(cells)})
        for meth in ("aggregate", "window"):
            for f in ("count", "min", "max"):
                try:
                    r = getattr(t, meth)(over="k", **{KW[f]: "c"})
                    got = list(r.cols()[-1])
                except Exception as e:
                    bad.append(f"{meth}({f}_over) raised {type(e).__name__}")
                    continue
                exp = want[f] if meth == "aggregate" else [want[f][order.index(k)] for k in keys]
                if got != exp:
                    bad.append(f"{meth}({f}_over) on cells {cells} with keys {keys}: {got}, expected {exp}")
    w = {"fam": "reduce", "case": {"vals": [], "key": None}, "impl": {}}
    if bad:
        w["py_fail"] = "; ".join(bad[:3])
    else:
        w["skip"] = "consistent (judged in Python)"
    return w


def execute(spec):
    if spec["fam"] == "reduce" and "cells" in spec:
        return _reduce_cells(spec)
    if spec["fam"] == "reduce":
        return _reduce(spec)
    case, impls, skip = execute_group(spec, ("agg",))
    if skip:
        return {"skip": skip}
    return {"fam": spec["fam"], "case": case, "impl": impls["agg"]}


def _reduce_floats(spec):
    """the same clause on FLOAT columns: the whole-column reduction and the single-group aggregate (and window) of the very same
    column must be the same number — judged here, on Python's own floats (the Lean model is exact and speaks about integers)"""
    import warnings, math
    from serif import Vector, Table
    vals = spec["fvals"]
    with warnings.catch_warnings():
        warnings.simplefilter("ignore")
        v = Vector(list(vals), name="x")
        t = Table([Vector([0] * len(vals), name="k"), Vector(list(vals), name="x")])
        bad = []
        try:
            a = t.aggregate(over="k", **{KW[f]: "x" for f in FNS})
            w = t.window(over="k", **{KW[f]: "x" for f in FNS})
        except Exception as e:
            return {"skip": "aggregate raised " + type(e).__name__}
        for f in ("sum", "mean", "min", "max", "stdev"):
            try:
                r = getattr(v, f)()
            except Exception as e:
                continue
            for label, tab in (("aggregate", a), ("window", w)):
                cells = list(storage(tab["x_" + f]))
                g = cells[0] if cells else None
                same = (r == g) or (isinstance(r, float) and isinstance(g, float) and math.isnan(r) and math.isnan(g))
                if not same:
                    bad.append(f"Vector.{f}() = {r!r} but {label}({KW[f]}=...) of the same column as one group = {g!r}")
    out = {"fam": "reduce", "case": {"ints": []}, "impl": {"red": [], "agg": []}}
    if bad:
        out["py_fail"] = "; ".join(bad[:2]) + f" (column {vals!r})"
    return out


def _reduce(spec):
    """Vector reductions against aggregate over a single group"""
    import warnings
    from serif import Vector, Table
    if "fvals" in spec:
        return _reduce_floats(spec)
    vals = spec["vals"]
    red, agg = [], []
    if not vals:
        return {"skip": "empty vector: no group, and outside the reduction clause"}
    has_value = any(x is not None for x in vals)     # the reduction clause needs one non-None value
    with warnings.catch_warnings():
        warnings.simplefilter("ignore")
        v = Vector(list(vals), name="x")
        for f in ("sum", "mean", "min", "max", "stdev") if has_value else ():
            try:
                red.append([f, num_of(getattr(v, f)())])
            except Exception:
                red.append([f, "raise"])
        t = Table([Vector([spec.get("key", 0)] * len(vals), name="k"), Vector(list(vals), name="x")])
        try:
            r = t.aggregate(over="k", **{KW[f]: "x" for f in FNS})
            names = r.column_names()
            for f in FNS:
                cells = list(storage(r["x_" + f])) if ("x_" + f) in names else []
                agg.append([f, num_of(cells[0]) if len(cells) == 1 else "raise"])
        except Exception:
            agg = [[f, "raise"] for f in FNS]
    return {"fam": "reduce", "case": {"ints": list(vals)}, "impl": {"red": red, "agg": agg}}


# --------------------------------------------------------------------------------------
# generators
# --------------------------------------------------------------------------------------

KEYPOOLS = [[0, 1, None], [-1, -2, 3, None], ["a", "b", None], [1, True, 1.0, 2, None], ["a", "", "b", 0, None], [None, 5],
            ["x", "y", "z", "w"], [0, 1, 2, 3, 4, 5, None], [False, 0, 0.0, "0", None]]
VALPOOLS = [[1, 2, None], [None, None, 3], list(range(-4, 9)) + [None, None], [0, 7], [None], [5, 5, 6, None], [100, -100, 3, None],
            # large offset, small spread: a variance formula that cancels catastrophically (sum of squares minus square of sum)
            # is far off here while the two-pass textbook formula is exact
            [1700000001, 1700000002, 1700000003, None], [123456789, 123456790, 123456791]]
NAMES = ["k", "x", "y", "X Y", "k", "x_sum", "sum", "key", "col", "", None, "1a", "a__1", "K", "naïve", "x sum", "count"]
APPLY_NAMES = ["z", "x_sum", "k", "key", "x_mean2", "custom name", "x_sum2"]


def exhaustive(fam, nkeys, maxrows, minrows=0):
    kp, vp = [0, 1, None], [1, 2, None]
    for n in range(minrows, maxrows + 1):
        for ks in itertools.product(itertools.product(kp, repeat=n), repeat=nkeys):
            for vs in itertools.product(vp, repeat=n):
                cols = [["k%d" % i, list(k)] for i, k in enumerate(ks)] + [["x", list(vs)]]
                over = [["n" if (i + n) % 2 == 0 else "v", i] for i in range(nkeys)]
                x = ["n", nkeys]
                spec = {"fam": fam, "cols": cols, "ext": [], "over": over, "apply": [["z", x]],
                        "single": ["over", "sum", "max"] if n % 2 else []}
                for f in FNS:
                    spec[f] = [x]
                yield spec


def random_spec(rng, fam, interleave=False):
    n = rng.choice([0, 1, 2, 3, 5, 8, 13, 20, 35, 60]) if rng.random() < 0.5 else rng.randint(2, 12)
    if rng.random() < 0.02:
        n = rng.choice([129, 257, 300])          # now and then a long table (size-triggered strategies)
    ncols = rng.randint(2, 5)
    cols, kinds = [], []
    for i in range(ncols):
        isval = (i >= 1) and (rng.random() < 0.6 or i == 1)
        pool = rng.choice(VALPOOLS if isval else KEYPOOLS)
        if not isval and rng.random() < 0.3:
            pool = rng.choice(VALPOOLS)          # an int-valued key column (usable as key and as value)
            isval = True
        if interleave and not isval:
            pool = pool[:3]
        vals = [rng.choice(pool) for _ in range(n)]
        cols.append([rng.choice(NAMES), vals])
        kinds.append(isval)
    nx = rng.randint(0, 2)
    ext, xkinds = [], []
    for j in range(nx):
        isval = rng.random() < 0.5
        pool = rng.choice(VALPOOLS if isval else KEYPOOLS)
        ext.append([rng.choice(NAMES), [rng.choice(pool) for _ in range(n)]])
        xkinds.append(isval)
    if rng.random() < 0.25 and n:
        # an all-None group: blank the values of every row of one key
        j = rng.randrange(n)
        for i in range(n):
            if cols[0][1][i] == cols[0][1][j]:
                for c, isval in zip(cols[1:], kinds[1:]):
                    if isval:
                        c[1][i] = None

    def first_with_name(i):
        nm = cols[i][0]
        return isinstance(nm, str) and [c[0] for c in cols].index(nm) == i

    def ref_to(i):
        if first_with_name(i) and rng.random() < 0.5:
            return ["n", i]
        return ["v", i]

    allrefs = [("t", i) for i in range(ncols)] + [("x", j) for j in range(nx)]
    valrefs = [r for r in allrefs if (kinds[r[1]] if r[0] == "t" else xkinds[r[1]])]

    def mk(r):
        return ref_to(r[1]) if r[0] == "t" else ["x", r[1]]

    nk = rng.choice([1, 1, 2, 2, 3])
    over = [mk(rng.choice(allrefs)) for _ in range(nk)]
    if rng.random() < 0.7:
        over[0] = mk(("t", 0))
    spec = {"fam": fam, "cols": cols, "ext": ext, "over": over, "apply": [], "single": []}
    if rng.random() < 0.12:
        spec["declared"] = True
    if rng.random() < 0.2 and n > 0:
        # warm variant: one or two key cells had another value of the same type before an earlier call
        edits = []
        for ref in over:
            kind, j = ("x", ref[1]) if ref[0] == "x" else ("t", ref[1])
            colv = (ext if kind == "x" else cols)[j][1]
            i = rng.randrange(len(colv))
            cur = colv[i]
            if cur is None or isinstance(cur, bool) or not isinstance(cur, (int, str)):
                continue
            partner = {-1: -2, -2: -1}.get(cur) if isinstance(cur, int) else None
            old = partner if partner is not None and rng.random() < 0.8 else rng.choice([v for v in colv if type(v) is type(cur)] + [cur])
            if old != cur and (kind != "t" or [c[0] for c in cols].count(cols[j][0]) == 1 or True):
                edits.append([kind, j, i, old])
        if edits:
            spec["warm"] = {"edits": edits[:2]}
    if valrefs:
        for f in FNS:
            if rng.random() < 0.5:
                k = rng.choice([1, 1, 1, 2, 3])
                spec[f] = [mk(rng.choice(valrefs)) for _ in range(k)]
                if k == 2 and rng.random() < 0.5:
                    spec[f][1] = spec[f][0]          # the same column twice
            elif rng.random() < 0.1:
                spec[f] = []
    for _ in range(rng.choice([0, 0, 1, 1, 2, 3])):
        name = rng.choice(APPLY_NAMES)
        if name not in [a[0] for a in spec["apply"]]:
            spec["apply"].append([name, mk(rng.choice(allrefs))])
    if len(spec["apply"]) >= 2 and rng.random() < 0.5:
        spec["apply"][1][1] = spec["apply"][0][1]          # two custom functions on the same column
    if spec["apply"] and rng.random() < 0.4:
        spec["mutating"] = True                            # ... that use their argument as scratch space
    if rng.random() < 0.03:
        spec["over"] = []                                  # no key column at all: the whole table is one group
    spec["single"] = [a for a in ["over"] + FNS if rng.random() < 0.4]
    return spec


def malformed(rng, fam):
    s = random_spec(rng, fam)
    n = len(s["cols"][0][1])
    bad = ["bad", [rng.choice([1, 2, None]) for _ in range(n + rng.choice([1, 2]) if rng.random() < 0.6 or n == 0 else n - 1)]]
    s["ext"] = s.get("ext", []) + [bad]
    j = len(s["ext"]) - 1
    where = rng.choice(["over", "sum", "mean", "min", "max", "count", "stdev", "apply"])
    if where == "over":
        s["over"] = s["over"][:rng.randint(0, len(s["over"]))] + [["x", j]]
        if rng.random() < 0.4:          # nothing but (wrong-length) keys
            for f in FNS:
                s.pop(f, None)
            s["apply"] = []
            if rng.random() < 0.5:
                s["over"] = [["x", j]]
    elif where == "apply":
        s["apply"] = s["apply"][:1] + [["w", ["x", j]]]
    else:
        s[where] = (s.get(where) or []) + [["x", j]]
    s["fam"] = "malformed"
    s["base"] = fam
    return s


def hashseed_spec(rng, fam):
    s = random_spec(rng, fam)
    words = ["alpha", "beta", "gamma", "delta", "eps", "zeta", "eta", "theta", "iota", "kappa", None]
    n = len(s["cols"][0][1])
    s["cols"].append(["hk", [rng.choice(words[:rng.randint(2, len(words))]) for _ in range(n)]])
    s["over"][0] = [rng.choice(["n", "v"]), len(s["cols"]) - 1]
    s["hashseed"] = rng.choice([0, 1, 2, 3, 7, 42, 12345, 4294967295])
    s["fam"] = "hashseed"
    s["base"] = fam
    return s


def generate(rng, tier):
    yield from exhaustive("agg", 1, 4)
    yield from exhaustive("agg", 2, 3)
    # vector reductions
    for n in range(0, 6):
        for vs in itertools.product([1, 2, None], repeat=n):
            yield {"fam": "reduce", "vals": list(vs)}
    for _ in range(300 if tier == "quick" else 6000):
        pool = rng.choice(VALPOOLS)
        yield {"fam": "reduce", "vals": [rng.choice(pool) for _ in range(rng.randint(1, 40))], "key": rng.choice([0, None, "a"])}
    # container-valued cells: groups of one row, of several rows, of None only
    cellpool = [[1, 2], [3], [], [0, None], None, [2, 1, 0]]
    for n in (1, 2, 3):
        for ks in itertools.product([0, 1], repeat=n):
            for cs in itertools.product(range(len(cellpool)), repeat=n):
                yield {"fam": "reduce", "ckeys": list(ks), "cells": [cellpool[c] for c in cs]}
    # float columns: whole-column reduction against the single-group aggregate / window, to the last bit
    for _ in range(3000 if tier == "quick" else 60000):
        n = rng.randint(2, 6)
        scale = rng.choice([1.0, 1e-3, 1e3, 1e6])
        fv = [None if rng.random() < 0.1 else rng.uniform(-1, 1) * scale * rng.choice([1, 1, 1e-6]) for _ in range(n)]
        if sum(x is not None for x in fv) >= 2:
            yield {"fam": "reduce", "fvals": fv}
    for i in range(20000 if tier == "quick" else 120000):
        yield random_spec(rng, "agg", interleave=(i % 3 == 0))
        if i % 10 == 0:
            yield malformed(rng, "agg")
        if tier == "thorough" and i % 400 == 0:
            yield hashseed_spec(rng, "agg")
    if tier == "thorough":       # the largest exhaustive block last, so that a tight budget cuts only its tail
        yield from exhaustive("agg", 2, 4, minrows=4)


# --------------------------------------------------------------------------------------
# reporting
# --------------------------------------------------------------------------------------

def _groups(wire):
    keys = list(zip(*[c["eq"] for c in wire["case"]["over"]])) if wire["case"].get("over") else []
    order, rows = [], {}
    for i, k in enumerate(keys):
        if k not in rows:
            rows[k] = []
            order.append(k)
        rows[k].append(i)
    return keys, order, rows


def nontrivial(spec, wire):
    if spec["fam"] == "reduce":
        v = spec.get("vals", spec.get("fvals"))
        return sum(x is not None for x in v) >= 2 and (any(x is None for x in v) or "fvals" in spec)
    if spec["fam"] == "malformed":
        return "err" in wire["impl"] or "err" in wire["impl"].get("win", {})
    keys, order, rows = _groups(wire)
    return len(order) >= 2 and any(len(r) >= 2 for r in rows.values())


def histogram(spec, wire):
    fam = spec["fam"]
    if fam == "reduce":
        vv = spec.get("vals", spec.get("fvals"))
        n = len(vv)
        return ["reduce:len" + ("0" if n == 0 else "1-5" if n <= 5 else "6+"),
                "reduce:all-none" if all(x is None for x in vv) else "reduce:has-value"] + (["reduce:floats"] if "fvals" in spec else [])
    keys, order, rows = _groups(wire)
    n = len(keys)
    out = [f"{fam}:rows " + ("0" if n == 0 else "1-4" if n <= 4 else "5-12" if n <= 12 else "13+"),
           f"{fam}:groups " + ("0" if not order else "1" if len(order) == 1 else "2-3" if len(order) <= 3 else "4+"),
           f"{fam}:keys {len(spec['over'])}"]
    # interleaved: some group's rows are not contiguous
    if any(r[-1] - r[0] + 1 != len(r) for r in rows.values()):
        out.append(f"{fam}:interleaved")
    if any(0 in k for k in order):
        out.append(f"{fam}:none-key")
    for r in spec["over"]:
        out.append(f"{fam}:key-by-" + {"n": "name", "v": "vector", "x": "external"}[r[0]])
    allnone = False
    for f in FNS:
        if spec.get(f):
            out.append(f"{fam}:{f}" + ("*%d" % len(spec[f]) if len(spec[f]) > 1 else ""))
            for c in wire["case"].get(f, []):
                if len(c["ints"]) == n and any(all(c["ints"][i] is None for i in r) for r in rows.values()):
                    allnone = True
    if allnone:
        out.append(f"{fam}:all-none-group")
    if spec.get("apply"):
        out.append(f"{fam}:apply*{len(spec['apply'])}")
    names = (wire["impl"].get("ok") or (wire["impl"].get("win") or {}).get("ok") or {}).get("names") or []
    if any(isinstance(x, str) and x[-1:].isdigit() and x[:-1] in names for x in names):
        out.append(f"{fam}:uniquified-name")
    if "err" in wire["impl"]:
        out.append(f"{fam}:err:" + wire["impl"]["err"])
    return out


def shrink(spec):
    if spec["fam"] == "reduce":
        k = "fvals" if "fvals" in spec else "vals"
        v = spec[k]
        for i in range(len(v)):
            yield dict(spec, **{k: v[:i] + v[i + 1:]})
        return
    n = len(spec["cols"][0][1]) if spec["cols"] else 0
    # drop arguments
    for f in FNS:
        if spec.get(f) is not None:
            yield {k: v for k, v in spec.items() if k != f}
            for i in range(len(spec[f])):
                if len(spec[f]) > 1:
                    yield dict(spec, **{f: spec[f][:i] + spec[f][i + 1:]})
    for i in range(len(spec.get("apply") or [])):
        yield dict(spec, apply=spec["apply"][:i] + spec["apply"][i + 1:])
    if len(spec["over"]) > 1 and spec["fam"] != "malformed":
        for i in range(len(spec["over"])):
            yield dict(spec, over=spec["over"][:i] + spec["over"][i + 1:])
    # drop a row everywhere (external vectors of the table's length too)
    for i in range(n):
        yield dict(spec, cols=[[nm, v[:i] + v[i + 1:]] for nm, v in spec["cols"]],
                   ext=[[nm, (v[:i] + v[i + 1:]) if len(v) == n else v] for nm, v in spec.get("ext", [])])
    if spec.get("single"):
        yield dict(spec, single=[])
    if spec.get("hashseed") is not None:
        yield {k: v for k, v in spec.items() if k != "hashseed"}
    # simpler values
    for ci, (nm, v) in enumerate(spec["cols"]):
        for i, x in enumerate(v):
            if isinstance(x, int) and not isinstance(x, bool) and x not in (0, 1):
                cols = [list(c) for c in spec["cols"]]
                cols[ci] = [nm, v[:i] + [1] + v[i + 1:]]
                yield dict(spec, cols=cols)


def snippet(spec, methods=("aggregate",)):
    if spec["fam"] == "reduce":
        return ("from serif import Vector, Table\n"
                f"v = Vector({spec['vals']!r}, name='x')\n"
                "print(v.sum(), v.mean(), v.min(), v.max(), v.stdev())\n"
                f"t = Table([Vector([0]*len(v), name='k'), v])\n"
                "print(t.aggregate(over='k', sum_over='x', mean_over='x', min_over='x', max_over='x', stdev_over='x', count_over='x'))")
    lines = ["from serif import Vector, Table",
             "t = Table([" + ", ".join(f"Vector({v!r}, name={nm!r})" for nm, v in spec["cols"]) + "])"]
    for j, (nm, v) in enumerate(spec.get("ext", [])):
        lines.append(f"x{j} = Vector({v!r}, name={nm!r})")

    def arg(ref):
        return repr(spec["cols"][ref[1]][0]) if ref[0] == "n" else f"t.cols()[{ref[1]}]" if ref[0] == "v" else f"x{ref[1]}"

    def many(name, refs):
        a = [arg(r) for r in refs]
        return a[0] if (name in spec.get("single", []) and len(a) == 1) else "[" + ", ".join(a) + "]"

    args = ["over=" + many("over", spec["over"])]
    for f in FNS:
        if spec.get(f) is not None:
            args.append(f"{KW[f]}=" + many(f, spec[f]))
    if spec.get("apply"):
        lines.append("calls = []")
        lines.append("def rec(vals): calls.append(list(vals)); return len(calls)")
        args.append("apply={" + ", ".join(f"{nm!r}: ({arg(r)}, rec)" for nm, r in spec["apply"]) + "}")
    for method in methods:
        lines.append("try:")
        lines.append(f"    r = t.{method}(" + ", ".join(args) + ")")
        lines.append(f"    print({method!r}, r.column_names()); print([list(c) for c in r.cols()])")
        lines.append("except Exception as e:")
        lines.append(f"    print({method!r}, 'raised', type(e).__name__, e)")
        if spec.get("apply"):
            lines.append("print('calls:', calls); calls.clear()")
    if spec.get("hashseed") is not None:
        lines.insert(0, f"# run with PYTHONHASHSEED={spec['hashseed']}")
    return "\n".join(lines)


KNOWN = {}

LEVEL_TEXT = ("Proof: for every key list (any key type with decidable equality, None included) the partition loop is proved to yield "
              "the distinct keys in first-appearance order (no repeats, exactly the occurring keys, ordered by first row), each with the "
              "ascending list of exactly the rows carrying that key; composite keys coincide iff every key column agrees; "
              "aggregate_col with ANY function is proved equal to mapping that function over the hand-grouped values in row order "
              "(so one row per key, keys first, and a custom function is called exactly once per group, in group order, with None "
              "included); the six built-ins as coded (left folds, first-minimum scans) are proved equal to the textbook sum, mean, "
              "min, max, count and sample variance of the non-None values, with all-None groups giving 0/0/None and stdev of <2 values "
              "None; the whole aggregate result is proved equal to that specification column by column; Vector reductions are proved "
              "equal to aggregating the column as one group when a non-None value exists; uniquify is proved to terminate within its "
              "fuel at the smallest free numeric suffix, and output names are proved pairwise distinct. Sampled only: that table.py "
              "behaves as the model (exhaustive small tables plus random ones, judged by the Lean driver against model and executable "
              "spec), float rounding of mean/stdev (1e-9 tolerance), PYTHONHASHSEED independence (thorough tier subprocess runs).")
LEVEL_NOTE = ("Trusted: Lean kernel, axioms propext/Classical.choice/Quot.sound only; the harness (interning of keys by Python ==/hash, "
              "exact fractions of float results), CPython dict insertion order, _sanitize_user_name as oracle for the name base, "
              "str(int) rendering of suffixes assumed injective. Value columns are ints/None; mean/variance are exact rationals in Lean "
              "and Python's floats are compared with 1e-9 relative tolerance; stdev is compared through its square. Columns are identified "
              "by position and name, so a change of the naming rule or of the sum,mean,min,max,count,stdev order is reported here as well as by C18.")
