"""C18 — names propagate by fixed rules: math drops them, structure keeps them (programs)."""
from props import exprcommon as X

PID = "C18"
RULE = ("the programs of C03 (same generator, evaluated stepwise on the real code); for every node the real result's .name / "
        ".column_names() must equal Serif.X.nameRule applied to the observed operand names and row counts "
        "(binary math/comparison -> None; unary, cast, fillna, copy, slicing, masking, sorting, in-place writes keep the name; "
        "table construction, >>, selection, row filters, sort, join keep source names in order; table-with-table arithmetic by "
        "_resolve_binary_name; aggregate/window = key names then <sanitised>_<fn>, uniquified). "
        "non-trivial = at least one non-leaf operation returned a vector or table")
ASSUMPTIONS = [
    "_sanitize_user_name (subject of C17) is used as the oracle for the sanitised part of aggregate names",
    "row counts of operands are taken from the evaluation (the rules for T and for empty joins depend on them)",
    "column names are strings or None",
    "a step the model refuses (e.g. >> of unequal lengths, which yields a nested non-Table vector) is not judged",
]
BUDGET_S = {"quick": 28, "thorough": 400}


def generate(rng, tier):
    return X.generate(rng, tier)


def execute(spec):
    return X.execute(spec, PID)


nontrivial = X.nontrivial
histogram = X.histogram
shrink = X.shrink
snippet = X.snippet
KNOWN = {}

LEVEL_TEXT = ("Proof: for the same Lean model of the public operations as C03, step_names proves that the names of the result of "
              "every operation equal nameRule(op, operand names, operand row counts) - a function that looks at nothing else - and "
              "names_eq_spec proves by structural induction that for EVERY program the names the model produces are those computed "
              "compositionally by specNames (the 'all compositions' quantifier). The statement's clauses are read off nameRule as "
              "theorems (math_drops_name, structure_keeps_name, table_arith_names with _resolve_binary_name, "
              "table_structure_names). For aggregate/window: agg_names_form (key names first, each output = candidate + nothing or "
              "a decimal suffix >= 2), agg_names_nodup (outputs pairwise distinct for every argument list), uniquify_terminates "
              "(the while loop ends within len(used)+1 iterations, result not in used). resolve_table_agrees ties "
              "_resolve_binary_name to the model on {None,'a','b'}^2 regenerated from the source. Sampled, not proved: that the "
              "model's name bookkeeping is the code's - every node of every generated program is executed on the real code and its "
              ".name / .column_names() compared with nameRule applied to the real operands' names.")
LEVEL_NOTE = ("Trusted: Lean kernel; axioms propext/Classical.choice/Quot.sound only (Std.Data.String.ToNat for Nat.repr "
              "injectivity); harness; extract_consts. Parameters: _sanitize_user_name (C17) supplies the sanitised part of "
              "aggregate names; row counts come from evaluation (T gives one unnamed column per row; joins with no result rows give "
              "a table without columns; a row filter of a zero-column table gives a plain empty vector). Rules the statement does "
              "not mention are taken from the code and listed in nameRule: unary operators, cast, fillna, to_object keep the name; "
              "dropna, isna, << and Row drop it; `t >> [values]` adds an unnamed column; aggregate key names are NOT sanitised. "
              "Not modelled: rename/alias/setattr histories (C17), table comparisons, >> of unequal lengths (nested vector).")
