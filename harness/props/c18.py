"""C18 — names propagate by fixed rules: math drops them, structure keeps them (programs)."""
from props import exprcommon as X

PID = "C18"
RULE = ("the programs of C03 (same generator, evaluated stepwise on the real code); for every node the real result's .name / "
        ".column_names() must equal Serif.X.nameRule applied to the observed operand names and row counts "
        "(binary math/comparison -> None; unary, cast, fillna, copy, slicing, masking, sorting, in-place writes keep the name; "
        "table construction, >>, selection, row filters, sort, join keep source names in order; table-with-table arithmetic by "
        "_resolve_binary_name; aggregate/window = key names then <sanitised>_<fn>, uniquified). "
        "Added by the gap analysis: forms / bigforms (scripted operand FORMS and object STATES over every leaf dtype: tuple operands, "
        "bool/int Vector and tuple keys, Vector / tuple / self values, the same object on both sides of <<, >>, v[v], t + t, joins, "
        "constructor routes, falsy / negative / bytes / timedelta scalars, declared-wider-than-contents operands, keys and aggregands "
        "given by name / accessor spelling / bare / tuple, vectors and columns renamed in place after use, table unary / << / == / "
        "copy / reductions / 2-D selection (no model rule: truthfulness in Lean, names judged in Python), vectors of 300 and 1100 "
        "elements with the deciding element last), treex / big (random programs over all of that). "
        "non-trivial = at least one non-leaf operation returned a vector or table")
ASSUMPTIONS = [
    "_sanitize_user_name (subject of C17) is used as the oracle for the sanitised part of aggregate names",
    "row counts of operands are taken from the evaluation (the rules for T and for empty joins depend on them)",
    "column names are strings or None",
    "a step the model refuses (e.g. >> of unequal lengths, which yields a nested non-Table vector) is not judged",
]
BUDGET_S = {"quick": 36, "thorough": 480}


NONSTR_SEQS = [["1", "1.0", "True"], ["1.0", "1", "True"], ["True", "1.0", "1"], ["2024", "2024.0"], ["2024.0", "2024"],
               ["(1, 2)", "(1.0, 2.0)"],
               # a non-string name next to the text it prints as: different names (1 != '1')
               ["1", "'1'"], ["2.5", "'2.5'"], ["True", "'True'"], ["2024", "'2024'", "2024.0"], ["(1, 2)", "'(1, 2)'"]]      # falsy names (0, False) are treated as "unnamed" by the library: not generated


def generate(rng, tier):
    # the `<sanitised column>_<function>` part of aggregate/window names for NON-STRING column names (Table({1: …})):
    # the sanitised form of a name is defined through str(name); hash-equal names of different types (1, 1.0, True) must not
    # be confused. Judged in Python (the Lean model has string names only): a direct oracle comparison, labelled as such.
    for seq in NONSTR_SEQS:
        yield {"fam": "nonstr-names", "names": seq}
    yield from X.generate(rng, tier)


def _nonstr(spec):
    import ast, warnings
    from serif import Table
    from serif.naming import _sanitize_user_name
    names = [ast.literal_eval(s) for s in spec["names"]]
    fails = []
    with warnings.catch_warnings():
        warnings.simplefilter("ignore")
        for nm in names:
            t = Table({"k": [1, 1, 2], nm: [1, 2, 3]})
            try:
                got = t.aggregate(over="k", sum_over=t.cols()[1]).column_names()[1:]
            except Exception as e:
                fails.append(f"aggregate over a column named {nm!r} raised {type(e).__name__}")
                continue
            want = (_sanitize_user_name(str(nm)) or "col") + "_sum"
            if got != [want]:
                fails.append(f"column named {nm!r}: aggregate output {got}, expected ['{want}'] (sanitised str({nm!r}) + '_sum')")
        # table-with-table arithmetic keeps a left name only when the right name is absent or EQUAL (Python's ==): names that merely
        # print alike are different names
        for a in names:
            for b in names + [None]:
                try:
                    L, R = Table({a: [1, 2]}), (Table({b: [3, 4]}) if b is not None else Table([__import__("serif").Vector([3, 4])]))
                    got = (L + R).column_names()
                except Exception as e:
                    fails.append(f"Table({{{a!r}: …}}) + Table({{{b!r}: …}}) raised {type(e).__name__}")
                    continue
                want = [a] if (b is None or a == b) else [None]
                if got != want or (got[0] is not None and type(got[0]) is not type(a)):
                    fails.append(f"Table({{{a!r}: …}}) + Table({{{b!r}: …}}) is named {got}, the rule gives {want}")
    w = {"fam": "nonstr-names", "case": {"names": spec["names"]}, "impl": {"checked": len(names)}}
    if fails:
        w["py_fail"] = "; ".join(fails)
    else:
        w["skip"] = "consistent (judged in Python)"
    return w


def execute(spec):
    if spec.get("fam") == "nonstr-names":
        return _nonstr(spec)
    return X.execute(spec, PID)


def nontrivial(spec, wire):
    return True if spec.get("fam") == "nonstr-names" else X.nontrivial(spec, wire)


def histogram(spec, wire):
    return ["nonstr-names"] if spec.get("fam") == "nonstr-names" else X.histogram(spec, wire)


def shrink(spec):
    if spec.get("fam") == "nonstr-names":
        return iter(())
    return X.shrink(spec)


def snippet(spec):
    if spec.get("fam") == "nonstr-names":
        return "\n".join(f"Table({{'k': [1, 1, 2], {n}: [1, 2, 3]}}).aggregate(over='k', sum_over=...)  # names" for n in spec["names"])
    return X.snippet(spec)
KNOWN = {}

LEVEL_TEXT = ("Proof: for the same Lean model of the public operations as C03, step_names proves that the names of the result of "
              "every operation equal nameRule(op, operand names, operand row counts) - a function that looks at nothing else - and "
              "names_eq_spec proves by structural induction that for EVERY program the names the model produces are those computed "
              "compositionally by specNames (the 'all compositions' quantifier). The statement's clauses are read off nameRule as "
              "theorems (math_drops_name, structure_keeps_name, table_arith_names with _resolve_binary_name, "
              "table_structure_names). For aggregate/window: agg_names_form (key names first, each output = candidate + nothing or "
              "a decimal suffix >= 2), agg_names_nodup (outputs pairwise distinct for every argument list), uniquify_terminates "
              "(the while loop ends within len(used)+1 iterations, result not in used). resolve_table_agrees ties "
              "_resolve_binary_name to the model on {None,'a','b'}^2 regenerated from the source. Sampled, not proved: that the "
              "model's name bookkeeping is the code's - every node of every generated program is executed on the real code and its "
              ".name / .column_names() compared with nameRule applied to the real operands' names.")
LEVEL_NOTE = ("Trusted: Lean kernel; axioms propext/Classical.choice/Quot.sound only (Std.Data.String.ToNat for Nat.repr "
              "injectivity); harness; extract_consts. Parameters: _sanitize_user_name (C17) supplies the sanitised part of "
              "aggregate names; row counts come from evaluation (T gives one unnamed column per row; joins with no result rows give "
              "a table without columns; a row filter of a zero-column table gives a plain empty vector). Rules the statement does "
              "not mention are taken from the code and listed in nameRule: unary operators, cast, fillna, to_object keep the name; "
              "dropna, isna, << and Row drop it; `t >> [values]` adds an unnamed column; aggregate key names are NOT sanitised. "
              "Not modelled: rename/alias/setattr histories (C17), table comparisons, >> of unequal lengths (nested vector).")
