"""C02 — tables stay rectangular; row views agree with column views."""
import warnings
from props import histcommon as H
from props.c01 import DERIVE

PID = "C02"
RULE = ("the C01 histories (all constructors, >>, <<, selections, joins, sorts, transposes, cell/row/column/region/attribute "
        "assignment, renames — including failing operations and a malformed stream: ragged lists/dicts, wrong-length attribute "
        "assignment, wrong-width <<, wrong-length >> dict) with deep observation: after EVERY step every live table is "
        "checked: all columns have length len(t); shape == (rows, columns); [tuple(t[i]) for i in range(len(t))] and "
        "[tuple(r) for r in t] equal the rows computed from the columns; results of >>, <<, row slices/masks and T equal the "
        "Lean table functions applied to the operands as observed before the step; T.T gives back the cells. "
        "non-trivial = at least one table with ≥1 row and ≥2 columns is observed and at least one structural or in-place step ran")
ASSUMPTIONS = ["t >> Vector(wrong length) yields a nested non-Table vector (with a warning): not a Table, outside the invariant",
               "cells are small scalars; nested tables are not generated"]
BUDGET_S = {"quick": 30, "thorough": 420}
LEVEL_TEXT = ("Proof at the level of pure tables (Lean, Model/Tab.lean — the functions the driver executes): rows by index/iteration "
              "equal the i-th values of the columns in column order, with exactly len(t) rows of table width (shape, "
              "row_index_eq_columns, iter_eq_index); >> leaves existing columns untouched and keeps rectangularity (stack_*); << appends "
              "to every column (append_rows_every_column, append_row_every_column); row selections are uniform over columns "
              "(rowsel_uniform); transposing twice is the identity on columns and cells, 0-row/0-column cases included "
              "(transpose_transpose, transpose_rect); for all cell types and shapes. Tied to the code by trace validation over random "
              "histories (failing operations and ragged inputs included): every observed table must be rectangular with matching "
              "row/column views after every step, and structural results must equal the Lean functions.")
LEVEL_NOTE = ("Trusted: Lean kernel + standard axioms; harness observation code; CPython's range(n)[slice] as the oracle for the "
              "positions a slice selects. That in-place writes never change a column's length is proved for the assignment model in "
              "C08 and observed here after every step; rectangularity of join/sort/aggregate results is observed, their cell "
              "content is C09–C14's business.")

STRUCT = {"stack", "stackdict", "stackdictv", "append", "appendt", "slice", "mask", "T"}


def generate(rng, tier):
    n = 6000 if tier == "quick" else 24000
    for i in range(n):
        yield {"fam": "history", "seed": rng.randrange(1 << 30), "nsteps": 12 if tier == "quick" or i % 3 else 36}


def execute(spec):
    import serif
    w = H.World()
    steps, recs = _run(spec, w)
    big, structural = False, 0
    wsteps = []
    for r in recs:
        for o in r["obs"]:
            if o and o["k"] == "t" and o["len"] >= 1 and len(o["cols"]) >= 2:
                big = True
        if r["st"]["op"] in STRUCT or r["st"]["op"] in ("write", "tabwrite", "setattr"):
            structural += 1
        wsteps.append({"desc": r["desc"], "obs": r["obs"]})
    out = {"fam": spec["fam"], "case": {"steps": wsteps}, "impl": {"steps": len(steps), "big": big, "structural": structural}}
    for r in recs:
        c = H.crash_of(r["st"], r["desc"].get("res"))
        if c:
            out["py_fail"] = c
            break
    return out


def _run(spec, w):
    """like histcommon.run_history, with the extra observations C02 needs (selected positions, T.T, value uids)"""
    import random, gc, serif
    rng = random.Random(spec.get("seed", 0))
    steps, recs = [], []
    given = spec.get("steps")
    n = len(given) if given is not None else spec.get("nsteps", 10)
    with warnings.catch_warnings():
        warnings.simplefilter("ignore")
        for i in range(n):
            if given is not None:
                st = given[i]
                if not H.applicable(w, st):
                    continue
            else:
                st = H.choose_step(rng, w, None, steps[-1] if steps else None)
            desc = dict(st)
            op = st["op"]
            # oracles computed BEFORE the step
            if op in ("slice", "mask") and w.kinds()[st["src"]] == "t":
                nrows = len(w.slots[st["src"]])
                if op == "slice":
                    desc["idxs"] = list(range(nrows))[H.mk_key(st["key"])]
                else:
                    # list / Vector of booleans or of positions, or a live vector as the key: the rows it selects
                    _key, idxs = H.sel_key(w, st)
                    del _key
                    if idxs is None:
                        desc["unmodelled"] = True      # not a valid selection (must be refused, or gives no table)
                    else:
                        desc["idxs"] = idxs
            elif op in ("slice", "mask"):
                desc["unmodelled"] = True      # vector selection is C07's business
            if op in ("append", "stackdict"):
                desc["vals_uid"] = [w.intern.uid(x) for x in H.dvs(st["vals"])]
            if op == "stack" and w.kinds()[st["b"]] == "v" and len(w.slots[st["b"]]) != len(w.slots[st["a"]]):
                desc["unmodelled"] = True      # nested non-Table result (boundary)
            if op == "stackvt":
                desc["unmodelled"] = True      # cells judged by C01 (derive); here only: no crash, every table stays rectangular
            src_is_table = w.kinds()[st.get("src", st.get("a", 0))] == "t" if isinstance(st.get("src", st.get("a")), int) else False
            res, extra = H.run_step(w, st)
            if res == "ok":
                note = H.valid_result(w, st)
                if note or (isinstance(st.get("dst"), int) and op in STRUCT and w.slots[st["dst"]] is None):
                    desc["unmodelled"] = True      # e.g. t[[]] on a 0-row table returns None
                if op == "T" and w.slots[st["dst"]] is not None:
                    try:
                        tt = w.slots[st["dst"]].T
                        keep, w.slots[st["dst"]] = w.slots[st["dst"]], tt
                        desc["TT"] = w.obs(st["dst"])
                        w.slots[st["dst"]] = keep
                        del tt, keep
                    except Exception as e:
                        desc["TT"] = None
                if op in ("append", "appendt", "stack", "stackdict", "slice", "mask") and "unmodelled" not in desc \
                        and src_is_table and not isinstance(w.slots[st["dst"]], serif.Table):
                    # a zero-column table has no cells; selecting from it gives an empty plain vector
                    desc["unmodelled"] = True
                if False:
                    desc["unmodelled"] = True
            desc["res"] = res
            steps.append(st)
            recs.append({"st": st, "desc": desc, "res": res, "obs": w.observe_all(True)})
    w.slots = [None] * H.NSLOTS
    gc.collect()
    return steps, recs


def nontrivial(spec, wire):
    return wire["impl"]["big"] and wire["impl"]["structural"] >= 1


def histogram(spec, wire):
    out = []
    for s in wire["case"]["steps"]:
        out.append("op:" + s["desc"]["op"])
        if s["desc"]["res"] != "ok":
            out.append("res:" + s["desc"]["res"])
        for o in s["obs"]:
            if o and o["k"] == "t":
                out.append("table:%dx%d" % (min(o["len"], 4), min(len(o["cols"]), 4)))
    return out


def shrink(spec):
    if "steps" not in spec:
        w = H.World()
        steps, _ = _run(spec, w)
        yield {"fam": spec["fam"], "steps": steps}
        return
    st = spec["steps"]
    for i in range(len(st) - 1, -1, -1):
        yield dict(spec, steps=st[:i] + st[i + 1:])


def snippet(spec):
    return H.snippet_history(spec)
