"""C05 — elementwise operations equal the Python scalar operation, shape preserved."""
import itertools, datetime, operator
from values import Interner, dtype_wire, err_class
import vecgen as G
from vecgen import POOLS, TYPES, BINOPS, UNOPS, SYMBOL, val, vals
# C05 also runs every operator form over elements whose operators are not commutative (the written operand order shows)
POOLS = dict(POOLS, nc=G.EXTRA["nc"], tmpl=G.EXTRA["tmpl"], targ=G.EXTRA["targ"],
             mix=G.EXTRA["mix"], big=G.EXTRA["big"], bytes=G.EXTRA["bytes"])
TYPES = TYPES + ["nc"]
import math

PID = "C05"
RULE = ("bin: 7 operators x 5 operand forms (vector, list, scalar, reflected scalar, reflected list) x 49 dtype pairs over "
        "{bool,int,float,complex,str,date,timedelta}: length 1 exhaustively over the value pools (None included), length 0 "
        "(typed/untyped empties), length 2 with every None pattern on both sides, length 5 (thorough: also 3 and 4) with "
        "sampled patterns, v op v, and every combination of unequal lengths from {0,1,2,5}; unary -,+,abs likewise; long: every operator x "
        "form x 12 dtype pairs on operands of 256-1200 elements (signed zeros many times over); "
        "bcast: every public method/property of str,int,float,date,bool,complex found by dir() that is not an attribute of "
        "Vector itself, with small argument pools (positional and keyword), on vectors of length 0,1,3 (all None patterns) and "
        "1200; table: table op scalar, scalar op table (reflected), -t/+t/abs(t), table op table over 7 operators with 0-3 columns, 0-3 rows, width and row mismatches. "
        "gaps (builder gA): the operand's state - table column (neighbouring column as other operand, t.a op t.a), slice, vector "
        "fingerprinted and used before in-place writes (incl. only-hash-equal edits 0.0/-0.0) - for bin/unary/bcast; element features - "
        "equal numbers of different types in one <float> vector, ints beyond 2**53/2**63, bytes, range operands, unequal lengths up to "
        "1200; bcast also over timedelta/datetime/bytes and every keyword argument; tables with permuted/missing/repeated column names, "
        "t op t, up to 1100 rows / 14 columns, a list/tuple/vector with one element per row. "
        "Oracle per element = Python's own scalar result on the operands in the written order, compared by (type, repr), NaN-safe. "
        "non-trivial = at least one pair of non-None operands is evaluated (or the lengths differ) and the case is not skipped")
ASSUMPTIONS = [
    "the mixed-type fallback of _elementwise_operation (tuples of operands when Python raises TypeError) is outside the "
    "property: such cases are answered 'skip' by the driver",
    "where Python raises (non-TypeError) for some pair of elements the property says nothing about the call: raising is "
    "accepted, and a returned vector is only required to be right at the positions Python defines",
    "scalar None as operand, '%s' % vector, reflected arithmetic with a Table on the right, unary minus on a table are not generated",
    "scalar results are compared by (type, repr) (NaN-safe); results whose repr contains an address are skipped",
    "methods that return None or give different results on two consecutive calls (date.today) are skipped",
]
BUDGET_S = {"quick": 30, "thorough": 400}

FORMS = [("vec", False), ("seq", False), ("scalar", False), ("scalar", True), ("seq", True)]
MISMATCH = [(0, 1), (1, 0), (1, 2), (2, 1), (2, 5), (5, 2), (5, 1), (1, 5), (0, 2), (2, 0), (5, 4)]
MISMATCH_PAIRS = [("int", "int"), ("float", "int"), ("str", "str"), ("date", "td"), ("str", "int"), ("date", "int"),
                  ("bool", "complex")]

# ------------------------------------------------------------------------------------------------
# broadcast methods / properties
# ------------------------------------------------------------------------------------------------
BCAST_TYPES = ["str", "int", "float", "date", "bool", "complex", "td", "dtm", "bytes"]
BCAST_PY = dict(G.PYTYPE, dtm=datetime.datetime, bytes=bytes)
BCAST_POOLS = {
    # incl. strings on which closely related predicates differ ('²' isdigit but not isdecimal, '½' isnumeric only,
    # 'ǅ' istitle, 'ß'.upper() == 'SS', Arabic-Indic digits are decimal)
    "str": ["ab c", "", "Hello, World", "a,b,,c", "  x\t", "123", "é%s{0}", "²³", "½", "٣٤", "ǅ", "ß", "①"],
    "int": [3, 0, -2, 255, 10 ** 20],
    # 0.0 / -0.0 (and the complex signed zeros) are equal and hash-equal but not interchangeable: a broadcast that
    # memoises per *value* instead of computing per *element* is visible only with both in one vector
    "float": [1.5, 0.0, -2.5, 4.0, float("inf"), float("nan"), -0.0],
    "date": [datetime.date(2020, 1, 31), datetime.date(1999, 12, 31), datetime.date(2024, 2, 29)],
    "bool": [True, False],
    "complex": [1 + 2j, 0j, complex(-0.0, 0.0), complex(0.0, -0.0)],
    # gap analysis: the other element types with methods / properties of their own (timedelta.days, datetime.hour, bytes.hex)
    "td": [datetime.timedelta(1, 5), datetime.timedelta(days=-400, seconds=5), datetime.timedelta(0), datetime.timedelta(microseconds=7)],
    "dtm": G.EXTRA["dtm"],
    "bytes": [b"ab c", b"", b"a,b,,c", b"\xff\x00", b"123"],
}
GENERIC_ARGS = [((), {}), (("a",), {}), ((",",), {}), (("a", "X"), {}), ((1,), {}), ((3,), {}), ((8, "*"), {}),
                ((2, "big"), {}), ((2000, 2, 28), {}), ((2,), {}), (("%Y/%m/%d",), {}), (("2021-03-04",), {}),
                ((730000,), {}), ((86400.0,), {}), ((2020, 5, 3), {}), (("0x1.8p1",), {}), ((b"ab", "big"), {}),
                ((b"a",), {}), ((b",",), {}), ((b"a", b"X"), {}), ((8, b"*"), {}), (("utf-8",), {})]
NAMED_ARGS = {
    "split": [((), {}), ((",",), {}), ((",", 1), {}), ((), {"sep": ",", "maxsplit": 1})],
    "rsplit": [((",", 1), {}), ((), {"sep": ","})],
    "splitlines": [((), {}), ((), {"keepends": True})],
    "encode": [((), {}), (("utf-8",), {}), ((), {"encoding": "ascii", "errors": "replace"})],
    "replace": [(("a", "X"), {}), (("a", "X", 1), {}), ((), {"year": 2001}), ((), {"month": 2, "day": 1})],
    "format": [((), {}), (("Z",), {}), ((), {"k": 1})],
    "format_map": [(({"k": 1},), {})],
    "join": [((["1", "2", "3"],), {}), (("xyz",), {})],
    "translate": [(({97: "A", 98: None},), {})],
    "maketrans": [(("ab", "xy"), {}), (({"a": "b"},), {})],
    "center": [((8,), {}), ((8, "*"), {})], "ljust": [((6, "."), {})], "rjust": [((6,), {})],
    "zfill": [((6,), {})], "expandtabs": [((), {}), ((4,), {})],
    "count": [(("a",), {}), ((",", 1), {})], "find": [(("b",), {}), (("b", 2), {})], "rfind": [((",",), {})],
    "index": [(("b",), {})], "rindex": [((",",), {})],
    "startswith": [(("a",), {}), ((("a", "H"),), {})], "endswith": [(("c",), {})],
    "strip": [((), {}), (("a ",), {})], "lstrip": [((), {})], "rstrip": [((), {}), (("c",), {})],
    "removeprefix": [(("ab",), {})], "removesuffix": [(("c",), {})],
    "partition": [((",",), {})], "rpartition": [((",",), {})],
    "before": [((",",), {})], "after": [((",",), {})], "before_last": [((",",), {})], "after_last": [((",",), {})],
    "to_bytes": [((16, "big"), {}), ((), {"length": 16, "byteorder": "little", "signed": True})],
    "from_bytes": [((b"\x01\x02", "big"), {})],
    "strftime": [(("%Y/%m/%d",), {}), (("%a %j",), {})],
    "fromisoformat": [(("2021-03-04",), {})], "fromordinal": [((730000,), {})], "fromtimestamp": [((86400.0,), {})],
    "fromisocalendar": [((2020, 5, 3), {})], "fromhex": [(("0x1.8p1",), {})],
    "isoformat": [((), {}), ((" ",), {}), ((), {"sep": " ", "timespec": "minutes"})],
    # gap analysis: every keyword a wrapper has to pass on (a wrapper that drops **kwargs still answers, with the default)
    "expandtabs_": [((), {"tabsize": 4})], "strftime_": [((), {"format": "%d.%m.%Y"})],
    "fromisocalendar_": [((), {"year": 2020, "week": 5, "day": 3})], "count_": [(("a", 1, 3), {})],
    "find_": [(("b", 1, 3), {})], "startswith_": [(("b", 1), {})], "endswith_": [(("b", 0, 2), {})],
    "rsplit_": [((), {"sep": ",", "maxsplit": 1}), ((None, 1), {})], "split_": [((None, 1), {})],
    "encode_": [(("ascii", "ignore"), {})], "lstrip_": [((" a",), {})], "zfill_": [((2,), {})],
    "rjust_": [((6, "."), {})], "ljust_": [((6,), {})], "rfind_": [((",", 0, 2), {})], "index_": [(("b", 1), {})],
    "hex_": [((":",), {}), ((), {"sep": ":", "bytes_per_sep": 2})], "decode_": [((), {"encoding": "ascii", "errors": "replace"})],
}
for _k in [k for k in NAMED_ARGS if k.endswith("_")]:
    NAMED_ARGS[_k[:-1]] = NAMED_ARGS.get(_k[:-1], [((), {}), (("utf-8",), {})] if _k[:-1] in ("hex", "decode") else []) + NAMED_ARGS.pop(_k)
# methods whose answer depends on the machine's time zone / clock rather than on the element alone
BCAST_SKIP = {"astimezone", "timestamp", "now", "utcnow", "today"}
_BCAST = None


def _dir_names(t):
    from serif import Vector
    base = set(dir(Vector))
    return [n for n in dir(BCAST_PY[t]) if not n.startswith("_") and n not in base]


def bcast_table():
    """list of (type, name, is_method, args, kwargs) for which Python defines the call on some pool element"""
    global _BCAST
    if _BCAST is not None:
        return _BCAST
    out = []
    for t in BCAST_TYPES:
        cls = BCAST_PY[t]
        names = [n for n in _dir_names(t) if n not in BCAST_SKIP or t not in ("dtm",)]
        if t == "str":
            names += ["before", "after", "before_last", "after_last"]   # serif's own per-element string helpers
        for name in names:
            if name in ("before", "after", "before_last", "after_last"):
                for a, k in NAMED_ARGS[name]:
                    out.append((t, name, True, a, k))
                continue
            attr = getattr(cls, name)
            if not callable(attr):
                out.append((t, name, False, (), {}))
                continue
            cands = NAMED_ARGS.get(name, GENERIC_ARGS)
            kept = 0
            for a, k in cands:
                good = False
                for e in BCAST_POOLS[t]:
                    try:
                        getattr(e, name)(*a, **k)
                        good = True
                        break
                    except Exception:
                        pass
                if good:
                    out.append((t, name, True, a, k))
                    kept += 1
                    if kept >= (4 if name not in NAMED_ARGS else 7):
                        break
    _BCAST = out
    return out


def _scalar_call(e, name, is_method, a, k):
    if name == "before":
        return e.partition(*a)[0]
    if name == "after":
        return e.partition(*a)[2]
    if name == "before_last":
        return e.rpartition(*a)[0]
    if name == "after_last":
        return e.rpartition(*a)[2]
    if is_method:
        return getattr(e, name)(*a, **k)
    return getattr(e, name)


# ------------------------------------------------------------------------------------------------
# generation
# ------------------------------------------------------------------------------------------------
def _bin(op, form, refl, xt, yt, x, y=None, s=None, **kw):
    d = {"fam": "bin", "op": op, "form": form, "refl": refl, "xt": xt, "yt": yt, "x": list(x)}
    if form == "scalar":
        d["s"] = s
    else:
        d["y"] = list(y)
    d.update(kw)
    return d


def excluded(op, form, refl, yt):
    # 'fmt' % vector is plain string formatting (the left scalar's own method succeeds) - not a vector operation
    return refl and form == "scalar" and op == "mod" and yt in ("str", "targ", "bytes")


def gen_bin(rng, tier):
    thorough = tier == "thorough"
    for op in BINOPS:
        for xt in TYPES:
            for yt in TYPES:
                for form, refl in FORMS:
                    if excluded(op, form, refl, yt):
                        continue
                    nx, ny = len(POOLS[xt]), len(POOLS[yt])
                    # length 1: exhaustive over both pools, None included
                    for xi in [None] + list(range(nx)):
                        if form == "scalar":
                            for si in range(ny):
                                yield _bin(op, form, refl, xt, yt, [xi], s=si)
                        else:
                            for yi in [None] + list(range(ny)):
                                yield _bin(op, form, refl, xt, yt, [xi], [yi])
                    # length 0: typed / untyped empties
                    for xtyped in (False, True):
                        if form == "scalar":
                            yield _bin(op, form, refl, xt, yt, [], s=rng.randrange(ny), xtyped=xtyped)
                        else:
                            for ytyped in ((False, True) if form == "vec" else (False,)):
                                yield _bin(op, form, refl, xt, yt, [], [], xtyped=xtyped, ytyped=ytyped)
                    # length 2 (thorough: 3): every None pattern on both sides
                    for n in ((2, 3) if thorough else (2,)):
                        for px in G.none_patterns(n):
                            if form == "scalar":
                                yield _bin(op, form, refl, xt, yt, G.fill(rng, xt, px), s=rng.randrange(ny))
                            else:
                                pys = G.none_patterns(n) if n == 2 else rng.sample(G.none_patterns(n), 3)
                                for py in pys:
                                    yield _bin(op, form, refl, xt, yt, G.fill(rng, xt, px), G.fill(rng, yt, py),
                                               xtyped=rng.random() < 0.3)
                    # length 5 (thorough: also 4, 17): sampled patterns
                    for n in ((4, 5, 17) if thorough else (5,)):
                        for _ in range(3):
                            px = [rng.random() < 0.3 for _ in range(n)]
                            py = [rng.random() < 0.3 for _ in range(n)]
                            if form == "scalar":
                                yield _bin(op, form, refl, xt, yt, G.fill(rng, xt, px), s=rng.randrange(ny))
                            else:
                                yield _bin(op, form, refl, xt, yt, G.fill(rng, xt, px), G.fill(rng, yt, py))
                # v op v (the same object on both sides)
                if xt == yt:
                    for n in (0, 1, 3):
                        px = [rng.random() < 0.3 for _ in range(n)]
                        yield _bin(op, "vec", False, xt, xt, G.fill(rng, xt, px), [], same=True)
        # unequal lengths: every operand form that has a length
        for xt, yt in (MISMATCH_PAIRS if not thorough else [(a, b) for a in TYPES for b in TYPES]):
            for form, refl in FORMS:
                if form == "scalar":
                    continue
                for n, m in MISMATCH:
                    px = [rng.random() < 0.2 for _ in range(n)]
                    py = [rng.random() < 0.2 for _ in range(m)]
                    yield _bin(op, form, refl, xt, yt, G.fill(rng, xt, px), G.fill(rng, yt, py),
                               xtyped=True, ytyped=True)


def gen_unary(rng, tier):
    for op in UNOPS:
        for xt in TYPES:
            nx = len(POOLS[xt])
            for xi in [None] + list(range(nx)):
                yield {"fam": "unary", "op": op, "xt": xt, "x": [xi]}
            yield {"fam": "unary", "op": op, "xt": xt, "x": [], "xtyped": False}
            yield {"fam": "unary", "op": op, "xt": xt, "x": [], "xtyped": True}
            for n in ((2, 3, 4) if tier == "thorough" else (2, 3)):
                for px in G.none_patterns(n):
                    yield {"fam": "unary", "op": op, "xt": xt, "x": G.fill(rng, xt, px)}
            for n in (5, 40):
                for _ in range(3):
                    yield {"fam": "unary", "op": op, "xt": xt, "x": G.fill(rng, xt, [rng.random() < 0.3 for _ in range(n)])}


def gen_bcast(rng, tier):
    tab = bcast_table()
    for bi, (t, name, is_method, a, k) in enumerate(tab):
        np_ = len(BCAST_POOLS[t])
        yield {"fam": "bcast", "b": bi, "x": []}
        for xi in [None] + list(range(np_)):
            yield {"fam": "bcast", "b": bi, "x": [xi]}
        for px in G.none_patterns(3):
            yield {"fam": "bcast", "b": bi, "x": [None if p else rng.randrange(np_) for p in px]}
            if is_method:
                yield {"fam": "bcast", "b": bi, "x": [None if p else rng.randrange(np_) for p in px], "held": 1 + (len(px) + bi) % 2}
        # every ordered pair of distinct pool elements side by side (equal-but-distinguishable values included)
        for i in range(np_):
            for j in range(np_):
                if i != j and (tier == "thorough" or BCAST_POOLS[t][i] == BCAST_POOLS[t][j]):
                    yield {"fam": "bcast", "b": bi, "x": [i, j]}
        for _ in range(1 if tier == "quick" else 4):
            yield {"fam": "bcast", "b": bi, "x": [None if rng.random() < 0.1 else rng.randrange(np_) for _ in range(1200)]}
        if tier == "thorough":
            for n in (2, 7, 64):
                yield {"fam": "bcast", "b": bi, "x": [None if rng.random() < 0.3 else rng.randrange(np_) for _ in range(n)]}


def gen_table(rng, tier):
    # scripted: the table forms that go through a column class's own operator (a date column + days: int scalar, bool scalar, int
    # column, with None on either side), direct and with the table on the right, next to numeric and str columns
    for cols in ([{"t": "date", "x": [0, 1]}], [{"t": "int", "x": [1, 2]}, {"t": "date", "x": [1, None]}],
                 [{"t": "date", "x": [None, 2]}, {"t": "date", "x": [0, 1]}, {"t": "float", "x": [0, 1]}]):
        for op in ("add", "sub", "mul"):
            for si in (0, 1, 2):
                for st in ("int", "td"):
                    base = {"fam": "table", "op": op, "cols": cols, "form": "scalar", "st": st, "s": si}
                    yield dict(base)
                    yield dict(base, refl=True)
            for t2 in ("int", "td", "date"):
                yield {"fam": "table", "op": op, "cols": cols, "form": "table",
                       "cols2": [{"t": t2, "x": [1, None] if j % 2 else [2, 1]} for j in range(len(cols))]}
    for cols in ([{"t": "bool", "x": [0, 1, 0]}, {"t": "int", "x": [1, 2, 0]}], [{"t": "bool", "x": [0, 1]}, {"t": "bool", "x": [1, 1]}],
                 [{"t": "int", "x": [0, 1, 2]}], []):
        for un in list(UNOPS) + ["inv"]:
            yield {"fam": "table", "op": "add", "cols": cols, "form": "scalar", "st": "int", "s": 0, "unary": un}
    count = 1500 if tier == "quick" else 20000
    for i in range(count):
        op = rng.choice(list(BINOPS))
        ncols = rng.choice([0, 1, 1, 2, 2, 3])
        nrows = rng.choice([0, 1, 2, 2, 3])
        fam_types = rng.choice([["int", "float", "bool"], ["int", "float", "bool", "complex"], ["str", "int"],
                                ["date", "td", "int"], TYPES])
        cols = []
        for _ in range(ncols):
            t = rng.choice(fam_types)
            cols.append({"t": t, "x": G.fill(rng, t, [rng.random() < 0.25 for _ in range(nrows)])})
        spec = {"fam": "table", "op": op, "cols": cols}
        if rng.random() < 0.45:
            t = rng.choice(fam_types)
            spec["form"] = "scalar"
            spec["st"] = t
            spec["s"] = rng.randrange(len(POOLS[t]))
            r = rng.random()
            if r < 0.4:
                spec["refl"] = True          # scalar on the left: the same operation column by column, operands swapped
            elif r < 0.55:
                spec["unary"] = rng.choice(list(UNOPS) + ["inv"])      # -t, +t, abs(t), ~t: the unary operation column by column
        else:
            spec["form"] = "table"
            r = rng.random()
            n2 = ncols if r < 0.8 else max(0, ncols + rng.choice([-1, 1]))
            rows2 = nrows if rng.random() < 0.85 else max(0, nrows + rng.choice([-1, 1, 2]))
            cols2 = []
            for j in range(n2):
                t = rng.choice(fam_types) if rng.random() < 0.5 or j >= ncols else cols[j]["t"]
                cols2.append({"t": t, "x": G.fill(rng, t, [rng.random() < 0.25 for _ in range(rows2)])})
            spec["cols2"] = cols2
        yield spec


def gen_random(rng, tier):
    """random structured cases over every dimension at once (lengths 0..12, occasionally unequal)"""
    ops = list(BINOPS)
    for _ in range(8000 if tier == "quick" else 500000):
        op = rng.choice(ops)
        xt, yt = rng.choice(TYPES), rng.choice(TYPES)
        if rng.random() < 0.5:      # bias towards pairs for which Python defines something
            yt = rng.choice({"bool": ["int", "float"], "int": ["int", "float", "complex", "bool"], "float": ["float", "int"],
                             "complex": ["complex", "float"], "str": ["str", "int"], "date": ["td", "int", "date"],
                             "td": ["td", "int", "float", "date"], "nc": ["int", "nc", "str"]}[xt])
        form, refl = rng.choice(FORMS)
        if excluded(op, form, refl, yt):
            continue
        n = rng.choice([0, 1, 2, 3, 3, 4, 5, 6, 8, 12])
        px = [rng.random() < 0.25 for _ in range(n)]
        if form == "scalar":
            yield _bin(op, form, refl, xt, yt, G.fill(rng, xt, px), s=rng.randrange(len(POOLS[yt])),
                       xtyped=rng.random() < 0.3)
        else:
            m = n if rng.random() < 0.93 else max(0, n + rng.choice([-2, -1, 1, 2]))
            yield _bin(op, form, refl, xt, yt, G.fill(rng, xt, px), G.fill(rng, yt, [rng.random() < 0.25 for _ in range(m)]),
                       xtyped=rng.random() < 0.3, ytyped=rng.random() < 0.3,
                       seqkind=rng.choice(["list", "list", "tuple"]))


def gen_templates(rng, tier):
    """`%` on vectors of printf templates: template i is applied to operand i (a tuple operand is a sequence like a list: one
    argument per template, never the whole tuple for each; another length is an error), for every operand form"""
    for n in (1, 2, 3):
        for px in G.none_patterns(n):
            for py in G.none_patterns(n):
                for seqkind in ("tuple", "list"):
                    yield _bin("mod", "seq", False, "tmpl", "targ", G.fill(rng, "tmpl", px), G.fill(rng, "targ", py), seqkind=seqkind)
                yield _bin("mod", "vec", False, "tmpl", "targ", G.fill(rng, "tmpl", px), G.fill(rng, "targ", py))
        for m in (0, 1, 2, 3, 4):
            if m != n:
                for seqkind in ("tuple", "list"):
                    yield _bin("mod", "seq", False, "tmpl", "targ", G.fill(rng, "tmpl", [False] * n), G.fill(rng, "targ", [False] * m), seqkind=seqkind)
        for si in range(len(POOLS["targ"])):
            if not isinstance(POOLS["targ"][si], tuple):      # a tuple operand is a sequence, not a scalar
                yield _bin("mod", "scalar", False, "tmpl", "targ", G.fill(rng, "tmpl", [False] * n), s=si)
        for yt in ("str", "int"):
            for seqkind in ("tuple", "list"):
                yield _bin("mod", "seq", False, "tmpl", yt, G.fill(rng, "tmpl", [False] * n), G.fill(rng, yt, [False] * n), seqkind=seqkind)


def gen_long(rng, tier):
    """the same rule at every data size: long operands (a per-value memo, a chunked loop or a size-triggered fast path would
    show here); the float / complex pools hold equal-but-distinguishable twins (0.0 / -0.0) that then occur many times"""
    pairs = [("float", "float"), ("float", "int"), ("int", "float"), ("int", "int"), ("complex", "float"), ("bool", "int"),
             ("str", "str"), ("str", "int"), ("date", "td"), ("date", "int"), ("td", "float"), ("nc", "nc")]
    for rep in range(1 if tier == "quick" else 6):
        for op in BINOPS:
            for form, refl in FORMS:
                for xt, yt in pairs:
                    if excluded(op, form, refl, yt):
                        continue
                    n = rng.choice([256, 257, 300, 520, 1200])
                    px = [rng.random() < 0.1 for _ in range(n)]
                    if form == "scalar":
                        yield _bin(op, form, refl, xt, yt, G.fill(rng, xt, px), s=rng.randrange(len(POOLS[yt])))
                    else:
                        yield _bin(op, form, refl, xt, yt, G.fill(rng, xt, px), G.fill(rng, yt, [rng.random() < 0.1 for _ in range(n)]),
                                   seqkind=rng.choice(["list", "tuple"]))
    for rep in range(1 if tier == "quick" else 6):
        for op in UNOPS:
            for xt in ("float", "int", "complex", "bool", "td"):
                n = rng.choice([256, 300, 1200])
                yield {"fam": "unary", "op": op, "xt": xt, "x": G.fill(rng, xt, [rng.random() < 0.1 for _ in range(n)])}


# ------------------------------------------------------------------------------------------------
# gap analysis (builder gA): features and states the families above never produce
# ------------------------------------------------------------------------------------------------
VIAS = ("col", "slice", "warm")
STATE_PAIRS = [("int", "int"), ("float", "float"), ("float", "int"), ("int", "float"), ("str", "str"), ("str", "int"),
               ("date", "int"), ("date", "td"), ("bool", "int"), ("complex", "float"), ("td", "td"), ("nc", "nc")]
NEW_PAIRS = [("mix", "int"), ("mix", "mix"), ("int", "mix"), ("mix", "float"), ("mix", "bool"), ("big", "int"), ("big", "float"),
             ("int", "big"), ("big", "big"), ("float", "big"), ("bytes", "bytes"), ("bytes", "int"), ("bytes", "targ")]


def hangs(op, xt, yt, refl=False):
    """int ** huge-int never finishes: no power with a `big` exponent over a base that may be an int"""
    if op != "pow":
        return False
    base, expo = (yt, xt) if refl else (xt, yt)
    return expo == "big" and base in ("int", "mix", "big", "bool")


def gen_state(rng, tier):
    """the operand's STATE instead of its contents: a table column (the other operand the neighbouring column; `t.a * t.a`),
    a slice of a longer vector, a vector that was fingerprinted and used in the same operation before in-place writes (hash-equal
    ones - 0.0 over -0.0 - among them) gave it the contents"""
    reps = 1 if tier == "quick" else 4
    for _ in range(reps):
        for via in VIAS:
            for op in BINOPS:
                for xt, yt in STATE_PAIRS + NEW_PAIRS[:3]:
                    for form, refl in FORMS:
                        if excluded(op, form, refl, yt):
                            continue
                        n = rng.choice([1, 2, 3, 4, 7])
                        px = [rng.random() < 0.25 for _ in range(n)]
                        if form == "scalar":
                            yield _bin(op, form, refl, xt, yt, G.fill(rng, xt, px), s=rng.randrange(len(POOLS[yt])), via=via)
                        else:
                            yield _bin(op, form, refl, xt, yt, G.fill(rng, xt, px),
                                       G.fill(rng, yt, [rng.random() < 0.25 for _ in range(n)]), via=via,
                                       seqkind=rng.choice(["list", "tuple"]))
                for xt in ("int", "float", "str", "date", "td", "bool", "complex", "nc", "mix"):
                    for n in (1, 3, 300):
                        yield _bin(op, "vec", False, xt, xt, G.fill(rng, xt, [rng.random() < 0.25 for _ in range(n)]), [],
                                   same=True, via=via)
            for op in UNOPS:
                for xt in ("int", "float", "bool", "complex", "td", "mix", "big"):
                    for n in (1, 3, 6, 300):
                        yield {"fam": "unary", "op": op, "xt": xt, "via": via,
                               "x": G.fill(rng, xt, [rng.random() < 0.25 for _ in range(n)])}
    # only hash-equal in-place edits between the first use and the judged one
    for _ in range(reps):
        for op in BINOPS:
            for xt, yt in (("float", "float"), ("float", "int"), ("complex", "float"), ("mix", "int"), ("mix", "mix")):
                for form, refl in FORMS:
                    n = rng.choice([2, 4, 7])
                    px = [rng.random() < 0.15 for _ in range(n)]
                    if form == "scalar":
                        yield _bin(op, form, refl, xt, yt, G.fill(rng, xt, px), s=rng.randrange(len(POOLS[yt])), via="warmeq")
                    else:
                        yield _bin(op, form, refl, xt, yt, G.fill(rng, xt, px), G.fill(rng, yt, [rng.random() < 0.15 for _ in range(n)]),
                                   via="warmeq")
        for op in UNOPS:
            for xt in ("float", "complex", "mix"):
                for n in (1, 2, 2, 3, 4, 7, 7, 12):
                    yield {"fam": "unary", "op": op, "xt": xt, "via": "warmeq",
                           "x": G.fill(rng, xt, [rng.random() < 0.15 for _ in range(n)])}
    tab = bcast_table()
    for bi, (t, name, is_method, a, k) in enumerate(tab):
        np_ = len(BCAST_POOLS[t])
        if t in ("float", "complex"):
            for n in (2, 5):
                yield {"fam": "bcast", "b": bi, "via": "warmeq", "x": [rng.randrange(np_) for _ in range(n)]}
        for via in VIAS:
            for n in ((3,) if tier == "quick" else (1, 3, 9, 300)):
                yield {"fam": "bcast", "b": bi, "via": via, "x": [None if rng.random() < 0.2 else rng.randrange(np_) for _ in range(n)]}


def gen_newtypes(rng, tier):
    """element features: numbers equal across types inside one <float>/<int> vector (a dtype wider than its contents), ints
    beyond 2**53 and 2**63, bytes (a scalar although iterable; b'ab' has as many items as a 2-element vector), a range as the
    plain sequence, unequal lengths on long operands"""
    reps = 2 if tier == "quick" else 12
    for op in BINOPS:
        for xt, yt in NEW_PAIRS:
            for form, refl in FORMS:
                if excluded(op, form, refl, yt) or (yt == "targ" and op != "mod") or hangs(op, xt, yt, refl):
                    continue
                for n in [0, 1, 1, 2, 2, 3, 6, 9] * reps + [300]:
                    px = [rng.random() < 0.2 for _ in range(n)]
                    if form == "scalar":
                        si = rng.randrange(len(POOLS[yt]))
                        if yt == "targ" and isinstance(POOLS[yt][si], tuple):
                            continue
                        yield _bin(op, form, refl, xt, yt, G.fill(rng, xt, px), s=si)
                    else:
                        yield _bin(op, form, refl, xt, yt, G.fill(rng, xt, px), G.fill(rng, yt, [rng.random() < 0.2 for _ in range(n)]),
                                   seqkind=rng.choice(["list", "tuple"]))
        # a range object of the right length as the plain sequence (direct and reflected)
        for xt in ("int", "float", "bool", "complex", "mix", "big", "td", "str"):
            for n in (0, 1, 2, 5, 300):
                for refl in (False, True):
                    if op == "pow" and xt == "big":       # int ** huge-int never finishes; huge ** 300 cannot be printed
                        continue
                    yield _bin(op, "seq", refl, xt, "int", G.fill(rng, xt, [rng.random() < 0.2 for _ in range(n)]),
                               [0] * n, seqkind="range1")
        # unequal lengths far beyond the scripted ones: nothing truncated, recycled or broadcast at any size
        for xt, yt in (("int", "int"), ("float", "float"), ("date", "int"), ("str", "str")):
            for form, refl in FORMS:
                if form == "scalar":
                    continue
                for n, m in ((256, 257), (1200, 1199), (300, 1), (1, 300), (300, 0), (0, 300), (600, 300), (128, 256)):
                    yield _bin(op, form, refl, xt, yt, G.fill(rng, xt, [rng.random() < 0.1 for _ in range(n)]),
                               G.fill(rng, yt, [rng.random() < 0.1 for _ in range(m)]), xtyped=True, ytyped=True,
                               seqkind=rng.choice(["list", "tuple"]))
    for op in UNOPS:
        for xt in ("mix", "big"):
            for n in [1, 1, 2, 3, 6, 9] * reps + [300]:
                yield {"fam": "unary", "op": op, "xt": xt, "x": G.fill(rng, xt, [rng.random() < 0.2 for _ in range(n)])}


def gen_table_gaps(rng, tier):
    """tables: column names that differ between the operands (permuted, missing, repeated: columns pair by position), the same
    table on both sides, more rows / columns than any scripted table, a plain sequence or vector with one element per row"""
    namesets = [(["a", "b"], ["b", "a"]), (["a", "b"], ["a", "b"]), ([None, "b"], ["a", None]), (["a", "a"], ["b", "b"]),
                (["x", "y"], ["y", "z"]), ([None, None], ["b", "a"]), (["a", "b"], [None, None])]
    for op in BINOPS:
        for n1, n2 in namesets:
            for ta, tb in ((("int", "float"), ("int", "float")), (("float", "int"), ("int", "complex")), (("str", "int"), ("int", "int")),
                           (("date", "td"), ("td", "td"))):
                nrows = rng.choice([1, 2, 3])
                cols = [{"t": ta[j], "x": G.fill(rng, ta[j], [rng.random() < 0.2 for _ in range(nrows)]), "n": n1[j]} for j in range(2)]
                cols2 = [{"t": tb[j], "x": G.fill(rng, tb[j], [rng.random() < 0.2 for _ in range(nrows)]), "n": n2[j]} for j in range(2)]
                yield {"fam": "table", "op": op, "cols": cols, "form": "table", "cols2": cols2}
                yield {"fam": "table", "op": op, "cols": cols, "form": "scalar", "st": tb[0], "s": rng.randrange(len(POOLS[tb[0]])),
                       "refl": rng.random() < 0.5}
        for types in (["int"], ["int", "float"], ["float", "bool", "complex"], ["str"], ["td", "td"], ["mix", "big" if op != "pow" else "int"], []):
            for nrows in (0, 1, 3):
                cols = [{"t": t, "x": G.fill(rng, t, [rng.random() < 0.25 for _ in range(nrows)])} for t in types]
                yield {"fam": "table", "op": op, "cols": cols, "form": "table", "same": True, "cols2": cols}
        # size: rows and columns beyond the scripted 3 x 3
        for nrows, ncols in ((300, 2), (1100, 1), (2, 14), (40, 9)):
            for types in (["int", "float"], ["float", "mix"], ["date", "td"], ["str", "int"]):
                cols = [{"t": types[j % 2], "x": G.fill(rng, types[j % 2], [rng.random() < 0.1 for _ in range(nrows)])} for j in range(ncols)]
                t = rng.choice(types + ["int"])
                base = {"fam": "table", "op": op, "cols": cols, "form": "scalar", "st": t, "s": rng.randrange(len(POOLS[t]))}
                yield dict(base)
                yield dict(base, refl=True)
                yield {"fam": "table", "op": op, "cols": cols, "form": "table",
                       "cols2": [{"t": c["t"] if rng.random() < 0.7 else "int",
                                  "x": G.fill(rng, c["t"], [rng.random() < 0.1 for _ in range(nrows)])} for c in cols]}
                yield {"fam": "table", "op": op, "cols": cols, "form": "table", "same": True, "cols2": cols}
            cols = [{"t": "float", "x": G.fill(rng, "float", [rng.random() < 0.1 for _ in range(nrows)])} for j in range(ncols)]
            yield dict({"fam": "table", "op": "add", "cols": cols, "form": "scalar", "st": "int", "s": 0}, unary=rng.choice(list(UNOPS)))
        # one operand element per row
        for _ in range(12 if tier == "quick" else 120):
            ncols = rng.choice([0, 1, 2, 3])
            nrows = rng.choice([0, 1, 2, 3, 5, 5])
            fam_types = rng.choice([["int", "float", "bool"], ["str", "int"], ["date", "td", "int"], ["mix", "big" if op != "pow" else "float", "int"]])
            cols = [{"t": t, "x": G.fill(rng, t, [rng.random() < 0.25 for _ in range(nrows)])}
                    for t in (rng.choice(fam_types) for _ in range(ncols))]
            yt = rng.choice(fam_types)
            m = nrows
            if rng.random() < 0.25 and ncols:
                m = rng.choice([k for k in (nrows + 1, nrows + 2, max(0, nrows - 1)) if k not in (nrows, ncols)])
            yield {"fam": "table", "op": op, "cols": cols, "form": rng.choice(["seq", "vec"]), "yt": yt,
                   "y": G.fill(rng, yt, [rng.random() < 0.25 for _ in range(m)]), "seqkind": rng.choice(["list", "tuple"])}


def generate(rng, tier):
    # interleave so that every family is reached early even when the budget is short
    gens = [gen_bin(rng, tier), gen_unary(rng, tier), gen_bcast(rng, tier), gen_table(rng, tier), gen_random(rng, tier),
            gen_long(rng, tier), gen_templates(rng, tier), gen_state(rng, tier), gen_newtypes(rng, tier), gen_table_gaps(rng, tier)]
    weights = [12, 1, 2, 1, 4, 1, 1, 2, 2, 1]
    alive = list(range(len(gens)))
    while alive:
        for gi in list(alive):
            for _ in range(weights[gi]):
                try:
                    yield next(gens[gi])
                except StopIteration:
                    alive.remove(gi)
                    break
    # malformed stream: operands that are not sequences of the vector's length in other ways
    for _ in range(40 if tier == "quick" else 400):
        n = rng.choice([1, 2, 3])
        yield {"fam": "bin", "op": rng.choice(list(BINOPS)), "form": "seq", "refl": rng.random() < 0.5, "xt": "int", "yt": "int",
               "x": G.fill(rng, "int", [False] * n), "y": G.fill(rng, "int", [False] * (n + rng.choice([1, 2, 7]))),
               "seqkind": rng.choice(["tuple", "range", "list"])}


# ------------------------------------------------------------------------------------------------
# execution
# ------------------------------------------------------------------------------------------------
def _same_contents(v, xs):
    return [(type(a), repr(a)) for a in v] == [(type(a), repr(a)) for a in xs]


def _twin(x):
    """a value equal and hash-equal to x that is not x's (type, repr): the other signed zero"""
    if isinstance(x, float) and x == 0.0:
        return 0.0 if math.copysign(1.0, x) < 0 else -0.0
    if isinstance(x, complex) and x == 0:
        return 0j if repr(x) != "0j" else complex(-0.0, 0.0)
    return None


class RouteSkip(Exception):
    pass


_KEEP = []


def routed(via, t, idx, warmup=None, other_col=None):
    """the vector holding pool values `idx` of type t, reached in another way than by building it from a list (gap analysis:
    the state of the operand, not only its contents):
      col   - a column of a table (next to the other operand, if that is a vector of the same length)
      slice - a slice of a longer vector
      warm  - another vector of the same kind that was fingerprinted and used in the same operation (`warmup`) before in-place
              writes gave it these contents; where the pool has an equal, hash-equal twin (0.0 / -0.0) the write is a
              hash-equal edit
    returns (vector, other-column-or-None); raises RouteSkip when the route cannot produce exactly these contents"""
    from serif import Vector, Table
    xs = vals(t, idx)
    p = G.pool(t) if t not in POOLS else POOLS[t]
    other = None
    try:
        if via == "col":
            d = {"a": list(xs)}
            if other_col is not None and len(other_col) == len(xs):
                d["b"] = list(other_col)
            else:
                d["z"] = list(range(len(xs)))
            holder = Table(d)
            _KEEP[:] = [holder]          # the table stays alive while its columns are used
            v = holder["a"]
            if "b" in d:
                other = holder["b"]
        elif via == "slice":
            w = Vector([p[0]] + list(xs) + [p[-1]])
            v = w[1:len(xs) + 1]
        elif via in ("warm", "warmeq"):
            start = []
            for i, (j, x) in enumerate(zip(idx, xs)):
                tw = _twin(x) if x is not None else None
                if via == "warmeq":     # ONLY hash-equal edits: whatever is keyed by hash / fingerprint sees no change
                    start.append(tw if tw is not None else x)
                else:
                    start.append(tw if tw is not None else p[i % len(p)] if x is None else p[(j + 1) % len(p)])
            if via == "warmeq" and _same_contents(start, xs):
                raise RouteSkip("no hash-equal twin in the contents")
            v = Vector(start)
            v.fingerprint()
            if warmup is not None:
                warmup(v)
            v.fingerprint()
            for i, x in enumerate(xs):
                v[i] = x
        else:
            raise ValueError(via)
    except RouteSkip:
        raise
    except Exception as e:
        raise RouteSkip("route raised " + type(e).__name__)
    if not isinstance(v, Vector) or not _same_contents(v, xs):
        raise RouteSkip("route did not produce the intended contents")
    if other is not None and not _same_contents(other, other_col):
        raise RouteSkip("route did not produce the intended contents")
    return v, other


def _declared(t, xs):
    """the caller declares the kind with a plain Python type: the dtype says non-nullable whatever the data holds (C06)"""
    from serif import Vector
    return Vector(list(xs), dtype=G.PYTYPE.get(t, object))


def bin_inputs(spec):
    from serif import Vector
    xs = vals(spec["xt"], spec["x"])
    via = spec.get("via")
    if via and xs and not all(x is None for x in xs):
        return _bin_inputs_routed(spec, via, xs)
    v = _declared(spec["xt"], xs) if spec.get("xtyped") == "declared" else G.make_vector(spec["xt"], xs, typed=spec.get("xtyped", False))
    form = spec["form"]
    if spec.get("same"):
        return v, xs, v, xs
    if form == "scalar":
        s = val(spec["yt"], spec["s"])
        return v, xs, s, None
    ys = vals(spec["yt"], spec["y"])
    if form == "vec":
        other = G.make_vector(spec["yt"], ys, typed=spec.get("ytyped", False))
    else:
        kind = spec.get("seqkind", "list")
        if kind == "tuple":
            other = tuple(ys)
        elif kind == "range" and all(isinstance(y, int) for y in ys):
            other = range(len(ys))
            ys = list(other)
        elif kind == "range1" and all(y is not None and type(y) is int for y in ys):
            other = range(1, len(ys) + 1)      # gap analysis: a range as the plain sequence of the right length
            ys = list(other)
        else:
            other = list(ys)
    return v, xs, other, ys


def _plain_operand(spec, ys):
    kind = spec.get("seqkind", "list")
    if kind == "tuple":
        return tuple(ys), ys
    if kind == "range1" and ys and all(type(y) is int for y in ys):
        other = range(1, len(ys) + 1)     # a range object is a plain sequence too
        return other, list(other)
    return list(ys), ys


def _bin_inputs_routed(spec, via, xs):
    form, refl, f = spec["form"], spec["refl"], BINOPS[spec["op"]]
    if spec.get("same"):
        v, _ = routed(via, spec["xt"], spec["x"], warmup=lambda w: G.run(lambda: f(w, w)))
        return v, xs, v, xs
    if form == "scalar":
        s = val(spec["yt"], spec["s"])
        v, _ = routed(via, spec["xt"], spec["x"], warmup=lambda w: G.run(lambda: f(s, w) if refl else f(w, s)))
        return v, xs, s, None
    ys = vals(spec["yt"], spec["y"])
    if form == "vec":
        plain = G.make_vector(spec["yt"], ys, typed=spec.get("ytyped", False))
        v, col = routed(via, spec["xt"], spec["x"], warmup=lambda w: G.run(lambda: f(plain, w) if refl else f(w, plain)),
                        other_col=ys if ys and not all(y is None for y in ys) else None)
        return v, xs, (col if col is not None else plain), ys
    other, ys = _plain_operand(spec, ys)
    v, _ = routed(via, spec["xt"], spec["x"], warmup=lambda w: G.run(lambda: f(other, w) if refl else f(w, other)))
    return v, xs, other, ys


def binary_wire(spec, fam="bin"):
    """shared with C06: run `v op other` / `other op v` on the real code, build oracle tables"""
    from serif import Vector
    I = Interner()
    op, refl, form = spec["op"], spec["refl"], spec["form"]
    f = BINOPS[op]
    try:
        v, xs, other, ys = bin_inputs(spec)
    except RouteSkip as e:
        return {"skip": str(e)}
    xu = [I.uid(x) for x in xs]
    case = {"op": op, "refl": refl, "form": form, "xs": xu, "dt": dtype_wire(v.schema())}
    if form == "scalar":
        case["s"] = I.uid(other)
        pairs = [(x, other) for x in xs]
    else:
        case["ys"] = [I.uid(y) for y in ys]
        if form == "vec":
            case["ydt"] = dtype_wire(other.schema())
        pairs = list(zip(xs, ys))
    py, days, ints, seen = [], [], set(), set()
    is_date = v.schema() is not None and v.schema().kind is datetime.date
    for x, y in pairs:
        if x is None or y is None:
            continue
        key = (I.uid(x), I.uid(y))
        if key in seen:
            continue
        seen.add(key)
        l, r = (y, x) if refl else (x, y)
        py.append([I.uid(l), I.uid(r), G.res_code(I, lambda: f(l, r))])
        if refl and op == "mul":   # __rmul__ delegates to __mul__: the model looks the pair up the other way round
            py.append([I.uid(r), I.uid(l), G.res_code(I, lambda: f(r, l))])
        if isinstance(y, int) and (form != "scalar" or type(y) is int):
            ints.add(I.uid(y))
            if is_date and not refl and op == "add":
                days.append([I.uid(x), I.uid(y), G.res_code(I, lambda: x + datetime.timedelta(days=y))])
    if form == "scalar" and type(other) is int:   # a bool scalar as "days" is left outside (skipped via Python's TypeError)
        ints.add(I.uid(other))
    case.update(py=py, days=days, ints=sorted(ints))
    r, err = G.run(lambda: f(other, v) if refl else f(v, other))
    impl = {"err": err} if err else G.vec_obs(I, r, v, other)
    if any(G.has_address(x) for x in I.vals[1:]):
        return {"skip": "value whose repr contains an address"}
    return {"fam": fam, "case": case, "impl": impl}


def unary_wire(spec, fam="unary"):
    I = Interner()
    xs = vals(spec["xt"], spec["x"])
    f = UNOPS[spec["op"]]
    if spec.get("via") and xs and not all(x is None for x in xs):
        try:
            v, _ = routed(spec["via"], spec["xt"], spec["x"], warmup=lambda w: G.run(lambda: f(w)))
        except RouteSkip as e:
            return {"skip": str(e)}
    elif spec.get("xtyped") == "declared":
        v = _declared(spec["xt"], xs)
    else:
        v = G.make_vector(spec["xt"], xs, typed=spec.get("xtyped", False))
    tab = {}
    for x in xs:
        if x is not None and I.uid(x) not in tab:
            tab[I.uid(x)] = G.res_code(I, lambda: f(x))
    r, err = G.run(lambda: f(v))
    impl = {"err": err} if err else G.vec_obs(I, r, v)
    return {"fam": fam, "case": {"op": spec["op"], "xs": [I.uid(x) for x in xs], "f": [[a, b] for a, b in tab.items()]},
            "impl": impl}


def bcast_parts(spec):
    t, name, is_method, a, k = bcast_table()[spec["b"]]
    xs = [None if i is None else BCAST_POOLS[t][i % len(BCAST_POOLS[t])] for i in spec["x"]]
    return t, name, is_method, a, k, xs


def _bcast_routed(via, t, idx, xs, warmup):
    from serif import Vector, Table
    p = BCAST_POOLS[t]
    try:
        if via == "col":
            holder = Table({"a": list(xs), "z": list(range(len(xs)))})
            _KEEP[:] = [holder]
            v = holder["a"]
        elif via == "slice":
            v = Vector([p[0]] + list(xs) + [p[-1]])[1:len(xs) + 1]
        else:   # warm, warmeq
            start = []
            for i, (j, x) in enumerate(zip(idx, xs)):
                tw = _twin(x) if x is not None else None
                if via == "warmeq":
                    start.append(tw if tw is not None else x)
                else:
                    start.append(tw if tw is not None else p[i % len(p)] if x is None else p[(j + 1) % len(p)])
            if via == "warmeq" and _same_contents(start, xs):
                raise RouteSkip("no hash-equal twin in the contents")
            v = Vector(start)
            v.fingerprint()
            warmup(v)
            v.fingerprint()
            for i, x in enumerate(xs):
                v[i] = x
    except Exception as e:
        raise RouteSkip("route raised " + type(e).__name__)
    if not isinstance(v, Vector) or not _same_contents(v, xs):
        raise RouteSkip("route did not produce the intended contents")
    return v


def bcast_wire(spec):
    from serif import Vector
    from serif.typing import DataType
    t, name, is_method, a, k, xs = bcast_parts(spec)
    I = Interner()
    def call_on(w):
        attr = getattr(w, name)
        return attr(*a, **k) if is_method else attr
    if all(x is None for x in xs):
        v = Vector(list(xs), dtype=DataType(BCAST_PY[t], nullable=bool(xs)))
    elif spec.get("via"):
        try:
            v = _bcast_routed(spec["via"], t, spec["x"], xs, lambda w: G.run(lambda: call_on(w)))
        except RouteSkip as e:
            return {"skip": str(e)}
    else:
        v = Vector(list(xs))
    tab, tab2 = {}, {}
    for x in xs:
        if x is not None and I.uid(x) not in tab:
            tab[I.uid(x)] = G.res_code(I, lambda: _scalar_call(x, name, is_method, a, k))

    held = None
    if spec.get("held") and is_method and len(xs) >= 1 and not all(x is None for x in xs):
        # the broadcast method is looked up FIRST and kept (f = v.bit_length), then the vector gets its final contents by in-place
        # writes, then f(...) is called: element i of the result is the method applied to what element i is at the time of the call
        pool_ = BCAST_POOLS[t]
        first = [pool_[(i + 1) % len(pool_)] if x is not None else pool_[0] for i, x in enumerate(xs)]
        try:
            v = Vector(list(first))
            held = getattr(v, name)
            for i, x in enumerate(xs):
                if spec["held"] == 1:
                    v[i] = x
                else:
                    v[i:i + 1] = [x]
            if list(v) != list(xs) and [repr(q) for q in v] != [repr(q) for q in xs]:
                return {"skip": "held route did not produce the intended contents"}
        except Exception as e:
            return {"skip": "held route raised " + type(e).__name__}

    def call():
        attr = held if held is not None else getattr(v, name)
        return attr(*a, **k) if is_method else attr
    r, err = G.run(call)
    impl = {"err": err} if err else G.vec_obs(I, r, v)
    for x in xs:   # oracle again after the call: a method that is not a function of its element is skipped
        if x is not None and I.uid(x) not in tab2:
            tab2[I.uid(x)] = G.res_code(I, lambda: _scalar_call(x, name, is_method, a, k))
    if tab != tab2:
        return {"skip": "method result changes between calls"}
    if any(rv == 0 for rv in tab.values()):
        return {"skip": "method returns None"}
    if any(G.has_address(x) for x in I.vals[1:]):
        return {"skip": "value whose repr contains an address"}
    return {"fam": "bcast", "case": {"xs": [I.uid(x) for x in xs], "f": [[p, q] for p, q in tab.items()],
                                     "name": name, "method": is_method}, "impl": impl}


def _table(cols):
    from serif import Table, Vector
    if any("n" in c for c in cols):
        # gap analysis: column names chosen by the case (permuted between the two tables, missing, repeated) - table
        # arithmetic pairs columns by POSITION
        return Table([Vector(vals(c["t"], c["x"]), name=c.get("n")) for c in cols])
    return Table({f"c{j}": vals(c["t"], c["x"]) for j, c in enumerate(cols)})


def table_wire(spec):
    from serif import Table, Vector
    I = Interner()
    op = spec["op"]
    f = BINOPS[op]
    refl, un = bool(spec.get("refl")), spec.get("unary")
    if un:
        # encoded as "table op dummy-scalar" with the unary result in the oracle table, so that the same judge applies
        g = UNOPS[un] if un != "inv" else (lambda x: (not x) if isinstance(x, bool) else ~x)
        f = lambda x, y: g(x)
    elif refl:
        h = BINOPS[op]
        f = lambda x, y: h(y, x)
    try:
        t1 = _table(spec["cols"])
        t2 = (t1 if spec.get("same") else _table(spec["cols2"])) if spec["form"] == "table" else None
    except Exception as e:
        return {"skip": "could not build the input table: " + type(e).__name__}
    c1 = list(t1.cols())
    if un:
        op = "sub"          # wire label only: an operator without special paths (the oracle table carries the unary results)
    if refl and op == "add" and spec["form"] == "scalar" and type(val(spec["st"], spec["s"])) is int \
            and any(c.schema() is not None and c.schema().kind is datetime.date for c in c1):
        return {"skip": "int + date column: not the day arithmetic of `dates + n` (Python's int + date raises)"}
    case = {"op": op, "form": spec["form"],
            "cols": [{"xs": [I.uid(x) for x in c], "dt": dtype_wire(c.schema())} for c in c1]}
    py, days, ints, seen = [], [], set(), set()

    def add_pair(col, x, y):
        if x is None or y is None:
            return
        key = (I.uid(x), I.uid(y))
        if isinstance(y, int) and (spec["form"] != "scalar" or type(y) is int):
            ints.add(I.uid(y))
            if not un and not refl and col.schema() is not None and col.schema().kind is datetime.date and op == "add" and ("d",) + key not in seen:
                seen.add(("d",) + key)
                days.append([key[0], key[1], G.res_code(I, lambda: x + datetime.timedelta(days=y))])
        if key in seen:
            return
        seen.add(key)
        py.append([key[0], key[1], G.res_code(I, lambda: f(x, y))])
    if spec["form"] == "scalar":
        s = val(spec["st"], spec["s"])
        if refl and op == "mod" and isinstance(s, (str, bytes)):
            return {"skip": "str % table is Python's string formatting, not the reflected operator"}
        case["s"] = I.uid(s)
        if type(s) is int:
            ints.add(I.uid(s))
        for c in c1:
            for x in c:
                add_pair(c, x, s)
        other = s
    elif spec["form"] in ("seq", "vec"):
        # gap analysis: a plain sequence / a vector with one element per ROW on the right: the same operand for every column
        ys = vals(spec["yt"], spec["y"])
        if spec["form"] == "vec":
            other = G.make_vector(spec["yt"], ys, typed=True)
            case["ydt"] = dtype_wire(other.schema())
        else:
            other = tuple(ys) if spec.get("seqkind") == "tuple" else list(ys)
        case["ys"] = [I.uid(y) for y in ys]
        for c in c1:
            for x, y in zip(list(c), ys):
                add_pair(c, x, y)
    else:
        c2 = list(t2.cols())
        case["cols2"] = [{"xs": [I.uid(x) for x in c], "dt": dtype_wire(c.schema())} for c in c2]
        for a, b in zip(c1, c2):
            for x, y in zip(list(a), list(b)):
                add_pair(a, x, y)
        other = t2
    case.update(py=py, days=days, ints=sorted(ints))
    if un == "inv" and any(c.schema() is not None and c.schema().kind is bool and c.schema().nullable for c in c1):
        return {"skip": "~ on a nullable bool column: `not None` is True (C07's business)"}
    if un:
        r, err = G.run(lambda: (~t1) if un == "inv" else UNOPS[un](t1))
    elif refl:
        r, err = G.run(lambda: BINOPS[op](other, t1))
    else:
        r, err = G.run(lambda: f(t1, other))
    if err:
        impl = {"err": err}
    elif not isinstance(r, Table):
        impl = {"err": "other:not-a-table:" + type(r).__name__}
    else:
        impl = {"ok": [[I.uid(x) for x in list(c)] for c in r.cols()]}
    return {"fam": "table", "case": case, "impl": impl}


def execute(spec):
    fam = spec["fam"]
    if fam == "bin":
        return binary_wire(spec)
    if fam == "unary":
        return unary_wire(spec)
    if fam == "bcast":
        return bcast_wire(spec)
    if fam == "table":
        return table_wire(spec)
    raise ValueError(fam)


# ------------------------------------------------------------------------------------------------
# reporting
# ------------------------------------------------------------------------------------------------
def _evaluated(case):
    return any(r[-1] > 0 for r in case.get("py", [])) or any(r[-1] > 0 for r in case.get("days", [])) \
        or any(r[-1] > 0 for r in case.get("f", []))


def _typeerr(case):
    return any(r[-1] == -2 for r in case.get("py", []))


def nontrivial(spec, wire):
    case = wire["case"]
    if spec["fam"] in ("bin", "table") and _typeerr(case) and not case.get("days"):
        return False
    if spec["fam"] == "bin" and spec["form"] != "scalar" and len(case["xs"]) != len(case.get("ys", [])):
        return True
    return _evaluated(case)


def _lenb(n):
    return "0" if n == 0 else "1" if n == 1 else "2-5" if n <= 5 else "6-99" if n < 100 else "100+"


def histogram(spec, wire):
    case, impl = wire["case"], wire["impl"]
    fam = spec["fam"]
    out = [fam + ":" + ("raised" if "err" in impl else "returned")]
    if fam == "bin":
        form = ("r" if spec["refl"] else "") + spec["form"]
        out += [f"bin:op:{spec['op']}", f"bin:form:{form}", f"bin:len{_lenb(len(case['xs']))}",
                f"bin:types:{spec['xt']}-{spec['yt']}"]
        if spec["form"] != "scalar" and len(case["xs"]) != len(case["ys"]):
            out.append("bin:length-mismatch")
        if _typeerr(case):
            out.append("bin:python-TypeError(skip)")
        elif any(r[-1] == -1 for r in case["py"]):
            out.append("bin:python-raises")
        if case.get("days"):
            out.append("bin:date+days")
        if 0 in case["xs"] or 0 in case.get("ys", []):
            out.append("bin:has-None")
    elif fam == "unary":
        out += [f"unary:{spec['op']}:{spec['xt']}", f"unary:len{_lenb(len(case['xs']))}"]
    elif fam == "bcast":
        t, name, is_method, a, k = bcast_table()[spec["b"]]
        out += [f"bcast:{t}:{'method' if is_method else 'property'}", f"bcast:len{_lenb(len(case['xs']))}"]
        if k:
            out.append("bcast:kwargs")
    elif fam == "table":
        out += [f"table:{spec['form']}", f"table:cols{len(spec['cols'])}"]
        if _typeerr(case):
            out.append("table:python-TypeError(skip)")
    return out


def known_territory(spec):
    """static description of the inputs of recorded known findings (none at present): shrinking must not slide a new
    failure into the input region of a known one, or it would be reported as known"""
    return False


def shrink(spec):
    inside = known_territory(spec)
    for cand in _shrink(spec):
        if inside or not known_territory(cand):
            yield cand


def _shrink(spec):
    fam = spec["fam"]
    if fam == "bin":
        x = spec["x"]
        for i in range(len(x)):
            d = dict(spec, x=x[:i] + x[i + 1:])
            if "y" in spec and i < len(spec["y"]):
                d["y"] = spec["y"][:i] + spec["y"][i + 1:]
            yield d
        if "y" in spec and len(spec["y"]) > len(x):
            yield dict(spec, y=spec["y"][:-1])
        for i, xi in enumerate(x):
            if xi not in (None, 0):
                yield dict(spec, x=x[:i] + [0] + x[i + 1:])
        if "y" in spec:
            for i, yi in enumerate(spec["y"]):
                if yi not in (None, 0):
                    yield dict(spec, y=spec["y"][:i] + [0] + spec["y"][i + 1:])
    elif fam in ("unary", "bcast"):
        x = spec["x"]
        if len(x) > 8:
            yield dict(spec, x=x[:len(x) // 2])
            yield dict(spec, x=x[len(x) // 2:])
        for i in range(min(len(x), 12)):
            yield dict(spec, x=x[:i] + x[i + 1:])
    elif fam == "table":
        for j in range(len(spec["cols"])):
            d = dict(spec, cols=spec["cols"][:j] + spec["cols"][j + 1:])
            if "cols2" in spec and j < len(spec["cols2"]):
                d["cols2"] = spec["cols2"][:j] + spec["cols2"][j + 1:]
            yield d
        n = max([len(c["x"]) for c in spec["cols"]] + [0])
        for i in range(n):
            d = dict(spec, cols=[dict(c, x=c["x"][:i] + c["x"][i + 1:]) for c in spec["cols"]])
            if "cols2" in spec:
                d["cols2"] = [dict(c, x=c["x"][:i] + c["x"][i + 1:]) for c in spec["cols2"]]
            yield d


def snippet(spec):
    text = _snippet(spec)
    notes = []
    if spec.get("via"):
        notes.append(f"# NOTE: the left vector is reached via route {spec['via']!r} (see routed() in harness/props/c05.py): "
                     "col = column 'a' of a Table (other operand column 'b'), slice = w[1:n+1] of a longer vector, "
                     "warm/warmeq = fingerprint() + the same operation first, then in-place writes to these contents")
    if spec.get("xtyped") == "declared":
        notes.append("# NOTE: the vector is built with dtype=<plain Python type> (declared non-nullable, holds None)")
    if spec.get("fam") == "table" and any("n" in c for c in spec.get("cols", [])):
        notes.append("# NOTE: column names: " + repr([c.get("n") for c in spec["cols"]]) + " / "
                     + repr([c.get("n") for c in spec.get("cols2", [])]))
    if spec.get("fam") == "table" and spec.get("same"):
        notes.append("# NOTE: other is t itself (t op t)")
    return text + ("\n" + "\n".join(notes) if notes else "")


def _snippet(spec):
    fam = spec["fam"]
    if fam == "bin":
        xs = vals(spec["xt"], spec["x"])
        vsrc = G.vec_src(spec["xt"], xs, spec.get("xtyped", False))
        if spec.get("same"):
            osrc = "v"
        elif spec["form"] == "scalar":
            osrc = G.pyrepr(val(spec["yt"], spec["s"]))
        else:
            ys = vals(spec["yt"], spec["y"])
            osrc = G.vec_src(spec["yt"], ys, spec.get("ytyped", False)) if spec["form"] == "vec" else G.pyrepr(ys)
            if spec.get("seqkind") == "tuple":
                osrc = "tuple(" + osrc + ")"
        sym = SYMBOL[spec["op"]]
        expr = f"other {sym} v" if spec["refl"] else f"v {sym} other"
        return (G.HEADER + f"v = {vsrc}\nother = {osrc}\nr = {expr}\n"
                f"print(list(r))   # expected: [None if a is None or b is None else <a {sym} b in this operand order>], "
                "an error iff the lengths differ")
    if fam == "unary":
        xs = vals(spec["xt"], spec["x"])
        sym = {"neg": "-v", "pos": "+v", "abs": "abs(v)"}[spec["op"]]
        return G.HEADER + f"v = {G.vec_src(spec['xt'], xs, spec.get('xtyped', False))}\nprint(list({sym}))"
    if fam == "bcast":
        t, name, is_method, a, k, xs = bcast_parts(spec)
        call = f"v.{name}" + (("(" + ", ".join([repr(x) for x in a] + [f"{q}={w!r}" for q, w in k.items()]) + ")") if is_method else "")
        shown = xs if len(xs) <= 12 else xs[:12]
        return (G.HEADER + f"v = Vector({G.pyrepr(shown)}{' * 100' if len(xs) > 12 else ''})\n"
                f"print(list({call}))   # expected: the same call on each element, None staying None")
    if fam == "table":
        def tsrc(cols):
            return "Table({" + ", ".join(f"'c{j}': {G.pyrepr(vals(c['t'], c['x']))}" for j, c in enumerate(cols)) + "})"
        other = G.pyrepr(val(spec["st"], spec["s"])) if spec["form"] == "scalar" else \
            G.pyrepr(vals(spec["yt"], spec["y"])) if spec["form"] in ("seq", "vec") else tsrc(spec["cols2"])
        if spec.get("unary"):
            e = {"neg": "-t", "pos": "+t", "abs": "abs(t)", "inv": "~t"}[spec["unary"]]
        elif spec.get("refl"):
            e = f"other {SYMBOL[spec['op']]} t"
        else:
            e = f"t {SYMBOL[spec['op']]} other"
        return (G.HEADER + f"t = {tsrc(spec['cols'])}\nother = {other}\nr = {e}\n"
                "print([list(c) for c in r.cols()])   # expected: the vector operation column by column")
    return repr(spec)


KNOWN = {}

LEVEL_TEXT = ("Proof (Lean 4, for every element type and every scalar semantics): length_preserved(+_vector,_broadcast); pointwise "
              "for all five operand forms (pointwise, pointwise_vector/_list/_scalar/_reflected/_radd, pointwise_binary for all "
              "seven operators direct and reflected - reflected '*' under the stated hypothesis that Python's scalar '*' commutes "
              "because __rmul__ delegates to __mul__ -, pointwise_any_vector including _Date.__add__ days); length_mismatch_errors "
              "(+_vector, result_implies_equal_length: the zip is strict, nothing is truncated/recycled/broadcast); "
              "defined_when_python_defines (no spurious refusal); table_is_columnwise, table_reflected_is_columnwise, "
              "table_unary_is_columnwise (scalar on the left and -t/+t/abs(t): same shape, column by column — the code had these wrong "
              "until 4c3b80c/7b34bbf), table_table_is_columnwise, "
              "table_width_mismatch_errors, table_cellwise; broadcast_pointwise, broadcast_eq_map, broadcast_all_none; and the "
              "executable judge used by the driver is tied to the model (model_conforms, vector_model_conforms, table_model_conforms, "
              "table_table_model_conforms, judge_exact, judge_mismatch, broadcast_conforms). Sampled only: that the model is the code (differential run: exhaustive small "
              "scopes over operators x forms x dtype pairs x None patterns, every dir()-discovered method/property, tables), and "
              "Python's scalar results themselves (oracle tables computed by Python on the written operand order).")
LEVEL_NOTE = ("Trusted: Lean kernel, axioms propext/Classical.choice/Quot.sound only; harness + driver; scalar semantics are parameters "
              "(oracle = Python itself). Not modelled: the TypeError fallback to tuples (outside C05, skipped), result dtype and names "
              "(C03/C04/C18).")
