"""C16 — fingerprints track content: never stale, and they notice every change."""
import warnings, random, gc
from props import histcommon as H
from props.c01 import model_op, slim

PID = "C16"
RULE = ("history: the C01 histories with fingerprint() calls interleaved (after each step a random subset of live handles is "
        "fingerprinted with probability 0.4, at the end all of them); every returned value must equal the rolling hash the Lean "
        "model computes from the current contents (element hashes = Python hash(), None/NaN literals read from the source) and "
        "the fingerprint of a freshly rebuilt object. sens: for vectors over a pool containing hash-equal pairs (1/True/1.0, "
        "-1/-2) every (position, new value) write through a random path (item, slice, mask, index list, promotion, table cell, "
        "column view, attribute replacement) and every adjacent swap: the vector's and the containing table's fingerprints must "
        "change iff the element hashes changed. tsens: ONE table-level write changing cells of several columns (every exchange of two "
        "cells between columns of 2-3 column tables, transposition of square tables, random row / region / whole-table "
        "assignments): the table fingerprint must change iff the cell hashes changed. non-trivial = a fingerprint() was observed after an in-place write to an object "
        "that had been fingerprinted before (history) / the written value differs in hash (sens)")
ASSUMPTIONS = ["elements are scalars, or lists / tuples / sets of scalars and further lists / tuples (family `container`; Python's sorted() "
               "orders a set's items; dicts and other unhashable objects as elements are not judged); names are not part of a fingerprint",
               "Python's hash() of the element values is the oracle for element hashes (str hashes are per-process)"]
BUDGET_S = {"quick": 30, "thorough": 420}
LEVEL_TEXT = ("Proof: (1) in the heap model, after ANY operation sequence every cached fingerprint equals the rolling hash of the "
              "object's current contents (coherent, by induction over histories), hence fingerprint() through any handle equals "
              "the fingerprint of a freshly built object with the same contents whether or not it was cached before (fresh_equal), "
              "read-only operations never change it (readonly_unchanged), a write clears exactly the written vector's memo "
              "(write_then_read). (2) For the constants P, B read from the source on this run (coprimality checked in the kernel): "
              "changing any element to one whose hash differs mod P changes the vector's fingerprint at every position and length "
              "(write_changes) and the fingerprint of the table containing it (table_changes, comb_changes); one table-level write exchanging "
              "two cells along an anti-diagonal is noticed (antidiagonal_exchange_changes: the table's own base BT with BT - B prime to "
              "P; same_base_transpose_collides is the proved counterexample for the old scheme, repaired in /repo); swapping neighbours with different "
              "hashes changes it (order_matters). The exact condition is 'hashes differ modulo P', which is strictly stronger than "
              "'hash() tells them apart' — congruent_hashes_collide_counterexample proves the gap, recorded as known finding "
              "C16/hash-congruent-mod-P. Tied to the code by trace validation (model answer = real fingerprint() at every observed "
              "call) and by an exhaustive small-scope sensitivity run.")
LEVEL_NOTE = ("Trusted: Lean kernel + standard axioms (Proofs/Fingerprint.lean imports Mathlib.Tactic.Ring only); the harness; Python's "
              "hash() as oracle. Nested containers as elements are not modelled.")


def hash_table(intern):
    tbl, nan = [], []
    for u in range(1, len(intern.vals)):
        v = intern.vals[u]
        if isinstance(v, float) and v != v:
            nan.append(u)
        else:
            tbl.append([u, hash(v)])
    return tbl, nan


def hashes(vals):
    import serif
    out = []
    for x in vals:
        if isinstance(x, float) and x != x:
            # NaN: hash(nan) is per OBJECT, so it cannot be the element hash of a content fingerprint. The value the library
            # gives to ANOTHER NaN object is the oracle: equal contents must hash alike whichever NaN object they hold
            out.append(serif.Vector._hash_element(float("nan")) if hasattr(serif.Vector, "_hash_element") else 0xDEADBEEFCAFEBABE)
        else:
            out.append(0x9E3779B97F4A7C15 if x is None else hash(x))
    return out


def generate(rng, tier):
    # minimal witness of the known finding first (kept so that the finding is exhibited on every run)
    yield {"fam": "sens", "vals": [5, 6], "i": 0, "new": 5 - ((1 << 61) - 1), "path": "item", "other": [1, 2]}
    pool = [1, True, 1.0, -1, -2, 0, 2, None, "a", "b", 2.5, "F:nan"]
    # (the key as a Vector / a tuple, the cell addressed by column name, rows chosen by a Vector mask, a whole column / table
    # assigned from a Vector / a Table)
    paths = ["item", "slice", "mask", "ilist", "cell", "view", "attr", "row", "ilistrep", "ilistneg",
             "vmask", "vilist", "tuple", "cellname", "colslot", "tabslot", "alias"]
    for n in (1, 2, 3):
        for i in range(n):
            for new in pool:
                for path in paths:
                    base = [rng.choice([1, 0, 2, -1]) for _ in range(n)]
                    yield {"fam": "sens", "vals": base, "i": i, "new": new, "path": path, "other": [rng.choice([7, 8]) for _ in range(n)]}
    for _ in range(150 if tier == "quick" else 4000):
        n = rng.randint(2, 9)
        kind = rng.choice(["int", "mixed", "str"])
        kind = kind if rng.random() < 0.85 else "floatnan"
        p = {"int": [1, 0, 2, -1, -2, 3], "mixed": pool, "str": ["a", "b", "c", None], "floatnan": [0.5, "F:nan", 1.5, None, "F:nan"]}[kind]
        base = [rng.choice(p) for _ in range(n)]
        if rng.random() < 0.4:
            yield {"fam": "sens", "vals": base, "swap": rng.randrange(n - 1), "path": "swap", "other": [rng.choice([7, 8]) for _ in range(n)]}
        else:
            yield {"fam": "sens", "vals": base, "i": rng.randrange(n), "new": rng.choice(p), "path": rng.choice(paths),
                   "other": [rng.choice([7, 8]) for _ in range(n)]}
    # long vectors, memo warm, every write path, promoting (hash-changing conversion of the untouched elements) and plain writes
    for kind in ("date", "bigint", "int"):
        for path in paths:
            for new in ("promote", "same", "none") + (("promote_eq",) if kind == "date" else ()):
                n = rng.choice([32, 33, 40, 64, 70]) if new != "promote_eq" else rng.choice([3, 5, 33, 64])
                yield {"fam": "sens", "long": {"kind": kind, "n": n, "new": new}, "i": rng.choice([0, 1, n // 2, n - 1]), "path": path}
    for _ in range(60 if tier == "quick" else 1500):
        n = rng.randint(1, 4)
        base = [rng.choice([1, 0, 2, -1, "a", None]) for _ in range(n)]
        yield {"fam": "nested", "vals": base, "i": rng.randrange(n), "new": rng.choice([5, 7, "b", None, 2.5]),
               "other": [rng.choice([7, 8]) for _ in range(n)], "path": rng.choice(["view", "cell", "none"])}
    # container-valued elements: lists / tuples (nested) and sets of scalars inside an object vector
    # an empty container against the small numbers (an empty container hashes to its bare starting value)
    for empty in ({"t": []}, {"l": []}, {"s": []}):
        for x in (0, 1, 2, 3, 4, 5, 6, True, 1.0, 3.0, -1, None):
            yield {"fam": "container", "elems": ["k", empty], "i": 1, "new": x}
            yield {"fam": "container", "elems": ["k", x], "i": 1, "new": empty}
    # sets whose members are only partially ordered (frozensets: `<` is the subset relation, so sorting the members is not canonical)
    for rep in range(12 if tier == "quick" else 200):
        members = rng.sample(range(200), rng.randint(2, 30))
        yield {"fam": "container", "elems": ["k", {"sf": members}], "i": 1, "new": {"sf": members[1:] + [rng.randrange(200, 260)]}}
    for _ in range(400 if tier == "quick" else 8000):
        n = rng.randint(1, 4)
        elems = ["k"] + [_rand_tree(rng, 2) for _ in range(n)]
        i = rng.randrange(1, n + 1)
        yield {"fam": "container", "elems": elems, "i": i, "new": _mutate_tree(rng, elems[i])}
    # table-level writes that change cells of several columns at once: exchanges between columns (same row, anti-diagonal,
    # diagonal), transposition of a square table, row / region / whole-table assignment
    for k in (2, 3):
        for n in (1, 2, 3):
            base = [[10 * (j + 1) + i for i in range(n)] for j in range(k)]
            for (c1, r1) in [(a, b) for a in range(k) for b in range(n)]:
                for (c2, r2) in [(a, b) for a in range(k) for b in range(n)]:
                    if c1 < c2:
                        yield {"fam": "tsens", "cols": base, "how": "swap", "a": [c1, r1], "b": [c2, r2]}
            if k == n:
                yield {"fam": "tsens", "cols": base, "how": "transpose"}
    for _ in range(200 if tier == "quick" else 4000):
        k, n = rng.randint(2, 4), rng.randint(1, 4)
        base = [[rng.choice([1, 0, 2, -1, 3, 7]) for _ in range(n)] for _ in range(k)]
        new = [[x if rng.random() < 0.6 else rng.choice([1, 0, 2, -1, 3, 7]) for x in c] for c in base]
        yield {"fam": "tsens", "cols": base, "how": rng.choice(["whole", "rows", "region"]), "new": new}
    for i in range(4000 if tier == "quick" else 24000):
        yield {"fam": "history", "seed": rng.randrange(1 << 30), "nsteps": 12 if tier == "quick" or i % 3 else 36}


def _rand_tree(rng, depth):
    r = rng.random()
    if depth == 0 or r < 0.25:
        return rng.choice([0, 1, 2, 8, -1, 16, None, "a", 2.5])
    if r < 0.5:
        return {"s": rng.sample([0, 8, 16, 1, 2, 3, 24, -1], rng.randint(0, 4))}
    return {rng.choice("lt"): [_rand_tree(rng, depth - 1) for _ in range(rng.randint(0, 3))]}


def _mutate_tree(rng, t):
    """an element that differs from `t` somewhere (a leaf changed, an item added or dropped) — or, rarely, equals it"""
    if not isinstance(t, dict):
        return rng.choice([5, 7, "b", None, {"l": [t]}, {"t": [1, t]}])
    (k, items), = t.items()
    items = list(items)
    r = rng.random()
    if rng.random() < 0.08:
        return rng.choice([0, 1, 2, 3, 4, 6, True, None, "a"])        # the container replaced by a plain value
    if k == "s":
        pool = [x for x in [0, 8, 16, 1, 2, 3, 24, -1, 40] if x not in items]
        if r < 0.5 or not items:
            items.insert(rng.randrange(len(items) + 1), rng.choice(pool))
        elif r < 0.8:
            items.pop(rng.randrange(len(items)))
        else:
            items = items[::-1]            # the same set, inserted in another order
        return {"s": items}
    if not items or r < 0.2:
        return {k: items + [rng.choice([0, 1, 9])]}
    j = rng.randrange(len(items))
    if r < 0.8:
        items[j] = _mutate_tree(rng, items[j])
    elif r < 0.9 and len(items) > 1:
        items[j], items[j - 1] = items[j - 1], items[j]
    else:
        return {"l" if k == "t" else "t": items}      # a list for a tuple with the same items: another value
    return {k: items}


def _build_tree(t, rev=False):
    if not isinstance(t, dict):
        return t
    (k, items), = t.items()
    if k == "s":
        out = set()
        for x in (items[::-1] if rev else items):
            out.add(x)
        return out
    if k == "sf":
        out = set()
        for x in (items[::-1] if rev else items):
            out.add(frozenset({x}))
        return out
    xs = [_build_tree(x, rev) for x in items]
    return xs if k == "l" else tuple(xs)


def _wire_tree(t):
    if not isinstance(t, dict):
        return hashes([t])[0]
    (k, items), = t.items()
    if k == "s":
        # a set folds its item hashes in ascending order (members that are == count once)
        return {"k": 1, "e": sorted(hashes([x])[0] for x in set(items))}
    if k == "sf":
        return {"k": 1, "e": sorted(hash(frozenset({x})) for x in set(items))}
    return {"k": 2 if k == "t" else 3, "e": [_wire_tree(x) for x in items]}


def _container(spec):
    from serif import Vector
    elems, i = spec["elems"], spec["i"]
    with warnings.catch_warnings():
        warnings.simplefilter("ignore")
        try:
            v = Vector([_build_tree(t) for t in elems])
            twin = Vector([_build_tree(t, True) for t in elems])
            if type(v) is not Vector or len(v) != len(elems):
                return {"skip": "not a plain vector"}
            vb = v.fingerprint()
            again = v.fingerprint()
            tw = twin.fingerprint()
            v[i] = _build_tree(spec["new"])
            if len(v) != len(elems):
                return {"skip": "the write changed the length"}
            va = v.fingerprint()
            elems2 = list(elems)
            elems2[i] = spec["new"]
            rebuilt = Vector([_build_tree(t, True) for t in elems2]).fingerprint()
        except Exception as e:
            return {"skip": "refused: " + type(e).__name__}
    def big_set(t):
        if not isinstance(t, dict):
            return False
        (k, items), = t.items()
        return (k in ("s", "sf") and len(set(items)) >= 2) or (k not in ("s", "sf") and any(big_set(x) for x in items))
    return {"fam": "container", "case": {"elems": [_wire_tree(t) for t in elems], "elems2": [_wire_tree(t) for t in elems2],
                                         "exact": not any(big_set(t) for t in elems + elems2)},
            "impl": {"v_before": vb, "v_again": again, "v_twin": tw, "v_after": va, "v_rebuilt": rebuilt}}


def _nested(spec):
    """Table([Table({'a': vals}), Table({'c': other})]) — fingerprint, write into the inner column, fingerprint again"""
    from serif import Vector, Table
    vals, n = list(spec["vals"]), len(spec["vals"])
    with warnings.catch_warnings():
        warnings.simplefilter("ignore")
        try:
            outer = Table([Table({"a": list(vals)}), Table({"c": list(spec["other"])})])
            if not isinstance(outer, Table) or len(outer.cols()) != 2 or not isinstance(outer.cols()[0], Table):
                return {"skip": "not a table of tables"}
            ob = outer.fingerprint()
            inner = outer.cols()[0]
            i, new = spec["i"], spec["new"]
            if spec["path"] == "view":
                inner.a[i] = new
            elif spec["path"] == "cell":
                inner[i, "a"] = new
            got = list(inner.cols()[0])
            oa = outer.fingerprint()
            rebuilt = Table([Table({"a": list(got)}), Table({"c": list(spec["other"])})]).fingerprint()
        except Exception as e:
            return {"skip": "refused: " + type(e).__name__}
    return {"fam": "nested", "case": {"hs": hashes(vals), "hs2": hashes(got), "other": hashes(spec["other"])},
            "impl": {"o_before": ob, "o_after": oa, "o_rebuilt": rebuilt}}


def _tsens(spec):
    from serif import Vector, Table
    cols = [list(c) for c in spec["cols"]]
    k, n = len(cols), len(cols[0])
    how = spec["how"]
    if how == "swap":
        (c1, r1), (c2, r2) = spec["a"], spec["b"]
        new = [list(c) for c in cols]
        new[c1][r1], new[c2][r2] = cols[c2][r2], cols[c1][r1]
    elif how == "transpose":
        new = [[cols[j][i] for j in range(k)] for i in range(n)]
    else:
        new = [list(c) for c in spec["new"]]
    with warnings.catch_warnings():
        warnings.simplefilter("ignore")
        try:
            t = Table([Vector(list(c), name="c%d" % j) for j, c in enumerate(cols)])
            tb = t.fingerprint()
            for c in t.cols():
                c.fingerprint()                     # every memo warm
            if how == "rows":
                for i in range(n):
                    t[i] = [new[j][i] for j in range(k)]
            elif how == "region":
                t[0:n, 0:k] = Table([Vector(list(c)) for c in new])
            else:
                t[0:n] = Table([Vector(list(c)) for c in new])
            ta = t.fingerprint()
            got = [list(c) for c in t.cols()]
            rebuilt = Table([Vector(list(c), name="c%d" % j) for j, c in enumerate(got)]).fingerprint()
        except Exception as e:
            return {"skip": "write refused: " + type(e).__name__}
    if got != new:
        return {"skip": "contents after the write are not the assigned cells"}
    return {"fam": "tsens", "case": {"cols": [hashes(c) for c in cols], "cols2": [hashes(c) for c in got]},
            "impl": {"t_before": tb, "t_after": ta, "t_rebuilt": rebuilt}}


def execute(spec):
    if spec["fam"] == "tsens":
        return _tsens(spec)
    if spec["fam"] == "sens":
        return _sens(spec)
    if spec["fam"] == "nested":
        return _nested(spec)
    if spec["fam"] == "container":
        return _container(spec)
    return _history(spec)


def _long_vals(spec):
    """long vectors (beyond any size threshold a memo patch might use) whose in-place promotion changes the hash of the elements
    that are merely converted: dates (-> datetime) and ints beyond 2**53 (-> float / complex)"""
    import datetime as _dt
    L = spec["long"]
    n, kind = L["n"], L["kind"]
    if kind == "date":
        vals = [_dt.date(2020, 1, 1) + _dt.timedelta(days=(k * 7) % 300) for k in range(n)]
        # promote_eq: the datetime at midnight of the very day stored at the written position - after the in-place promotion it
        # EQUALS the element it replaces, while every element of the vector changed its hash (date -> datetime)
        i_ = spec.get("i", 0) % n
        new = {"promote": _dt.datetime(2021, 5, 6, 7, 8), "same": _dt.date(1999, 1, 1), "none": None,
               "promote_eq": _dt.datetime.combine(vals[i_], _dt.time(0))}[L["new"]]
    elif kind == "bigint":
        vals = [(1 << 60) + 3 * k + 1 for k in range(n)]
        new = {"promote": 0.5, "same": 7, "none": None}[L["new"]]
    else:
        vals = [k % 5 - 2 for k in range(n)]
        new = {"promote": 2.5, "same": 9, "none": None}[L["new"]]
    return vals, new, [7 + (k % 2) for k in range(n)]


def _sens(spec):
    from serif import Vector, Table
    if "long" in spec:
        lv, lnew, lother = _long_vals(spec)
        spec = dict(spec, vals=lv, new=lnew, other=lother)
    vals = H.dvs(spec["vals"])
    spec = dict(spec, vals=vals)
    if "new" in spec:
        spec["new"] = H.dv(spec["new"])
    n = len(vals)
    with warnings.catch_warnings():
        warnings.simplefilter("ignore")
        try:
            v = Vector(list(vals), name="x")
            t = Table([Vector(list(vals), name="x"), Vector(list(spec["other"]), name="y")])
            vb, tb = v.fingerprint(), t.fingerprint()
            path = spec["path"]
            if path == "swap":
                k = spec["swap"]
                new_vals = list(vals)
                new_vals[k], new_vals[k + 1] = new_vals[k + 1], new_vals[k]
                v[k:k + 2] = [new_vals[k], new_vals[k + 1]]
                t[k:k + 2, 0] = [new_vals[k], new_vals[k + 1]]
            else:
                i, new = spec["i"], spec["new"]
                new_vals = list(vals)
                new_vals[i] = new
                if path in ("item", "cell", "view", "attr", "row", "cellname"):
                    v[i] = new
                elif path == "alias":
                    w_ = Vector(list(vals))
                    w_.alias("x")[i] = new                   # written through the handle alias() gives back
                    v[i] = new
                    if w_.fingerprint() != Vector(list(w_)).fingerprint():
                        return {"py_fail": "judged in Python: a vector written through the handle returned by alias() has a stale fingerprint"}
                elif path == "vmask":
                    v[Vector([k == i for k in range(n)])] = new
                elif path == "vilist":
                    v[Vector([i])] = [new]
                elif path == "tuple":
                    v[(i,)] = [new]
                elif path in ("colslot", "tabslot"):
                    v[:] = Vector(list(new_vals))
                elif path == "slice":
                    v[i:i + 1] = [new]
                elif path == "mask":
                    v[[k == i for k in range(n)]] = new
                elif path == "ilistrep":
                    v[[i, i]] = [vals[(i + 1) % n], new]          # one position named twice: the last value stays
                elif path == "ilistneg":
                    v[[i - n, i]] = [vals[(i + 1) % n], new]      # ... once from the end, once from the front
                else:
                    v[[i]] = [new]
                if path == "view":
                    t.cols()[0][i] = new
                elif path == "attr":
                    c = t.x.copy(); c[i] = new; t.x = c
                elif path == "row":
                    t[i] = [new, spec["other"][i]]
                elif path == "vmask":
                    t[Vector([k == i for k in range(n)]), 0] = new
                elif path == "vilist":
                    t[Vector([i]), "x"] = new
                elif path == "tuple":
                    t[i, ("x",)] = [new]
                elif path == "cellname":
                    t[i, "X"] = new
                elif path == "colslot":
                    t[:, 0] = Vector(list(new_vals))
                elif path == "tabslot":
                    t[:] = Table([Vector(list(new_vals)), Vector(list(spec["other"]))])
                else:
                    t[i, 0] = new
            va, ta = v.fingerprint(), t.fingerprint()
            got_v, got_t = list(v), list(t.cols()[0])
        except Exception as e:
            return {"skip": "write refused: " + type(e).__name__}
    if "long" not in spec and [repr(x) for x in got_v] != [repr(x) for x in new_vals] and not _promoted_equal(got_v, new_vals):
        return {"skip": "contents after write are not the plain list assignment (promotion converted elements)"}
    return {"fam": "sens", "case": {"hs": hashes(vals), "hs2": hashes(got_v), "other": hashes(spec["other"]),
                                    "hs2t": hashes(got_t)},
            "impl": {"v_before": vb, "v_after": va, "t_before": tb, "t_after": ta}}


def _promoted_equal(a, b):
    def nan(x):
        return isinstance(x, float) and x != x
    return len(a) == len(b) and all((x is None and y is None) or (nan(x) and nan(y)) or (x is not None and y is not None and x == y)
                                    for x, y in zip(a, b))


def _history(spec):
    w = H.World()
    rng = random.Random(spec.get("seed", 0))
    steps, wsteps = [], []
    given = spec.get("steps")
    n = len(given) if given is not None else spec.get("nsteps", 10)
    fingerprinted, written_after_fp, stale_reads = set(), set(), 0
    with warnings.catch_warnings():
        warnings.simplefilter("ignore")
        for i in range(n):
            if given is not None:
                st = given[i]
                if not H.applicable(w, st):
                    continue
            else:
                st = H.choose_step(rng, w, None, steps[-1] if steps else None)
                st = dict(st)
                live = [k for k, x in enumerate(w.kinds()) if x in ("v", "t")]
                st["fp_slots"] = [k for k in live if rng.random() < 0.5] if rng.random() < 0.4 or i == n - 1 else []
                if i == n - 1:
                    st["fp_slots"] = "all"
            res, extra = H.run_step(w, st)
            if res == "ok":
                H.valid_result(w, st)
            steps.append(st)
            obs = w.observe_all(False)
            m = model_op(st, res, extra, obs)
            if res == "ok" and st["op"] == "fingerprint":
                m = {"m": "noop"}     # re-issued below as an observed call
            if m["m"] in ("mutate", "tabmutate", "setattr") and res == "ok":
                written_after_fp |= fingerprinted
            wsteps.append({"m": m, "desc": {k: v for k, v in st.items() if k != "fp_slots"} | {"res": res}, "obs": [slim(o) for o in obs]})
            slots = st.get("fp_slots", [])
            if st["op"] == "fingerprint" and res == "ok":
                slots = [st["r"]] + (slots if isinstance(slots, list) else [])
            if slots == "all" or (isinstance(slots, list) and "all" in slots):
                slots = list(range(H.NSLOTS))
            for k in slots:
                o = w.slots[k] if 0 <= k < H.NSLOTS else None
                if o is None or w.kinds()[k] not in ("v", "t"):
                    continue
                try:
                    fp = o.fingerprint()
                    rb = H.rebuild(o).fingerprint()
                except Exception as e:
                    return {"py_fail": f"fingerprint() raised {type(e).__name__} on handle {k} after {st}"}
                if k in written_after_fp:
                    stale_reads += 1
                fingerprinted.add(k)
                wsteps.append({"m": {"m": "fingerprint", "r": k}, "desc": {"op": "fingerprint()", "r": k, "res": "ok"},
                               "obs": [slim(x) for x in obs], "fps": [{"slot": k, "fp": fp, "rebuilt": rb}]})
    if any(isinstance(x, (tuple, list, set, dict)) for x in w.intern.vals):
        w.slots = [None] * H.NSLOTS
        return {"skip": "container-valued elements (mixed-type fallback) are not modelled"}
    tbl, nan = hash_table(w.intern)
    w.slots = [None] * H.NSLOTS
    gc.collect()
    for ws in wsteps:
        for o in ws["obs"]:
            if o and o["k"] == "t" and any(isinstance(c["name"], (int, float)) for c in o["cols"]):
                return {"skip": "non-string column name"}
    return {"fam": "history", "case": {"steps": wsteps, "hash": tbl, "nan": nan},
            "impl": {"steps": len(steps), "stale_reads": stale_reads}, "_steps": steps}


def nontrivial(spec, wire):
    if spec["fam"] == "tsens":
        return wire["case"]["cols"] != wire["case"]["cols2"]
    if spec["fam"] == "nested":
        return wire["case"]["hs"] != wire["case"]["hs2"]
    if spec["fam"] == "sens":
        return wire["case"]["hs"] != wire["case"]["hs2"]
    if spec["fam"] == "container":
        return wire["case"]["elems"] != wire["case"]["elems2"] and any(isinstance(e, dict) for e in wire["case"]["elems"])
    return wire["impl"]["stale_reads"] >= 1


def histogram(spec, wire):
    if spec["fam"] == "tsens":
        return ["tsens:" + spec["how"]]
    if spec["fam"] == "nested":
        return ["nested:" + spec["path"]]
    if spec["fam"] == "sens":
        return ["sens:" + spec["path"], "sens:hash-changed" if wire["case"]["hs"] != wire["case"]["hs2"] else "sens:hash-equal"]
    if spec["fam"] == "container":
        kinds = sorted({next(iter(t)) if isinstance(t, dict) else "scalar" for t in spec["elems"][1:]})
        return ["container:" + "+".join(kinds), "container:changed" if wire["case"]["elems"] != wire["case"]["elems2"] else "container:equal"]
    out = []
    for s in wire["case"]["steps"]:
        out.append("op:" + s["desc"]["op"])
    return out


def shrink(spec):
    if spec["fam"] in ("sens", "nested", "tsens", "container"):
        return
    if "steps" not in spec:
        w = _history(spec)
        if "_steps" in w:
            yield {"fam": "history", "steps": w["_steps"]}
        return
    st = spec["steps"]
    for i in range(len(st) - 1, -1, -1):
        yield dict(spec, steps=st[:i] + st[i + 1:])


def snippet(spec):
    if spec["fam"] == "tsens":
        return ("from serif import Vector, Table\n"
                f"t = Table([Vector(c) for c in {spec['cols']!r}]); f0 = t.fingerprint()\n"
                f"# {spec['how']}: {spec.get('a')} <-> {spec.get('b')} {spec.get('new', '')}\n"
                "# write the new cells with one table-level assignment, then: print(f0, t.fingerprint())")
    if spec["fam"] == "nested":
        return (f"from serif import Table\nouter = Table([Table({{'a': {spec['vals']!r}}}), Table({{'c': {spec['other']!r}}})])\n"
                f"f0 = outer.fingerprint(); outer.cols()[0].a[{spec['i']}] = {spec['new']!r}; print(f0, outer.fingerprint())")
    if spec["fam"] == "container":
        return ("from serif import Vector\n"
                f"v = Vector({[_build_tree(t) for t in spec['elems']]!r}); f0 = v.fingerprint()\n"
                f"v[{spec['i']}] = {_build_tree(spec['new'])!r}; print(f0, v.fingerprint())  # sets: also try another insertion order")
    if spec["fam"] == "sens":
        return ("from serif import Vector, Table\n"
                f"v = Vector({spec['vals']!r}); f0 = v.fingerprint()\n"
                + (f"v[{spec['i']}] = {spec['new']!r}\n" if "i" in spec else f"# swap positions {spec.get('swap')} and next\n")
                + "print(f0, v.fingerprint())")
    return H.snippet_history(spec)


def _congruent(spec, wire, verdict):
    """the known gap: the element hashes differ by a non-zero multiple of P = 2**61 - 1 at every changed position"""
    if spec.get("fam") != "sens" or not wire or "case" not in wire:
        return False
    P = (1 << 61) - 1
    a, b = wire["case"]["hs"], wire["case"]["hs2"]
    if len(a) != len(b) or a == b:
        return False
    return all((x - y) % P == 0 for x, y in zip(a, b))


KNOWN = {"C16/hash-congruent-mod-P": _congruent}
