"""Shared generators / execution for the join properties C09, C10, C11.

A generated spec is a small *recipe*:
    {"fam", "kind": inner|left|full, "expect": str, "lk": [key column values …], "rk": […], "v": presentation variant,
     optional "mal": malformed-key recipe, "mm": bool (also run many_to_many), "swap": bool (also run full_join(R, L))}
`expand` turns a recipe deterministically into two real Tables and the left_on / right_on arguments.  The presentation
variant decides payload columns, key position, keys by name / by the table's own column vectors / by vectors that are
not stored in the table, single vs. list form and the naming scheme (equal names on both sides, unnamed columns, a
payload column repeating the key name).

Values inside recipes are JSON-native (int, str, bool, None, float); dates are written "D:YYYY-MM-DD", datetimes
"T:<iso>", complex "C:<re>".
"""
import datetime, itertools, json, os, subprocess, sys
_HARNESS = os.path.dirname(os.path.dirname(os.path.abspath(__file__)))
if _HARNESS not in sys.path:
    sys.path.insert(0, _HARNESS)
_SRC = os.path.join(os.environ.get("SERIF_REPO", "/repo"), "src")
if _SRC not in sys.path:
    sys.path.insert(0, _SRC)
from values import Interner, dtype_wire, err_class

EXPECTS = ["one_to_one", "many_to_one", "one_to_many", "many_to_many"]
BAD_EXPECTS = ["one_to_on", "", "ONE_TO_ONE", "many_to_many ", "inner", "1:1"]
METHOD = {"inner": "inner_join", "left": "join", "full": "full_join"}
SWAP_EXPECT = {"one_to_one": "one_to_one", "many_to_one": "one_to_many", "one_to_many": "many_to_one",
               "many_to_many": "many_to_many"}
NVARIANTS = 3 * 3 * 4 * 2 * 2 * 4


# ------------------------------------------------------------------------------------------------
# values
# ------------------------------------------------------------------------------------------------

def dec(v):
    if isinstance(v, str):
        if v.startswith("D:"):
            return datetime.date.fromisoformat(v[2:])
        if v.startswith("T:"):
            return datetime.datetime.fromisoformat(v[2:])
        if v.startswith("C:"):
            return complex(float(v[2:]), 1.0)
        if v.startswith("M:"):
            import decimal
            return decimal.Decimal(v[2:])
        if v.startswith("Q:"):
            import fractions
            return fractions.Fraction(v[2:])
    return v


def pyrepr(v):
    return repr(dec(v))


POOLS = {
    "int3": [0, 1, None],
    "int": [0, 1, 2, 3, 7, -1, 10 ** 12, None],
    # incl. two DIFFERENT Python strings that are canonically equivalent under Unicode normalisation (NFC 'é' vs NFD 'e'+U+0301):
    # key equality is Python's ==, not equivalence after normalisation
    "str": ["a", "b", "", "ab", "A", "\u00e9", "e\u0301", None],
    "bool": [True, False, None],
    "date": ["D:2020-01-01", "D:2020-01-02", "D:1999-12-31", None],
    "datetime": ["T:2020-01-01T00:00:00", "T:2020-01-01T12:30:00", None],
    "boolint": [True, False, 0, 1, 2, None],          # int column in which True == 1 and False == 0 must match
    # distinct keys with EQUAL Python hashes (hash(-1) == hash(-2); ints differing by 2**61-1): anything that identifies a key
    # by its hash instead of the key itself confuses them
    "intcollide": [-1, -2, 5, 5 + (2 ** 61 - 1), None],
    "object": [1, "1", "a", True, "D:2020-01-01", None],   # mixed kinds: an object column
    # an object column whose keys are EQUAL across exact types (1 == 1.0 == True == Decimal(1) == Fraction(1), 0 == 0.0 == -0.0):
    # key equality is Python's ==, the cells carried along keep their own type
    "numeq": [1, 1.0, True, "M:1", "Q:1", 0, 0.0, -0.0, "M:2.50", 2.5, "x", None],
}


# ------------------------------------------------------------------------------------------------
# recipe -> real inputs
# ------------------------------------------------------------------------------------------------

def _variant(v):
    return {"lp": v % 3, "rp": (v // 3) % 3, "mode": (v // 9) % 4, "after": (v // 36) % 2,
            "listform": (v // 72) % 2, "naming": (v // 144) % 4}


def _payload(side, c, n):
    if c == 0:
        return [100 * (side + 1) + i for i in range(n)]
    pat = [None, 1.5, 7] if side == 0 else ["p", None, "q"]
    return [pat[i % 3] for i in range(n)]


def _side(spec, side):
    """-> (column list [(name, values)], on-argument description) for one side"""
    var = _variant(spec.get("v", 0))
    keys = spec["lk" if side == 0 else "rk"]
    n = len(keys[0]) if keys else 0
    nk = len(keys)
    mode = var["mode"]
    if mode == 3:
        mode = 0 if side == 0 else 1
    npl = var["lp" if side == 0 else "rp"]
    if mode == 2 and npl == 0:
        npl = 1          # keys live outside the table: keep one stored column so that the table has rows
    naming = var["naming"]
    kname = (lambda i: f"k{i}") if (side == 0 or naming != 1) else (lambda i: f"r{i}")
    if naming == 0:
        pname = lambda c: f"{'x' if side == 0 else 'y'}{c}"
    elif naming == 1:
        pname = lambda c: f"x{c}"
    elif naming == 3:
        # a payload column whose name differs from the key name only by case ('K0' vs 'k0'): both sanitise to the same
        # accessor; a key given BY NAME must still resolve to the column that carries exactly that name
        pname = lambda c: "K0" if c == 0 else f"{'x' if side == 0 else 'y'}{c}"
    else:
        pname = lambda c: None if c == 0 else "k0"     # unnamed column / a later column repeating the key name
    payload = [(pname(c), _payload(side, c, n)) for c in range(npl)]
    keycols = [(kname(i), list(keys[i])) for i in range(nk)]
    if mode == 2:
        cols = payload
    elif var["after"] and naming != 2:
        cols = payload + keycols
    else:
        cols = keycols + payload     # naming 2: the key column comes first, so the repeated name resolves to it
    if mode == 0:
        specs = [{"name": kname(i)} for i in range(nk)]
    elif mode == 1:
        off = len(payload) if (var["after"] and naming != 2) else 0
        specs = [{"col": off + i} for i in range(nk)]
    else:
        # an external key vector may carry the NAME of a stored column (a derived key such as t.k.fillna(0) keeps its source's
        # name): the join must go by the vector's values, not by the stored column of that name
        pnames = [nm for nm, _ in payload if isinstance(nm, str)]
        specs = [dict({"vec": list(keys[i])}, **({"vname": pnames[i % len(pnames)]} if pnames and spec.get("v", 0) % 2 == 0 else {}))
                 for i in range(nk)]
    form = "list" if (nk != 1 or var["listform"]) else "single"
    return cols, {"form": form, "specs": specs}


def _apply_malformed(spec, sides):
    """malformed-key stream: mutate the on-arguments / key columns of a valid recipe"""
    mal = spec.get("mal")
    if not mal:
        return
    (lc, lon), (rc, ron) = sides
    kind = mal["what"]
    tgt_cols, tgt = (lc, lon) if mal.get("side", 0) == 0 else (rc, ron)
    if kind == "missing":
        tgt["specs"][0] = {"name": "zz"}
    elif kind == "wronglen":
        n = len(tgt_cols[0][1]) if tgt_cols else 0
        tgt["specs"][0] = {"vec": [0] * (n + 1 + mal.get("extra", 0))}
    elif kind == "shortlen":
        n = len(tgt_cols[0][1]) if tgt_cols else 0
        tgt["specs"][0] = {"vec": [0] * max(0, n - 1)} if n else {"vec": [0]}
    elif kind == "emptylist":
        tgt["form"], tgt["specs"] = "list", []
    elif kind == "bothempty":
        lon["form"], lon["specs"] = "list", []
        ron["form"], ron["specs"] = "list", []
    elif kind == "unequal":
        tgt["form"] = "list"
        tgt["specs"] = tgt["specs"] + [dict(tgt["specs"][0])]
    elif kind == "tuple":
        tgt["form"] = "other"
    elif kind == "badspec":
        tgt["form"] = "list"
        tgt["specs"][0] = {"bad": 1}
    # float / complex / mismatched kinds are expressed through the key values themselves


def expand(spec):
    """-> dict(L, R, lon, ron: python call arguments; cols/ons: descriptions)"""
    from serif import Vector, Table
    sides = [_side(spec, 0), _side(spec, 1)]
    _apply_malformed(spec, sides)
    tabs, ons, onvecs = [], [], []
    for cols, on in sides:
        vecs = [Vector([dec(x) for x in vals], name=nm) for nm, vals in cols]
        t = Table(vecs) if vecs else Table(())
        tabs.append(t)
    for t, (cols, on) in zip(tabs, sides):
        args = []
        for s in on["specs"]:
            if "name" in s:
                args.append(s["name"])
            elif "col" in s:
                args.append(t.cols()[s["col"]])
            elif "vec" in s:
                args.append(Vector([dec(x) for x in s["vec"]], name=s.get("vname")))
            else:
                args.append(0)
        onvecs.append(args)
        if on["form"] == "single":
            ons.append(args[0])
        elif on["form"] == "list":
            ons.append(list(args))
        else:
            ons.append(tuple(args))
    if spec.get("self"):
        # a table joined with itself on the very same key arguments (the same column objects on both sides)
        return {"L": tabs[0], "R": tabs[0], "lon": ons[0], "ron": ons[0], "sides": [sides[0], sides[0]], "onvecs": [onvecs[0], onvecs[0]]}
    return {"L": tabs[0], "R": tabs[1], "lon": ons[0], "ron": ons[1], "sides": sides, "onvecs": onvecs}


def self_joins(prefix, kinds=("inner", "left", "full"), expects=None):
    """a table joined with itself on the same key columns: every key pattern of up to four rows over two values and None, every
    kind and expectation, keys by name / own vector"""
    import itertools
    expects = expects or EXPECTS
    i = 0
    for n in (0, 1, 2, 3, 4):
        for ks in itertools.product([1, 2, None], repeat=n):
            if n == 4 and len(set(ks)) == 1 and ks[0] == 2:
                continue
            for kind in kinds:
                for e in expects:
                    i += 1
                    yield {"fam": prefix + ".self", "kind": kind, "expect": e, "lk": [list(ks)], "rk": [list(ks)], "v": (0, 1, 5)[i % 3],
                           "mm": True, "self": True}


# ------------------------------------------------------------------------------------------------
# observation
# ------------------------------------------------------------------------------------------------

def _snapshot(t):
    cols = list(t.cols())
    return ([[(type(x).__name__, repr(x)) for x in c] for c in cols], list(t.column_names()),
            [repr(c.schema()) for c in cols], len(t))


def _outcome(itn, fn):
    try:
        r = fn()
    except Exception as e:          # exceptions of the code under test are observations
        return {"err": err_class(e)}
    cols = list(r.cols())
    return {"names": list(r.column_names()), "cols": [[itn.uid(x) for x in c] for c in cols],
            "dtypes": [dtype_wire(c.schema()) for c in cols]}


def _tab_wire(itn, t):
    return {"names": list(t.column_names()), "cols": [itn.wires(list(c)) for c in t.cols()]}


def _on_wire(itn, on, args):
    specs = []
    for s, a in zip(on["specs"], args):
        if "name" in s:
            specs.append({"name": s["name"]})
        elif "col" in s or "vec" in s:
            specs.append({"vec": itn.wires(list(a))})
        else:
            specs.append({"bad": True})
    return {"form": on["form"], "specs": specs}


def _warm(spec, x):
    """a join result must not depend on earlier calls: build the tables with the pre-edit key cells, run a first join
    (its outcome is not judged here), then write the final key cells IN PLACE through the live key columns/vectors.
    Anything the first call cached on the tables or key vectors is now stale."""
    warm = spec.get("warm")
    if not warm:
        return
    import warnings
    L, R = x["L"], x["R"]
    meth = METHOD[spec["kind"]]
    try:
        getattr(L, warm.get("first_kind") and METHOD[warm["first_kind"]] or meth)(R, x["lon"], x["ron"], expect=warm.get("first_expect", spec["expect"]))
    except Exception:
        pass
    for side, j, i, _old in warm["edits"]:
        t = (L, R)[side]
        on = x["sides"][side][1]["specs"][j]
        if "name" in on:
            col = t[on["name"]]
        elif "col" in on:
            col = t.cols()[on["col"]]
        else:
            col = x["onvecs"][side][j]
        final = dec(spec[("lk", "rk")[side]][j][i])
        with warnings.catch_warnings():
            warnings.simplefilter("ignore")
            try:
                col[i] = final
            except Exception:
                return "the in-place key edit was refused"


def _pre_edit(spec):
    """the spec with the warm edits undone (what the tables hold before the first call)"""
    warm = spec.get("warm")
    if not warm:
        return spec
    pre = dict(spec, lk=[list(c) for c in spec["lk"]], rk=[list(c) for c in spec["rk"]])
    for side, j, i, old in warm["edits"]:
        pre[("lk", "rk")[side]][j][i] = old
    return pre


def add_warm(rng, spec):
    """turn a (well-formed, non-empty) case into a warm case: one key cell per edit had another value of the same kind
    before the first call"""
    if spec.get("mal"):
        return spec
    side = rng.choice([0, 1, 1])
    cols = spec[("lk", "rk")[side]]
    if not cols or not cols[0]:
        return spec
    edits = []
    for _ in range(rng.choice([1, 1, 2])):
        j = rng.randrange(len(cols))
        i = rng.randrange(len(cols[j]))
        cur = dec(cols[j][i])
        if cur is None or isinstance(cur, bool):
            continue
        kinds = {type(dec(v)) for v in cols[j] if v is not None}
        if len(kinds) != 1:
            continue                       # mixed-kind (object) key columns are not edited
        pool = [v for v in cols[j] + spec[("rk", "lk")[side]][j] if v is not None and type(dec(v)) is type(cur) and dec(v) != cur]
        if isinstance(cols[j][i], int):
            pool += [cols[j][i] + 11, cols[j][i] + 12]
        if not pool:
            continue
        edits.append([side, j, i, rng.choice(pool)])
    if not edits:
        return spec
    return dict(spec, fam=spec["fam"].split(".")[0] + ".warm",
                warm={"edits": edits, "first_expect": rng.choice(EXPECTS), "first_kind": rng.choice([None, None, "inner", "left", "full"])})


def scripted_warm(prefix, kinds=("inner", "left", "full"), expects=None, variants=(0, 1, 2, 5)):
    """deterministic warm cases: an earlier join (every kind x every expectation) on tables whose keys are unique / duplicated,
    then ONE in-place key edit that creates or removes a duplicate on the left or on the right, then the judged call under every
    expectation.  Whatever the first call remembered about uniqueness, buckets or pairs is stale for the judged one."""
    expects = expects or EXPECTS
    scenes = [  # (final lk, final rk, edit)
        ([1, 2, 3], [1, 1, 4], [1, 0, 1, 2]),      # right: unique -> duplicate (matching)
        ([1, 2, 3], [1, 4, 4], [1, 0, 2, 5]),      # right: unique -> duplicate among unmatched rows
        ([1, 2, 3], [1, 2, 4], [1, 0, 1, 1]),      # right: duplicate -> unique
        ([1, 1, 3], [1, 2, 4], [0, 0, 1, 2]),      # left: unique -> duplicate
        ([1, 2, 3], [1, 2, 4], [0, 0, 1, 1]),      # left: duplicate -> unique
        ([1, 2, 3], [3, 2, 1], [1, 0, 0, 5]),      # right: a match appears
        # the same with edits between *hash-equal* values (hash(-1) == hash(-2), hash(n) == hash(n + 2**61 - 1)): whatever the
        # first call remembered under a content hash / fingerprint of the key column looks current and is not
        ([-1, -2, 3], [-2, -2, 4], [1, 0, 0, -1]),                     # right: unique -> duplicate
        ([-1, -2, 3], [-1, -2, 4], [1, 0, 0, -2]),                     # right: duplicate -> unique
        ([-2, -2, 3], [-1, -2, 4], [0, 0, 0, -1]),                     # left: unique -> duplicate
        ([-1, -2, 3], [-1, -2, 4], [0, 0, 0, -2]),                     # left: duplicate -> unique
        ([5, 7, 8], [5, 5, 9], [1, 0, 1, 5 + 2 ** 61 - 1]),            # right: unique -> duplicate
        ([5, 7, 8], [5, 5 + 2 ** 61 - 1, 9], [1, 0, 1, 5]),            # right: duplicate -> unique
        ([-1, 7, 3], [-2, 7, 4], [1, 0, 0, -1]),                       # right: a match disappears
        ([-1, 7, 3], [-1, 7, 4], [0, 0, 0, -2]),                       # left: a match appears
    ]
    i = 0
    for kind in kinds:
        for first_kind in (None, "inner" if kind != "inner" else "full"):
            for first_expect in EXPECTS:
                for lk, rk, edit in scenes:
                    for e in expects:
                        i += 1
                        yield {"fam": prefix + ".warm", "kind": kind, "expect": e, "lk": [list(lk)], "rk": [list(rk)],
                               "v": variants[i % len(variants)], "mm": True,
                               "warm": {"edits": [list(edit)], "first_expect": first_expect, "first_kind": first_kind}}


def execute(spec):
    x = expand(_pre_edit(spec))
    refused = _warm(spec, x)
    if refused:
        return {"skip": refused}
    L, R = x["L"], x["R"]
    itn = Interner()
    case = {"kind": spec["kind"], "expect": spec["expect"], "L": _tab_wire(itn, L), "R": _tab_wire(itn, R),
            "lon": _on_wire(itn, x["sides"][0][1], x["onvecs"][0]), "ron": _on_wire(itn, x["sides"][1][1], x["onvecs"][1])}
    def _args():
        return [(type(a).__name__, len(a), [id(e) for e in a]) if isinstance(a, (list, tuple)) else None
                for a in (x["lon"], x["ron"])]
    before = (_snapshot(L), _snapshot(R), [_vsnap(a) for a in x["onvecs"][0] + x["onvecs"][1]], _args())
    meth = METHOD[spec["kind"]]
    impl = {"out": _outcome(itn, lambda: getattr(L, meth)(R, x["lon"], x["ron"], expect=spec["expect"]))}
    if spec.get("mm") and spec["expect"] != "many_to_many":
        impl["mm"] = _outcome(itn, lambda: getattr(L, meth)(R, x["lon"], x["ron"], expect="many_to_many"))
    if spec.get("swap") and spec["kind"] == "full":
        impl["swap"] = _outcome(itn, lambda: R.full_join(L, x["ron"], x["lon"],
                                                          expect=SWAP_EXPECT.get(spec["expect"], spec["expect"])))
    after = (_snapshot(L), _snapshot(R), [_vsnap(a) for a in x["onvecs"][0] + x["onvecs"][1]], _args())
    w = {"fam": spec["fam"], "case": case, "impl": impl}
    if before != after:
        w["py_fail"] = "an input (table cells, names, dtypes, a key vector or a key list) changed during the join call"
    return w


def _vsnap(a):
    try:
        return ([(type(v).__name__, repr(v)) for v in a], repr(a.schema()), a.name)
    except Exception:
        return repr(a)


# ------------------------------------------------------------------------------------------------
# classification for the evidence
# ------------------------------------------------------------------------------------------------

def _keyrows(spec, which):
    cols = spec[which]
    n = len(cols[0]) if cols else 0
    return [tuple(pyrepr(c[i]) for c in cols) for i in range(n)]


def nontrivial(spec, wire):
    """both sides non-empty, the call returned rows, and the key lists are not both duplicate-free-and-disjoint
    (some match or some duplicate exists); for expectation cases: any case with a duplicate key on some side"""
    out = wire["impl"]["out"]
    lk, rk = _keyrows(spec, "lk"), _keyrows(spec, "rk")
    dup = len(set(lk)) < len(lk) or len(set(rk)) < len(rk)
    if spec.get("mm") or spec["expect"] != "many_to_many":
        return bool(lk) and bool(rk) and dup
    if "err" in out:
        return False
    return bool(lk) and bool(rk) and (dup or bool(set(lk) & set(rk)))


def _size(n):
    return "0" if n == 0 else "1" if n == 1 else "2-3" if n <= 3 else "4-10" if n <= 10 else "11+"


def histogram(spec, wire):
    out = wire["impl"]["out"]
    lk, rk = _keyrows(spec, "lk"), _keyrows(spec, "rk")
    var = _variant(spec.get("v", 0))
    h = [f"{spec['kind']}:{spec['expect'] if spec['expect'] in EXPECTS else 'invalid-expect'}",
         f"rows:L{_size(len(lk))}xR{_size(len(rk))}", f"keycols:{len(spec['lk'])}",
         "keys-by:" + ["name", "own-vector", "external-vector", "name/vector"][var["mode"]],
         "outcome:" + ("err-" + out["err"] if "err" in out else "rows" + _size(len(out["cols"][0]) if out["cols"] else 0))]
    if spec.get("mal"):
        h.append("malformed:" + spec["mal"]["what"])
    if len(set(lk)) < len(lk):
        h.append("dup-left")
    if len(set(rk)) < len(rk):
        h.append("dup-right")
    if lk and rk and not (set(lk) & set(rk)):
        h.append("no-match")
    if set(rk) - set(lk) and len([k for k in rk if k not in set(lk)]) > len(set(rk) - set(lk)):
        h.append("dup-among-unmatched-right")
    if set(lk) - set(rk) and len([k for k in lk if k not in set(rk)]) > len(set(lk) - set(rk)):
        h.append("dup-among-unmatched-left")
    return h


# ------------------------------------------------------------------------------------------------
# shrinking, snippet
# ------------------------------------------------------------------------------------------------

def shrink(spec):
    for which in ("lk", "rk"):
        cols = spec[which]
        n = len(cols[0]) if cols else 0
        for i in range(n):
            yield dict(spec, **{which: [c[:i] + c[i + 1:] for c in cols]})
    if len(spec["lk"]) > 1 and not spec.get("mal"):
        for j in range(len(spec["lk"])):
            yield dict(spec, lk=spec["lk"][:j] + spec["lk"][j + 1:], rk=spec["rk"][:j] + spec["rk"][j + 1:])
    v = spec.get("v", 0)
    if v:
        yield dict(spec, v=0)
        var = _variant(v)
        mult = {"lp": 1, "rp": 3, "mode": 9, "after": 36, "listform": 72, "naming": 144}
        for k, m in mult.items():
            if var[k]:
                yield dict(spec, v=v - var[k] * m)
    for which in ("lk", "rk"):
        cols = spec[which]
        for j, c in enumerate(cols):
            for i, x in enumerate(c):
                if x not in (0, None) and isinstance(x, int) and not isinstance(x, bool):
                    yield dict(spec, **{which: cols[:j] + [c[:i] + [0] + c[i + 1:]] + cols[j + 1:]})
    if spec.get("mm"):
        yield dict(spec, mm=False)
    if spec.get("swap"):
        yield dict(spec, swap=False)


def snippet(spec):
    sides = [_side(spec, 0), _side(spec, 1)]
    _apply_malformed(spec, sides)
    lines = ["from serif import Table, Vector", "import datetime"]
    onsrc = []
    for nm, (cols, on) in zip("LR", sides):
        vs = ", ".join(f"Vector([{', '.join(pyrepr(x) for x in vals)}], name={n!r})" for n, vals in cols)
        lines.append(f"{nm} = Table([{vs}])" if cols else f"{nm} = Table(())")
        args = []
        for s in on["specs"]:
            if "name" in s:
                args.append(repr(s["name"]))
            elif "col" in s:
                args.append(f"{nm}.cols()[{s['col']}]")
            elif "vec" in s:
                args.append(f"Vector([{', '.join(pyrepr(x) for x in s['vec'])}])")
            else:
                args.append("0")
        onsrc.append(args[0] if on["form"] == "single" else
                     "[" + ", ".join(args) + "]" if on["form"] == "list" else "(" + ", ".join(args) + ",)")
    call = f"L.{METHOD[spec['kind']]}(R, {onsrc[0]}, {onsrc[1]}, expect={spec['expect']!r})"
    lines.append(f"r = {call}")
    lines.append("print(r.column_names(), [list(c) for c in r.cols()], [c.schema() for c in r.cols()])")
    if spec.get("swap"):
        lines.append(f"s = R.full_join(L, {onsrc[1]}, {onsrc[0]}, expect={SWAP_EXPECT.get(spec['expect'], spec['expect'])!r})"
                     "   # same rows up to column and row order")
    if spec.get("mm"):
        lines.append(f"# compare with expect='many_to_many'")
    return "\n".join(lines)


# ------------------------------------------------------------------------------------------------
# generators
# ------------------------------------------------------------------------------------------------

def key_columns(pool, nk, n):
    """all assignments of `nk` key columns with `n` rows over `pool` (column-major)"""
    for flat in itertools.product(pool, repeat=nk * n):
        yield [list(flat[c * n:(c + 1) * n]) for c in range(nk)]


def small_pairs(pool, nk, maxl, maxr):
    """every pair of key-column sets with ≤ maxl / ≤ maxr rows"""
    for nl in range(maxl + 1):
        for nr in range(maxr + 1):
            rks = list(key_columns(pool, nk, nr))
            for lk in key_columns(pool, nk, nl):
                for rk in rks:
                    yield lk, rk


def _colkind(col):
    """the kind serif infers for a key column (None for an empty column), mirrored only to steer generation"""
    if not col:
        return None
    ts = {type(dec(x)).__name__ for x in col if x is not None}
    if not ts:
        return "object"
    if ts <= {"bool"}:
        return "bool"
    if ts <= {"bool", "int"}:
        return "int"
    if len(ts) == 1:
        return ts.pop()
    if ts <= {"date", "datetime"}:
        return "datetime"
    return "object"


def random_keys(rng, nmax=40):
    """random structured key columns for both sides: 1–3 key columns, each of one kind (the same on both sides),
    values from a tiny slice of that kind's pool so that duplicates, matches and None are frequent.  A column pair
    whose two sides would be typed differently (refused by key validation) is redrawn a few times."""
    nk = rng.choice([1, 1, 2, 2, 3])
    nl = rng.choice([0, 1, 2, 3, 5, 8, 13, 21, nmax])
    nr = rng.choice([0, 1, 2, 3, 5, 8, 13, 21, nmax])
    nl, nr = rng.randint(0, nl), rng.randint(0, nr)
    if rng.random() < 0.02:
        # now and then one side (or both) is long, also much longer than the other (size-triggered strategies)
        nl, nr = rng.choice([(70, 3), (3, 70), (130, 130), (1, 260), (260, 2), (65, 17)])
    lk, rk = [], []
    for _ in range(nk):
        for attempt in range(6):
            kind = rng.choice(["int", "int", "str", "str", "bool", "date", "datetime", "boolint", "object", "intcollide", "intcollide", "numeq"])
            pool = rng.sample(POOLS[kind], rng.randint(1, min(4 if kind != "numeq" else 6, len(POOLS[kind]))))
            if all(p is None for p in pool):
                pool = pool + [next(p for p in POOLS[kind] if p is not None)]
            cl = [rng.choice(pool) for _ in range(nl)]
            cr = [rng.choice(pool) for _ in range(nr)]
            if kind == "numeq":
                # a string among the numbers keeps the column an object column on both sides (a float column is refused as a key)
                for c in (cl, cr):
                    if c:
                        c[rng.randrange(len(c))] = "x"
            kl, kr = _colkind(cl), _colkind(cr)
            if kl is None or kr is None or kl == kr:
                break
        lk.append(cl)
        rk.append(cr)
    return lk, rk


def unique_keys(rng, nmax=12):
    """key columns with unique rows on a chosen side (so that strict expectations succeed often)"""
    nk = rng.choice([1, 2])
    base = list(itertools.product([0, 1, 2, 3, None], repeat=nk))
    rng.shuffle(base)

    def side(unique):
        n = rng.randint(0, nmax)
        rows = base[:n] if unique else [rng.choice(base[:max(1, n // 2)]) for _ in range(n)]
        rows = list(rows)
        rng.shuffle(rows)
        return [[r[c] for r in rows] for c in range(nk)]
    return side(rng.random() < 0.7), side(rng.random() < 0.7)


def interleave(gens, block=64):
    """round-robin blocks from several generators until all are exhausted, so that a run cut short by its time
    budget has seen a proportional part of every family"""
    gens = [iter(g) for g in gens]
    while gens:
        alive = []
        for g in gens:
            chunk = list(itertools.islice(g, block))
            yield from chunk
            if len(chunk) == block:
                alive.append(g)
        gens = alive


MALFORMED = ["missing", "wronglen", "shortlen", "emptylist", "bothempty", "unequal", "tuple", "badspec",
             "float", "complex", "mismatch", "allnone"]


def malformed_stream(rng, kinds, count, fam):
    for i in range(count):
        what = MALFORMED[i % len(MALFORMED)]
        kind = kinds[(i // len(MALFORMED)) % len(kinds)]
        nl, nr = rng.randint(0, 4), rng.randint(0, 4)
        lk = [[rng.choice([0, 1, 2]) for _ in range(nl)]]
        rk = [[rng.choice([0, 1, 2]) for _ in range(nr)]]
        side = rng.randint(0, 1)
        tgt = lk if side == 0 else rk
        if what == "float":
            tgt[0] = [rng.choice([0.5, 1.0, 2.0]) for _ in tgt[0]] or [0.5]
            if side == 0 and not lk[0]: pass
        elif what == "complex":
            tgt[0] = ["C:1" for _ in tgt[0]] or ["C:1"]
        elif what == "mismatch":
            tgt[0] = [rng.choice(["a", "b"]) for _ in tgt[0]] or ["a"]
            other = rk if side == 0 else lk
            if not other[0]:
                other[0] = [1]
        elif what == "allnone":
            tgt[0] = [None for _ in tgt[0]] or [None]
            other = rk if side == 0 else lk
            if not other[0]:
                other[0] = [1]
        v = rng.randrange(NVARIANTS)
        if what in ("missing",):
            v = v - ((v // 9) % 4) * 9          # keys by name
        yield {"fam": fam, "kind": kind, "expect": rng.choice(EXPECTS), "lk": lk, "rk": rk, "v": v,
               "mal": {"what": what, "side": side, "extra": rng.randint(0, 2)}}


# ------------------------------------------------------------------------------------------------
# hash-seed independence (thorough tier): the same string-keyed cases in fresh interpreters
# ------------------------------------------------------------------------------------------------

def hashseed_batch(seed, count):
    """deterministic batch of string-keyed recipes"""
    import random
    rng = random.Random(seed)
    out = []
    for i in range(count):
        nk = rng.choice([1, 2])
        pool = rng.sample(["a", "b", "c", "ab", "ba", "", "é", "zz", None], rng.randint(2, 5))
        nl, nr = rng.randint(1, 12), rng.randint(1, 12)
        lk = [[rng.choice(pool) for _ in range(nl)] for _ in range(nk)]
        rk = [[rng.choice(pool) for _ in range(nr)] for _ in range(nk)]
        for col_l, col_r in zip(lk, rk):        # keep the columns typed str on both sides
            if all(x is None for x in col_l): col_l[0] = "a"
            if all(x is None for x in col_r): col_r[0] = "a"
        out.append({"fam": "hashseed", "kind": ["inner", "left", "full"][i % 3], "expect": "many_to_many",
                    "lk": lk, "rk": rk, "v": rng.randrange(NVARIANTS)})
    return out


def canonical_outputs(specs):
    """canonical (interner-free) outputs of a batch: names, typed reprs of cells, dtypes, or the error class"""
    res = []
    for s in specs:
        x = expand(s)
        try:
            r = getattr(x["L"], METHOD[s["kind"]])(x["R"], x["lon"], x["ron"], expect=s["expect"])
            res.append([list(map(str, r.column_names())), [[type(v).__name__ + ":" + repr(v) for v in c] for c in r.cols()],
                        [repr(c.schema()) for c in r.cols()]])
        except Exception as e:
            res.append(["err", err_class(e)])
    return res


def hashseed_check(seed, count, seeds=(0, 1, 2, 4242)):
    """-> None if every interpreter produced the same canonical outputs, else a description"""
    here = os.path.dirname(os.path.abspath(__file__))
    ref = json.dumps(canonical_outputs(hashseed_batch(seed, count)))
    for hs in seeds:
        env = dict(os.environ, PYTHONHASHSEED=str(hs))
        p = subprocess.run([sys.executable, os.path.join(here, "joincommon.py"), str(seed), str(count)],
                           stdout=subprocess.PIPE, stderr=subprocess.PIPE, text=True, env=env, timeout=300)
        if p.returncode != 0:
            raise RuntimeError("hash-seed subprocess failed: " + p.stderr[-500:])
        if p.stdout.strip() != ref:
            got = json.loads(p.stdout)
            mine = json.loads(ref)
            idx = next((i for i, (a, b) in enumerate(zip(got, mine)) if a != b), -1)
            return f"output under PYTHONHASHSEED={hs} differs from this interpreter's (batch seed {seed}, case {idx})"
    return None


if __name__ == "__main__":
    # child mode of hashseed_check: print the canonical outputs of the batch
    import warnings
    warnings.simplefilter("ignore")
    print(json.dumps(canonical_outputs(hashseed_batch(int(sys.argv[1]), int(sys.argv[2])))))
