"""Shared generators / execution for the join properties C09, C10, C11.

A generated spec is a small *recipe*:
    {"fam", "kind": inner|left|full, "expect": str, "lk": [key column values …], "rk": […], "v": presentation variant,
     optional "mal": malformed-key recipe, "mm": bool (also run many_to_many), "swap": bool (also run full_join(R, L))}
`expand` turns a recipe deterministically into two real Tables and the left_on / right_on arguments.  The presentation
variant decides payload columns, key position, keys by name / by the table's own column vectors / by vectors that are
not stored in the table, single vs. list form and the naming scheme (equal names on both sides, unnamed columns, a
payload column repeating the key name).

Values inside recipes are JSON-native (int, str, bool, None, float); dates are written "D:YYYY-MM-DD", datetimes
"T:<iso>", complex "C:<re>".
"""
import datetime, itertools, json, os, subprocess, sys
_HARNESS = os.path.dirname(os.path.dirname(os.path.abspath(__file__)))
if _HARNESS not in sys.path:
    sys.path.insert(0, _HARNESS)
_SRC = os.path.join(os.environ.get("SERIF_REPO", "/repo"), "src")
if _SRC not in sys.path:
    sys.path.insert(0, _SRC)
from values import Interner, dtype_wire, err_class

EXPECTS = ["one_to_one", "many_to_one", "one_to_many", "many_to_many"]
BAD_EXPECTS = ["one_to_on", "", "ONE_TO_ONE", "many_to_many ", "inner", "1:1"]
METHOD = {"inner": "inner_join", "left": "join", "full": "full_join"}
SWAP_EXPECT = {"one_to_one": "one_to_one", "many_to_one": "one_to_many", "one_to_many": "many_to_one",
               "many_to_many": "many_to_many"}
NVARIANTS = 3 * 3 * 4 * 2 * 2 * 4


# ------------------------------------------------------------------------------------------------
# values
# ------------------------------------------------------------------------------------------------

def dec(v):
    if isinstance(v, str):
        if v.startswith("D:"):
            return datetime.date.fromisoformat(v[2:])
        if v.startswith("T:"):
            return datetime.datetime.fromisoformat(v[2:])
        if v.startswith("C:"):
            return complex(float(v[2:]), 1.0)
        if v.startswith("M:"):
            import decimal
            return decimal.Decimal(v[2:])
        if v.startswith("Q:"):
            import fractions
            return fractions.Fraction(v[2:])
    return v


def pyrepr(v):
    return repr(dec(v))


POOLS = {
    "int3": [0, 1, None],
    "int": [0, 1, 2, 3, 7, -1, 10 ** 12, None],
    # incl. two DIFFERENT Python strings that are canonically equivalent under Unicode normalisation (NFC 'é' vs NFD 'e'+U+0301):
    # key equality is Python's ==, not equivalence after normalisation
    "str": ["a", "b", "", "ab", "A", "\u00e9", "e\u0301", None],
    "bool": [True, False, None],
    "date": ["D:2020-01-01", "D:2020-01-02", "D:1999-12-31", None],
    "datetime": ["T:2020-01-01T00:00:00", "T:2020-01-01T12:30:00", None],
    "boolint": [True, False, 0, 1, 2, None],          # int column in which True == 1 and False == 0 must match
    # distinct keys with EQUAL Python hashes (hash(-1) == hash(-2); ints differing by 2**61-1): anything that identifies a key
    # by its hash instead of the key itself confuses them
    "intcollide": [-1, -2, 5, 5 + (2 ** 61 - 1), None],
    "object": [1, "1", "a", True, "D:2020-01-01", None],   # mixed kinds: an object column
    # an object column whose keys are EQUAL across exact types (1 == 1.0 == True == Decimal(1) == Fraction(1), 0 == 0.0 == -0.0):
    # key equality is Python's ==, the cells carried along keep their own type
    "numeq": [1, 1.0, True, "M:1", "Q:1", 0, 0.0, -0.0, "M:2.50", 2.5, "x", None],
    # a datetime column that also holds raw dates (documented widening): date(2020,1,1) and datetime(2020,1,1,0,0) are
    # DIFFERENT keys (Python ==/hash), as are two datetimes that differ only in microseconds / fold
    "datemix": ["D:2020-01-01", "T:2020-01-01T00:00:00", "T:2020-01-01T00:00:00.000001", "D:2020-01-02", "T:2020-01-02T00:00:00", None],
}

# names a key column may carry (looked up by their exact spelling): blanks, a leading digit, upper case, non-ASCII, names of
# Table/Vector attributes and methods, a trailing blank.  All of them are found by the exact-match pass of Table.__getitem__.
FANCY_NAMES = ["Key 0", "k-0", "0k", "cols", "join", "name", "\u043a\u043b\u044e\u0447", "k0 ", "KEY", "_k", "k__1", "T", "shape", "a.b"]

# expect arguments that are not strings at all (the wire carries the placeholder, the call gets the object)
EXPECT_OBJECTS = {"<None>": None, "<0>": 0, "<1>": 1, "<True>": True, "<bytes>": b"one_to_one", "<tuple>": ("one_to_one",),
                  "<list>": ["many_to_many"], "<float>": 1.0}


# ------------------------------------------------------------------------------------------------
# recipe -> real inputs
# ------------------------------------------------------------------------------------------------

def _variant(v):
    return {"lp": v % 3, "rp": (v // 3) % 3, "mode": (v // 9) % 4, "after": (v // 36) % 2,
            "listform": (v // 72) % 2, "naming": (v // 144) % 4}


def _payload(side, c, n):
    if c == 0:
        return [100 * (side + 1) + i for i in range(n)]
    pat = [None, 1.5, 7] if side == 0 else ["p", None, "q"]
    return [pat[i % 3] for i in range(n)]


def _wide_payload(side, c, n):
    """extra payload columns of further kinds (bool, date, all-None, str with blanks, object-mixed, int with None)"""
    pats = [[True, False, None], ["D:2021-03-04", "D:2021-03-05"], [None], ["", " ", "s"], [1, "1", None, 2.5], [None, 4, 5, 6],
            [10 ** 12, -1], ["T:2020-01-01T00:00:00", None]]
    pat = pats[(c + 3 * side) % len(pats)]
    return [pat[(i + c) % len(pat)] for i in range(n)]


def _side(spec, side):
    """-> (column list [(name, values)], on-argument description) for one side"""
    var = _variant(spec.get("v", 0))
    x = spec.get("x") or {}
    keys = spec["lk" if side == 0 else "rk"]
    n = len(keys[0]) if keys else 0
    nk = len(keys)
    mode = var["mode"]
    if mode == 3:
        mode = 0 if side == 0 else 1
    pm = (x.get("modes") or [None, None])[side]          # per-key argument forms (mixed lists): all key columns are stored
    if pm:
        mode = 0
    npl = var["lp" if side == 0 else "rp"]
    nocols = side in (x.get("nocols") or []) and n == 0 and mode == 2
    if mode == 2 and npl == 0 and not nocols:
        npl = 1          # keys live outside the table: keep one stored column so that the table has rows
    if nocols:
        npl = 0          # ... unless the case asks for a table without any column (only possible without rows)
    naming = var["naming"]
    fancy = x.get("names") or {}
    kbase = (lambda i: f"k{i}") if (side == 0 or naming != 1) else (lambda i: f"r{i}")
    kname = lambda i: fancy.get(kbase(i), kbase(i))
    if naming == 0:
        pname = lambda c: f"{'x' if side == 0 else 'y'}{c}"
    elif naming == 1:
        pname = lambda c: f"x{c}"
    elif naming == 3:
        # a payload column whose name differs from the key name only by case ('K0' vs 'k0'): both sanitise to the same
        # accessor; a key given BY NAME must still resolve to the column that carries exactly that name
        pname = lambda c: "K0" if c == 0 else f"{'x' if side == 0 else 'y'}{c}"
    else:
        pname = lambda c: None if c == 0 else "k0"     # unnamed column / a later column repeating the key name
    # layout: a list of items ("K", i) key column i / ("P", c) payload column c / ("W", c) extra payload column c
    cp = (x.get("colperm") or [None, None])[side]      # storage order of the key columns (a permutation of range(nk))
    stored = list(cp) if (cp and sorted(cp) == list(range(nk))) else list(range(nk))
    kitems = [("K", i) for i in stored]
    pitems = [("P", c) for c in range(npl)]
    if mode == 2:
        items = pitems
    elif var["after"] and naming != 2:
        items = pitems + kitems
    else:
        items = kitems + pitems     # naming 2: the key column comes first, so the repeated name resolves to it
    wide = 0 if nocols else x.get("wide", 0)
    if wide:
        # extra columns interleaved: one before each regular column (so key columns sit in the middle, apart from each other),
        # the rest at the end
        witems = [("W", c) for c in range(wide)]
        out = []
        for it in items:
            if witems:
                out.append(witems.pop(0))
            out.append(it)
        items = out + witems

    def col_of(it):
        kind, c = it
        if kind == "K":
            return (kname(c), list(keys[c]))
        if kind == "P":
            return (pname(c), _payload(side, c, n))
        return (f"{'w' if side == 0 else 'z'}{c}", _wide_payload(side, c, n))
    cols = [col_of(it) for it in items]
    payload = [col_of(it) for it in items if it[0] == "P"]
    pos = lambda i: items.index(("K", i))

    def vec_spec(i, named):
        return dict({"vec": list(keys[i])}, **({"vname": named} if named is not None else {}))
    if pm:
        specs = []
        for i in range(nk):
            m = pm[i % len(pm)]
            specs.append({"name": kname(i)} if m == 0 else {"col": pos(i)} if m == 1 else
                         vec_spec(i, kname(i) if m == 3 else None))      # 2: unnamed copy of the stored key column, 3: a copy carrying its name
    elif mode == 0:
        specs = [{"name": kname(i)} for i in range(nk)]
    elif mode == 1:
        specs = [{"col": pos(i)} for i in range(nk)]
    else:
        # an external key vector may carry the NAME of a stored column (a derived key such as t.k.fillna(0) keeps its source's
        # name): the join must go by the vector's values, not by the stored column of that name
        pnames = [nm for nm, _ in payload if isinstance(nm, str)]
        specs = [vec_spec(i, pnames[i % len(pnames)] if pnames and spec.get("v", 0) % 2 == 0 else None) for i in range(nk)]
    form = "list" if (nk != 1 or var["listform"]) else "single"
    return cols, {"form": form, "specs": specs}


def _apply_klist(spec, sides):
    """key LIST shapes: the key pairs listed in another order than the columns are stored (the same permutation on both sides),
    and a key column listed twice (paired with the same or with another column of the other side: L.a == R.a and L.a == R.b)"""
    kl = (spec.get("x") or {}).get("klist")
    if not kl:
        return
    for side, (_cols, on) in enumerate(sides):
        specs = on["specs"]
        perm = kl.get("perm")
        if perm and sorted(perm) == list(range(len(specs))):
            specs = [specs[p] for p in perm]
        for rep in kl.get("rep") or []:
            j = rep[side]
            if j < len(specs):
                specs = specs + [dict(specs[j])]
        on["specs"] = specs
        if len(specs) != 1:
            on["form"] = "list"


def _self2_sides(spec):
    """ONE table that holds both key-column sets (k0.. and r0..) plus payload, joined with itself on DIFFERENT key columns"""
    var = _variant(spec.get("v", 0))
    lk, rk = spec["lk"], spec["rk"]
    n = len(lk[0]) if lk else 0
    nk = len(lk)
    npl = var["lp"]
    payload = [(f"x{c}", _payload(0, c, n)) for c in range(npl)]
    kcols = [(f"k{i}", list(lk[i])) for i in range(nk)]
    rcols = [(f"r{i}", list(rk[i][:n]) + [None] * (n - len(rk[i]))) for i in range(nk)]
    if var["after"]:
        cols, koff, roff = payload + rcols + kcols, npl + nk, npl
    else:
        cols, koff, roff = kcols + payload + rcols, 0, nk + npl
    mode = var["mode"]
    form = "list" if (nk != 1 or var["listform"]) else "single"
    lspecs = [{"name": f"k{i}"} if mode in (0, 3) else {"col": koff + i} for i in range(nk)]
    rspecs = [{"name": f"r{i}"} if mode in (0, 2) else {"col": roff + i} for i in range(nk)]
    return [(cols, {"form": form, "specs": lspecs}), (cols, {"form": form, "specs": rspecs})]


def _apply_malformed(spec, sides):
    """malformed-key stream: mutate the on-arguments / key columns of a valid recipe"""
    mal = spec.get("mal")
    if not mal:
        return
    (lc, lon), (rc, ron) = sides
    kind = mal["what"]
    tgt_cols, tgt = (lc, lon) if mal.get("side", 0) == 0 else (rc, ron)
    if kind == "missing":
        tgt["specs"][0] = {"name": "zz"}
    elif kind == "wronglen":
        n = len(tgt_cols[0][1]) if tgt_cols else 0
        tgt["specs"][0] = {"vec": [0] * (n + 1 + mal.get("extra", 0))}
    elif kind == "shortlen":
        n = len(tgt_cols[0][1]) if tgt_cols else 0
        tgt["specs"][0] = {"vec": [0] * max(0, n - 1)} if n else {"vec": [0]}
    elif kind == "emptylist":
        tgt["form"], tgt["specs"] = "list", []
    elif kind == "bothempty":
        lon["form"], lon["specs"] = "list", []
        ron["form"], ron["specs"] = "list", []
    elif kind == "unequal":
        tgt["form"] = "list"
        tgt["specs"] = tgt["specs"] + [dict(tgt["specs"][0])]
    elif kind == "tuple":
        tgt["form"] = "other"
    elif kind == "badspec":
        tgt["form"] = "list"
        tgt["specs"][0] = {"bad": 1}
    # float / complex / mismatched kinds are expressed through the key values themselves


def _on_args(on, args):
    return args[0] if on["form"] == "single" else list(args) if on["form"] == "list" else tuple(args)


def expand(spec):
    """-> dict(L, R, lon, ron: python call arguments; cols/ons: descriptions)"""
    from serif import Vector, Table
    selfmode = spec.get("self")
    sides = _self2_sides(spec) if selfmode == 2 else [_side(spec, 0), _side(spec, 1)]
    _apply_klist(spec, sides)
    _apply_malformed(spec, sides)
    tabs, ons, onvecs = [], [], []
    for cols, on in (sides[:1] if selfmode == 2 else sides):
        vecs = [Vector([dec(x) for x in vals], name=nm) for nm, vals in cols]
        t = Table(vecs) if vecs else Table(())
        tabs.append(t)
    if selfmode == 2:
        tabs.append(tabs[0])
    for t, (cols, on) in zip(tabs, sides):
        args = []
        for s in on["specs"]:
            if "name" in s:
                args.append(s["name"])
            elif "col" in s:
                args.append(t.cols()[s["col"]])
            elif "vec" in s:
                args.append(Vector([dec(x) for x in s["vec"]], name=s.get("vname")))
            else:
                args.append(0)
        onvecs.append(args)
        ons.append(_on_args(on, args))
    if selfmode == 2:
        return {"L": tabs[0], "R": tabs[0], "lon": ons[0], "ron": ons[1], "sides": sides, "onvecs": onvecs}
    if selfmode:
        # a table joined with itself on the very same key arguments (the same column objects on both sides)
        return {"L": tabs[0], "R": tabs[0], "lon": ons[0], "ron": ons[0], "sides": [sides[0], sides[0]], "onvecs": [onvecs[0], onvecs[0]]}
    shared = (spec.get("x") or {}).get("shared")
    if shared and len(tabs[0]) == len(tabs[1]) and all("vec" in a and "vec" in b and a == b for a, b in zip(sides[0][1]["specs"], sides[1][1]["specs"])) \
            and len(sides[0][1]["specs"]) == len(sides[1][1]["specs"]) and sides[0][1]["form"] == sides[1][1]["form"]:
        # two DIFFERENT tables keyed by the very same external key vector objects (shared == 2: even the same list object)
        onvecs[1] = onvecs[0]
        ons[1] = ons[0] if shared == 2 else _on_args(sides[1][1], onvecs[0])
    return {"L": tabs[0], "R": tabs[1], "lon": ons[0], "ron": ons[1], "sides": sides, "onvecs": onvecs}


def self_joins(prefix, kinds=("inner", "left", "full"), expects=None):
    """a table joined with itself on the same key columns: every key pattern of up to four rows over two values and None, every
    kind and expectation, keys by name / own vector"""
    import itertools
    expects = expects or EXPECTS
    i = 0
    for n in (0, 1, 2, 3, 4):
        for ks in itertools.product([1, 2, None], repeat=n):
            if n == 4 and len(set(ks)) == 1 and ks[0] == 2:
                continue
            for kind in kinds:
                for e in expects:
                    i += 1
                    yield {"fam": prefix + ".self", "kind": kind, "expect": e, "lk": [list(ks)], "rk": [list(ks)], "v": (0, 1, 5)[i % 3],
                           "mm": True, "self": True}


# ------------------------------------------------------------------------------------------------
# observation
# ------------------------------------------------------------------------------------------------

def _snapshot(t):
    cols = list(t.cols())
    return ([[(type(x).__name__, repr(x)) for x in c] for c in cols], list(t.column_names()),
            [repr(c.schema()) for c in cols], len(t))


def _outcome(itn, fn):
    try:
        r = fn()
    except Exception as e:          # exceptions of the code under test are observations
        return {"err": err_class(e)}
    cols = list(r.cols())
    return {"names": list(r.column_names()), "cols": [[itn.uid(x) for x in c] for c in cols],
            "dtypes": [dtype_wire(c.schema()) for c in cols]}


def _tab_wire(itn, t):
    return {"names": list(t.column_names()), "cols": [itn.wires(list(c)) for c in t.cols()]}


def _on_wire(itn, on, args):
    specs = []
    for s, a in zip(on["specs"], args):
        if "name" in s:
            specs.append({"name": s["name"]})
        elif "col" in s or "vec" in s:
            specs.append({"vec": itn.wires(list(a))})
        else:
            specs.append({"bad": True})
    return {"form": on["form"], "specs": specs}


def _warm(spec, x):
    """a join result must not depend on earlier calls: build the tables with the pre-edit key cells, run a first join
    (its outcome is not judged here), then write the final key cells IN PLACE through the live key columns/vectors.
    Anything the first call cached on the tables or key vectors is now stale."""
    warm = spec.get("warm")
    if not warm:
        return
    import warnings
    L, R = x["L"], x["R"]
    meth = METHOD[spec["kind"]]
    try:
        getattr(L, warm.get("first_kind") and METHOD[warm["first_kind"]] or meth)(R, x["lon"], x["ron"], expect=warm.get("first_expect", spec["expect"]))
    except Exception:
        pass
    replaced = set()
    if warm.get("replace"):
        # the key column is REPLACED as a whole (`t.k0 = Vector(...)`: a new column object under the old name) instead of being
        # edited cell by cell: whatever the first call remembered about the old column object is stale
        from serif import Vector
        for side, j, _i, _old in warm.get("edits") or []:
            on = x["sides"][side][1]["specs"][j]
            if (side, j) in replaced:
                continue
            if "name" not in on or not on["name"].isidentifier():
                return "whole-column replacement needs a key given by a plain name"
            with warnings.catch_warnings():
                warnings.simplefilter("ignore")
                setattr((L, R)[side], on["name"], Vector([dec(v) for v in spec[("lk", "rk")[side]][j]]))
            replaced.add((side, j))
    for side, j, i, _old in warm.get("edits") or []:
        if (side, j) in replaced:
            continue
        t = (L, R)[side]
        on = x["sides"][side][1]["specs"][j]
        if "name" in on:
            col = t[on["name"]]
        elif "col" in on:
            col = t.cols()[on["col"]]
        else:
            col = x["onvecs"][side][j]
        final = dec(spec[("lk", "rk")[side]][j][i])
        with warnings.catch_warnings():
            warnings.simplefilter("ignore")
            try:
                col[i] = final
            except Exception:
                return "the in-place key edit was refused"
    # payload cells edited in place between the two calls (whatever the first call kept of the cells is stale)
    for side, pos, i, val in warm.get("pedits") or []:
        t = (L, R)[side]
        if pos < len(t.cols()) and i < len(t):
            with warnings.catch_warnings():
                warnings.simplefilter("ignore")
                try:
                    t.cols()[pos][i] = dec(val)
                except Exception:
                    return "the in-place payload edit was refused"
    # columns renamed between the two calls: through a live column view (`.name = ...`) or with Table.rename_column; whatever
    # the first call (or the table itself) remembered about names is stale.  `reon` then re-targets by-name key arguments.
    for side, pos, newname in warm.get("renames") or []:
        t = (L, R)[side]
        if pos >= len(t.cols()):
            continue
        col = t.cols()[pos]
        with warnings.catch_warnings():
            warnings.simplefilter("ignore")
            if warm.get("how") == "method" and isinstance(col.name, str):
                t.rename_column(col.name, newname)
            else:
                col.name = newname
    for side, j, newname in warm.get("reon") or []:
        on = x["sides"][side][1]
        if j < len(on["specs"]) and "name" in on["specs"][j]:
            on["specs"][j]["name"] = newname
            x["onvecs"][side][j] = newname
            x[("lon", "ron")[side]] = _on_args(on, x["onvecs"][side])


def _pre_edit(spec):
    """the spec with the warm edits undone (what the tables hold before the first call)"""
    warm = spec.get("warm")
    if not warm:
        return spec
    pre = dict(spec, lk=[list(c) for c in spec["lk"]], rk=[list(c) for c in spec["rk"]])
    for side, j, i, old in warm.get("edits") or []:
        pre[("lk", "rk")[side]][j][i] = old
    return pre


def add_warm(rng, spec):
    """turn a (well-formed, non-empty) case into a warm case: one key cell per edit had another value of the same kind
    before the first call"""
    if spec.get("mal") or spec.get("x") or spec.get("self"):
        return spec
    side = rng.choice([0, 1, 1])
    cols = spec[("lk", "rk")[side]]
    if not cols or not cols[0]:
        return spec
    edits = []
    for _ in range(rng.choice([1, 1, 2])):
        j = rng.randrange(len(cols))
        i = rng.randrange(len(cols[j]))
        cur = dec(cols[j][i])
        if cur is None or isinstance(cur, bool):
            continue
        kinds = {type(dec(v)) for v in cols[j] if v is not None}
        if len(kinds) != 1:
            continue                       # mixed-kind (object) key columns are not edited
        pool = [v for v in cols[j] + spec[("rk", "lk")[side]][j] if v is not None and type(dec(v)) is type(cur) and dec(v) != cur]
        if isinstance(cols[j][i], int):
            pool += [cols[j][i] + 11, cols[j][i] + 12]
        if not pool:
            continue
        edits.append([side, j, i, rng.choice(pool)])
    if not edits:
        return spec
    return dict(spec, fam=spec["fam"].split(".")[0] + ".warm",
                warm={"edits": edits, "first_expect": rng.choice(EXPECTS), "first_kind": rng.choice([None, None, "inner", "left", "full"])})


def scripted_warm(prefix, kinds=("inner", "left", "full"), expects=None, variants=(0, 1, 2, 5)):
    """deterministic warm cases: an earlier join (every kind x every expectation) on tables whose keys are unique / duplicated,
    then ONE in-place key edit that creates or removes a duplicate on the left or on the right, then the judged call under every
    expectation.  Whatever the first call remembered about uniqueness, buckets or pairs is stale for the judged one."""
    expects = expects or EXPECTS
    scenes = [  # (final lk, final rk, edit)
        ([1, 2, 3], [1, 1, 4], [1, 0, 1, 2]),      # right: unique -> duplicate (matching)
        ([1, 2, 3], [1, 4, 4], [1, 0, 2, 5]),      # right: unique -> duplicate among unmatched rows
        ([1, 2, 3], [1, 2, 4], [1, 0, 1, 1]),      # right: duplicate -> unique
        ([1, 1, 3], [1, 2, 4], [0, 0, 1, 2]),      # left: unique -> duplicate
        ([1, 2, 3], [1, 2, 4], [0, 0, 1, 1]),      # left: duplicate -> unique
        ([1, 2, 3], [3, 2, 1], [1, 0, 0, 5]),      # right: a match appears
        # the same with edits between *hash-equal* values (hash(-1) == hash(-2), hash(n) == hash(n + 2**61 - 1)): whatever the
        # first call remembered under a content hash / fingerprint of the key column looks current and is not
        ([-1, -2, 3], [-2, -2, 4], [1, 0, 0, -1]),                     # right: unique -> duplicate
        ([-1, -2, 3], [-1, -2, 4], [1, 0, 0, -2]),                     # right: duplicate -> unique
        ([-2, -2, 3], [-1, -2, 4], [0, 0, 0, -1]),                     # left: unique -> duplicate
        ([-1, -2, 3], [-1, -2, 4], [0, 0, 0, -2]),                     # left: duplicate -> unique
        ([5, 7, 8], [5, 5, 9], [1, 0, 1, 5 + 2 ** 61 - 1]),            # right: unique -> duplicate
        ([5, 7, 8], [5, 5 + 2 ** 61 - 1, 9], [1, 0, 1, 5]),            # right: duplicate -> unique
        ([-1, 7, 3], [-2, 7, 4], [1, 0, 0, -1]),                       # right: a match disappears
        ([-1, 7, 3], [-1, 7, 4], [0, 0, 0, -2]),                       # left: a match appears
    ]
    i = 0
    for kind in kinds:
        for first_kind in (None, "inner" if kind != "inner" else "full"):
            for first_expect in EXPECTS:
                for lk, rk, edit in scenes:
                    for e in expects:
                        i += 1
                        yield {"fam": prefix + ".warm", "kind": kind, "expect": e, "lk": [list(lk)], "rk": [list(rk)],
                               "v": variants[i % len(variants)], "mm": True,
                               "warm": {"edits": [list(edit)], "first_expect": first_expect, "first_kind": first_kind}}


def execute(spec):
    x = expand(_pre_edit(spec))
    refused = _warm(spec, x)
    if refused:
        return {"skip": refused}
    L, R = x["L"], x["R"]
    itn = Interner()
    case = {"kind": spec["kind"], "expect": spec["expect"], "L": _tab_wire(itn, L), "R": _tab_wire(itn, R),
            "lon": _on_wire(itn, x["sides"][0][1], x["onvecs"][0]), "ron": _on_wire(itn, x["sides"][1][1], x["onvecs"][1])}
    def _args():
        return [(type(a).__name__, len(a), [id(e) for e in a]) if isinstance(a, (list, tuple)) else None
                for a in (x["lon"], x["ron"])]
    before = (_snapshot(L), _snapshot(R), [_vsnap(a) for a in x["onvecs"][0] + x["onvecs"][1]], _args())
    meth = METHOD[spec["kind"]]
    # a non-string expect argument travels as a placeholder string (invalid for the judge, as it must be for the code)
    expect = EXPECT_OBJECTS.get(spec["expect"], spec["expect"]) if (spec.get("x") or {}).get("expect_obj") else spec["expect"]
    impl = {"out": _outcome(itn, lambda: getattr(L, meth)(R, x["lon"], x["ron"], expect=expect))}
    if spec.get("mm") and spec["expect"] != "many_to_many":
        impl["mm"] = _outcome(itn, lambda: getattr(L, meth)(R, x["lon"], x["ron"], expect="many_to_many"))
    if spec.get("swap") and spec["kind"] == "full":
        impl["swap"] = _outcome(itn, lambda: R.full_join(L, x["ron"], x["lon"],
                                                          expect=SWAP_EXPECT.get(spec["expect"], spec["expect"])))
    after = (_snapshot(L), _snapshot(R), [_vsnap(a) for a in x["onvecs"][0] + x["onvecs"][1]], _args())
    w = {"fam": spec["fam"], "case": case, "impl": impl}
    if before != after:
        w["py_fail"] = "an input (table cells, names, dtypes, a key vector or a key list) changed during the join call"
    return w


def _vsnap(a):
    try:
        return ([(type(v).__name__, repr(v)) for v in a], repr(a.schema()), a.name)
    except Exception:
        return repr(a)


# ------------------------------------------------------------------------------------------------
# classification for the evidence
# ------------------------------------------------------------------------------------------------

def _keyrows(spec, which):
    cols = spec[which]
    n = len(cols[0]) if cols else 0
    return [tuple(pyrepr(c[i]) for c in cols) for i in range(n)]


def nontrivial(spec, wire):
    """both sides non-empty, the call returned rows, and the key lists are not both duplicate-free-and-disjoint
    (some match or some duplicate exists); for expectation cases: any case with a duplicate key on some side"""
    out = wire["impl"]["out"]
    lk, rk = _keyrows(spec, "lk"), _keyrows(spec, "rk")
    dup = len(set(lk)) < len(lk) or len(set(rk)) < len(rk)
    if spec.get("mm") or spec["expect"] != "many_to_many":
        return bool(lk) and bool(rk) and dup
    if "err" in out:
        return False
    return bool(lk) and bool(rk) and (dup or bool(set(lk) & set(rk)))


def _size(n):
    return "0" if n == 0 else "1" if n == 1 else "2-3" if n <= 3 else "4-10" if n <= 10 else "11+"


def histogram(spec, wire):
    out = wire["impl"]["out"]
    lk, rk = _keyrows(spec, "lk"), _keyrows(spec, "rk")
    var = _variant(spec.get("v", 0))
    h = [f"{spec['kind']}:{spec['expect'] if spec['expect'] in EXPECTS else 'invalid-expect'}",
         f"rows:L{_size(len(lk))}xR{_size(len(rk))}", f"keycols:{len(spec['lk'])}",
         "keys-by:" + ["name", "own-vector", "external-vector", "name/vector"][var["mode"]],
         "outcome:" + ("err-" + out["err"] if "err" in out else "rows" + _size(len(out["cols"][0]) if out["cols"] else 0))]
    xx = spec.get("x") or {}
    for k in sorted(xx):
        h.append("extra:" + k + (":" + str(xx[k]) if k in ("shared", "wide") else ""))
    if spec.get("self"):
        h.append("self-join:" + ("different-key-columns" if spec["self"] == 2 else "same-key-columns"))
    if spec.get("warm"):
        h.append("warm:" + "+".join(k for k in ("edits", "pedits", "renames", "replace") if spec["warm"].get(k)))
    if max(len(lk), len(rk)) > 1000:
        h.append("rows>1000")
    if spec.get("mal"):
        h.append("malformed:" + spec["mal"]["what"])
    if len(set(lk)) < len(lk):
        h.append("dup-left")
    if len(set(rk)) < len(rk):
        h.append("dup-right")
    if lk and rk and not (set(lk) & set(rk)):
        h.append("no-match")
    if set(rk) - set(lk) and len([k for k in rk if k not in set(lk)]) > len(set(rk) - set(lk)):
        h.append("dup-among-unmatched-right")
    if set(lk) - set(rk) and len([k for k in lk if k not in set(rk)]) > len(set(lk) - set(rk)):
        h.append("dup-among-unmatched-left")
    return h


# ------------------------------------------------------------------------------------------------
# shrinking, snippet
# ------------------------------------------------------------------------------------------------

def shrink(spec):
    xx = spec.get("x") or {}
    paired = spec.get("self") or xx.get("shared")          # both sides must keep the same number of rows
    if paired:
        n = min(len(spec["lk"][0]) if spec["lk"] else 0, len(spec["rk"][0]) if spec["rk"] else 0)
        for i in range(n):
            yield dict(spec, lk=[c[:i] + c[i + 1:] for c in spec["lk"]], rk=[c[:i] + c[i + 1:] for c in spec["rk"]])
    for which in ("lk", "rk"):
        cols = spec[which]
        n = len(cols[0]) if cols else 0
        for i in range(n if not paired else 0):
            yield dict(spec, **{which: [c[:i] + c[i + 1:] for c in cols]})
    for k in sorted(xx):
        if k not in ("expect_obj",):
            yield dict(spec, x={a: b for a, b in xx.items() if a != k})      # drop one extra presentation feature
    if spec.get("warm"):
        for k in ("pedits", "renames"):
            if spec["warm"].get(k) and not (k == "renames" and spec["warm"].get("reon")):
                yield dict(spec, warm={a: b for a, b in spec["warm"].items() if a != k})
    if len(spec["lk"]) > 1 and not spec.get("mal") and not (xx.get("klist") or xx.get("modes") or xx.get("colperm")):
        for j in range(len(spec["lk"])):
            yield dict(spec, lk=spec["lk"][:j] + spec["lk"][j + 1:], rk=spec["rk"][:j] + spec["rk"][j + 1:])
    v = spec.get("v", 0)
    if v:
        yield dict(spec, v=0)
        var = _variant(v)
        mult = {"lp": 1, "rp": 3, "mode": 9, "after": 36, "listform": 72, "naming": 144}
        for k, m in mult.items():
            if var[k]:
                yield dict(spec, v=v - var[k] * m)
    for which in ("lk", "rk"):
        cols = spec[which]
        for j, c in enumerate(cols):
            for i, x in enumerate(c):
                if x not in (0, None) and isinstance(x, int) and not isinstance(x, bool):
                    yield dict(spec, **{which: cols[:j] + [c[:i] + [0] + c[i + 1:]] + cols[j + 1:]})
    if spec.get("mm"):
        yield dict(spec, mm=False)
    if spec.get("swap"):
        yield dict(spec, swap=False)


def _final_cell(spec, side, j, i):
    return spec["_final"][side][j][i]


def snippet(spec):
    spec = dict(_pre_edit(spec), _final=[spec["lk"], spec["rk"]])
    selfmode = spec.get("self")
    sides = _self2_sides(spec) if selfmode == 2 else [_side(spec, 0), _side(spec, 1)]
    _apply_klist(spec, sides)
    _apply_malformed(spec, sides)
    lines = ["from serif import Table, Vector", "import datetime, decimal, fractions"]
    onsrc = []
    for nm, (cols, on) in zip("LR", sides):
        if selfmode and nm == "R":
            lines.append("R = L")
            if selfmode != 2:
                onsrc.append(onsrc[0])
                break
            nm, cols = "L", []
        vs = ", ".join(f"Vector([{', '.join(pyrepr(x) for x in vals)}], name={n!r})" for n, vals in cols)
        if not (selfmode == 2 and not cols):
            lines.append(f"{nm} = Table([{vs}])" if cols else f"{nm} = Table(())")
        args = []
        for s in on["specs"]:
            if "name" in s:
                args.append(repr(s["name"]))
            elif "col" in s:
                args.append(f"{nm}.cols()[{s['col']}]")
            elif "vec" in s:
                args.append(f"Vector([{', '.join(pyrepr(x) for x in s['vec'])}]" + (f", name={s['vname']!r})" if s.get("vname") else ")"))
            else:
                args.append("0")
        onsrc.append(args[0] if on["form"] == "single" else
                     "[" + ", ".join(args) + "]" if on["form"] == "list" else "(" + ", ".join(args) + ",)")
    xx = spec.get("x") or {}
    if xx.get("shared") and onsrc[0] == onsrc[1]:
        lines.append(f"keys = {onsrc[0]}      # the very same key vector objects for both tables")
        onsrc = ["keys", "keys" if xx["shared"] == 2 or not onsrc[0].startswith("[") else "list(keys)"]
    expect = repr(EXPECT_OBJECTS[spec["expect"]]) if xx.get("expect_obj") and spec["expect"] in EXPECT_OBJECTS else repr(spec["expect"])
    warm = spec.get("warm")
    if warm:
        fk = METHOD[warm.get("first_kind") or spec["kind"]]
        lines.append(f"try: L.{fk}(R, {onsrc[0]}, {onsrc[1]}, expect={warm.get('first_expect', spec['expect'])!r})      # an earlier join on the same objects")
        lines.append("except Exception: pass")
        for side, j, i, _old in warm.get("edits") or []:
            on = sides[side][1]["specs"][j]
            tgt = f"{'LR'[side]}[{on['name']!r}]" if "name" in on else f"{'LR'[side]}.cols()[{on['col']}]" if "col" in on else "<that key vector>"
            if warm.get("replace") and "name" in on:
                lines.append(f"{'LR'[side]}.{on['name']} = Vector([{', '.join(pyrepr(v) for v in spec['_final'][side][j])}])      # key column replaced")
                continue
            lines.append(f"{tgt}[{i}] = {pyrepr(_final_cell(spec, side, j, i))}      # in-place key edit")
        for side, pos, i, val in warm.get("pedits") or []:
            lines.append(f"{'LR'[side]}.cols()[{pos}][{i}] = {pyrepr(val)}      # in-place payload edit")
        for side, pos, newname in warm.get("renames") or []:
            lines.append(f"{'LR'[side]}.cols()[{pos}].name = {newname!r}" if warm.get("how") != "method" else
                         f"{'LR'[side]}.rename_column({'LR'[side]}.cols()[{pos}].name, {newname!r})")
        for side, j, newname in warm.get("reon") or []:
            lines.append(f"# key argument {j} of the {'left' if side == 0 else 'right'} side is now the name {newname!r}")
            if onsrc[side].startswith("'") or onsrc[side].startswith('"'):
                onsrc[side] = repr(newname)
            else:
                onsrc[side] = onsrc[side].replace(repr(sides[side][1]["specs"][j].get("name")), repr(newname))
    call = f"L.{METHOD[spec['kind']]}(R, {onsrc[0]}, {onsrc[1]}, expect={expect})"
    lines.append(f"r = {call}")
    lines.append("print(r.column_names(), [list(c) for c in r.cols()], [c.schema() for c in r.cols()])")
    if spec.get("swap"):
        lines.append(f"s = R.full_join(L, {onsrc[1]}, {onsrc[0]}, expect={SWAP_EXPECT.get(spec['expect'], spec['expect'])!r})"
                     "   # same rows up to column and row order")
    if spec.get("mm"):
        lines.append(f"# compare with expect='many_to_many'")
    return "\n".join(lines)


# ------------------------------------------------------------------------------------------------
# generators
# ------------------------------------------------------------------------------------------------

def key_columns(pool, nk, n):
    """all assignments of `nk` key columns with `n` rows over `pool` (column-major)"""
    for flat in itertools.product(pool, repeat=nk * n):
        yield [list(flat[c * n:(c + 1) * n]) for c in range(nk)]


def small_pairs(pool, nk, maxl, maxr):
    """every pair of key-column sets with ≤ maxl / ≤ maxr rows"""
    for nl in range(maxl + 1):
        for nr in range(maxr + 1):
            rks = list(key_columns(pool, nk, nr))
            for lk in key_columns(pool, nk, nl):
                for rk in rks:
                    yield lk, rk


def _colkind(col):
    """the kind serif infers for a key column (None for an empty column), mirrored only to steer generation"""
    if not col:
        return None
    ts = {type(dec(x)).__name__ for x in col if x is not None}
    if not ts:
        return "object"
    if ts <= {"bool"}:
        return "bool"
    if ts <= {"bool", "int"}:
        return "int"
    if len(ts) == 1:
        return ts.pop()
    if ts <= {"date", "datetime"}:
        return "datetime"
    return "object"


def random_keys(rng, nmax=40):
    """random structured key columns for both sides: 1–3 key columns, each of one kind (the same on both sides),
    values from a tiny slice of that kind's pool so that duplicates, matches and None are frequent.  A column pair
    whose two sides would be typed differently (refused by key validation) is redrawn a few times."""
    nk = rng.choice([1, 1, 2, 2, 3])
    nl = rng.choice([0, 1, 2, 3, 5, 8, 13, 21, nmax])
    nr = rng.choice([0, 1, 2, 3, 5, 8, 13, 21, nmax])
    nl, nr = rng.randint(0, nl), rng.randint(0, nr)
    if rng.random() < 0.02:
        # now and then one side (or both) is long, also much longer than the other (size-triggered strategies)
        nl, nr = rng.choice([(70, 3), (3, 70), (130, 130), (1, 260), (260, 2), (65, 17)])
    lk, rk = [], []
    for _ in range(nk):
        for attempt in range(6):
            kind = rng.choice(["int", "int", "str", "str", "bool", "date", "datetime", "boolint", "object", "intcollide", "intcollide", "numeq", "datemix"])
            pool = rng.sample(POOLS[kind], rng.randint(1, min(4 if kind != "numeq" else 6, len(POOLS[kind]))))
            if all(p is None for p in pool):
                pool = pool + [next(p for p in POOLS[kind] if p is not None)]
            cl = [rng.choice(pool) for _ in range(nl)]
            cr = [rng.choice(pool) for _ in range(nr)]
            if kind == "numeq":
                # a string among the numbers keeps the column an object column on both sides (a float column is refused as a key)
                for c in (cl, cr):
                    if c:
                        c[rng.randrange(len(c))] = "x"
            kl, kr = _colkind(cl), _colkind(cr)
            if kl is None or kr is None or kl == kr:
                break
        lk.append(cl)
        rk.append(cr)
    return lk, rk


def unique_keys(rng, nmax=12):
    """key columns with unique rows on a chosen side (so that strict expectations succeed often)"""
    nk = rng.choice([1, 2])
    base = list(itertools.product([0, 1, 2, 3, None], repeat=nk))
    rng.shuffle(base)

    def side(unique):
        n = rng.randint(0, nmax)
        rows = base[:n] if unique else [rng.choice(base[:max(1, n // 2)]) for _ in range(n)]
        rows = list(rows)
        rng.shuffle(rows)
        return [[r[c] for r in rows] for c in range(nk)]
    return side(rng.random() < 0.7), side(rng.random() < 0.7)


def interleave(gens, block=64):
    """round-robin blocks from several generators until all are exhausted, so that a run cut short by its time
    budget has seen a proportional part of every family"""
    gens = [iter(g) for g in gens]
    while gens:
        alive = []
        for g in gens:
            chunk = list(itertools.islice(g, block))
            yield from chunk
            if len(chunk) == block:
                alive.append(g)
        gens = alive


# ------------------------------------------------------------------------------------------------
# further input shapes and states (gap analysis): key-list shapes, a table joined with itself on different columns, key vector
# objects shared by two tables, renames / payload edits between two joins, sides beyond 1000 rows, wide tables, key names
# that are no identifiers, tables without columns, expect arguments that are no strings
# ------------------------------------------------------------------------------------------------

def _vcode(lp=0, rp=0, mode=0, after=0, listform=0, naming=0):
    return lp + 3 * rp + 9 * mode + 36 * after + 72 * listform + 144 * naming


def _maker(prefix, mm, swap):
    def mk(fam, kind, e, lk, rk, v, **kw):
        spec = dict({"fam": prefix + "." + fam, "kind": kind, "expect": e, "lk": lk, "rk": rk, "v": v}, **kw)
        if mm:
            spec["mm"] = True
        if swap and kind == "full":
            spec["swap"] = True
        return spec
    return mk


def _rand_cols(rng, pool, nk, n):
    return [[rng.choice(pool) for _ in range(n)] for _ in range(nk)]


def klist_cases(rng, mk, kinds, expects, count):
    """key lists in another order than the stored columns, a key column listed twice, name / own-vector / external-copy forms mixed
    inside one list, the right key columns stored in another order than the left ones"""
    # every order of the key list x every storage order of the right key columns x by name / own vector / external vector
    i = 0
    for nk in (2, 3):
        for perm in itertools.permutations(range(nk)):
            for cp in itertools.permutations(range(nk)):
                for mode in (0, 1, 2):
                    for _ in range(2):
                        i += 1
                        lk, rk = _rand_cols(rng, [0, 1, 2], nk, rng.randint(2, 4)), _rand_cols(rng, [0, 1, 2], nk, rng.randint(2, 4))
                        if rng.random() < 0.5:          # make some full matches likely
                            rk[0][0:1], rk[1][0:1] = lk[0][0:1], lk[1][0:1]
                            if nk == 3:
                                rk[2][0:1] = lk[2][0:1]
                        v = _vcode(lp=i % 3, rp=(i // 3) % 3, mode=mode, after=i % 2, listform=1, naming=(0, 1)[(i // 2) % 2])
                        yield mk("klist", kinds[i % len(kinds)], expects[(i // len(kinds)) % len(expects)], lk, rk, v,
                                 x={"klist": {"perm": list(perm)}, "colperm": [None, list(cp)] if i % 3 else [list(cp), None]})
    for i in range(count):
        nk = rng.choice([1, 2, 2, 2, 3])
        pool = rng.choice([[0, 1], [0, 1, None], ["a", "b", None], [0, 1, 2]])
        nl, nr = rng.randint(0, 4), rng.randint(0, 4)
        lk, rk = _rand_cols(rng, pool, nk, nl), _rand_cols(rng, pool, nk, nr)
        x = {}
        feats = rng.sample(["perm", "rep", "modes", "colperm"], rng.randint(1, 2))
        kl = {}
        if "perm" in feats and nk > 1:
            perm = list(range(nk))
            while perm == list(range(nk)):
                rng.shuffle(perm)
            kl["perm"] = perm
        if "rep" in feats or not (nk > 1):
            kl["rep"] = [[rng.randrange(nk), rng.randrange(nk)] for _ in range(rng.choice([1, 1, 2]))]
        if kl:
            x["klist"] = kl
        if "modes" in feats:
            x["modes"] = [[rng.randrange(4) for _ in range(nk)], [rng.randrange(4) for _ in range(nk)]]
        if "colperm" in feats and nk > 1:
            cp = list(range(nk))
            rng.shuffle(cp)
            x["colperm"] = [None, cp] if rng.random() < 0.7 else [cp, None]
        if not x:
            x["klist"] = {"rep": [[0, 0]]}
        yield mk("klist", kinds[i % len(kinds)], expects[(i // len(kinds)) % len(expects)], lk, rk, rng.randrange(NVARIANTS), x=x)


def self2_cases(rng, mk, kinds, expects, full_n, count):
    """one table joined with itself on DIFFERENT key columns: every pattern up to `full_n` rows over {1,2,None}, random beyond"""
    i = 0
    for n in range(full_n + 1):
        for flat in itertools.product([1, 2, None], repeat=2 * n):
            for kind in kinds:
                for e in expects:
                    i += 1
                    yield mk("self2", kind, e, [list(flat[:n])], [list(flat[n:])], (i * 173 + 7) % NVARIANTS, self=2)
    for _ in range(count):
        n = rng.randint(full_n + 1, 6)
        nk = rng.choice([1, 1, 2])
        pool = rng.choice([[1, 2, None], [1, 2, 3, 4], ["a", "b", "c"]])
        i += 1
        yield mk("self2", kinds[i % len(kinds)], rng.choice(expects), _rand_cols(rng, pool, nk, n), _rand_cols(rng, pool, nk, n),
                 rng.randrange(NVARIANTS), self=2)


def shared_cases(rng, mk, kinds, expects, count):
    """two different tables (different payload) keyed by the very same external key vector objects"""
    i = 0
    for n in (0, 1, 2, 3):
        for ks in itertools.product([1, 2, None], repeat=n):
            for kind in kinds:
                for e in expects:
                    i += 1
                    v = _vcode(lp=i % 3, rp=(i // 3) % 3, mode=2, after=i % 2, listform=(i // 2) % 2, naming=(i // 5) % 4)
                    yield mk("shared", kind, e, [list(ks)], [list(ks)], v, x={"shared": 1 + i % 2})
    for _ in range(count):
        n, nk = rng.randint(2, 7), rng.choice([1, 2])
        cols = _rand_cols(rng, rng.choice([[1, 2, None], ["a", "b"], [1, 2, 3, 4, 5, 6, 7]]), nk, n)
        i += 1
        v = _vcode(lp=rng.randrange(3), rp=rng.randrange(3), mode=2, after=i % 2, listform=rng.randrange(2), naming=rng.randrange(4))
        yield mk("shared", kinds[i % len(kinds)], rng.choice(expects), cols, [list(c) for c in cols], v, x={"shared": 1 + i % 2})


def rename_cases(mk, kinds, expects):
    """an earlier join by name, then columns renamed (through a live column view or with rename_column) or payload cells edited in
    place, then the judged join: by the new name; by the old name (now missing: refused); by a name that now belongs to ANOTHER
    column (names exchanged between the key and a payload column: that column's cells are the keys now)"""
    i = 0
    for after in (0, 1):
        kpos, ppos = (1, 0) if after else (0, 1)
        scenes = [
            # (lk, rk, warm-extras)
            ([1, 2, 3], [1, 1, 4], {"renames": [[1, kpos, "kk"]], "reon": [[1, 0, "kk"]]}),
            ([1, 2, 3], [1, 1, 4], {"renames": [[1, kpos, "kk"]]}),
            ([1, 1, 3], [1, 2, 4], {"renames": [[0, kpos, "Key 0"]], "reon": [[0, 0, "Key 0"]]}),
            ([1, 1, 3], [1, 2, 4], {"renames": [[0, kpos, "kz"]]}),       # (not 'K0': the old name would still match case-insensitively)
            ([200, 201, 5], [5, 5, 200], {"renames": [[1, kpos, "tmp"], [1, ppos, "k0"], [1, kpos, "y0"]]}),
            ([7, 100, 7], [100, 7, 101], {"renames": [[0, kpos, "tmp"], [0, ppos, "k0"], [0, kpos, "x0"]]}),
            ([200, 200, 5], [5, 6, 200], {"renames": [[1, kpos, "tmp"], [1, ppos, "k0"], [1, kpos, "y0"]], "edits": [[1, 0, 1, 5]]}),
            ([1, 2, 3], [1, 1, 4], {"pedits": [[1, ppos, 0, 999], [0, ppos, 1, 998]]}),
            ([1, 2, 3], [3, 2, 1], {"pedits": [[1, ppos, 2, None]], "renames": [[1, ppos, "pay"]]}),
        ]
        for lf in (0, 1):
            v = _vcode(lp=1, rp=1, mode=0, after=after, listform=lf, naming=0)
            for how in ("view", "method"):
                for first_expect, first_kind in (("many_to_many", None), ("one_to_one", "inner"), ("many_to_one", "full")):
                    for lk, rk, extra in scenes:
                        for kind in kinds:
                            i += 1
                            e = expects[i % len(expects)]
                            warm = dict({"first_expect": first_expect, "first_kind": first_kind, "how": how}, **extra)
                            yield mk("rename", kind, e, [list(lk)], [list(rk)], v, warm=warm)


def replace_cases(mk, kinds, expects):
    """an earlier join by name, then the key column replaced as a whole by attribute assignment (a new column object under the
    same name, duplicates created or removed, matches appearing), then the judged join"""
    scenes = [([1, 2, 3], [1, 1, 4], [1, 0, 1, 2]), ([1, 2, 3], [1, 4, 4], [1, 0, 2, 5]), ([1, 2, 3], [1, 2, 4], [1, 0, 1, 1]),
              ([1, 1, 3], [1, 2, 4], [0, 0, 1, 2]), ([1, 2, 3], [1, 2, 4], [0, 0, 1, 1]), ([1, 2, 3], [3, 2, 1], [1, 0, 0, 5])]
    i = 0
    for kind in kinds:
        for first_expect, first_kind in (("many_to_many", None), ("one_to_one", None), ("many_to_one", "inner" if kind != "inner" else "left")):
            for lk, rk, edit in scenes:
                for e in expects:
                    i += 1
                    v = _vcode(lp=i % 3, rp=(i // 3) % 3, mode=0, after=i % 2, listform=(i // 2) % 2, naming=0)
                    yield mk("replace", kind, e, [list(lk)], [list(rk)], v,
                             warm={"edits": [list(edit)], "first_expect": first_expect, "first_kind": first_kind, "replace": True})


# pairs of column names that read alike: canonically equivalent spellings (NFC / NFD), a trailing blank, case, blank vs underscore,
# Latin vs Cyrillic 'a', no-break space; each is looked up by exactly its own spelling
LOOKALIKE = [("\u00e9", "e\u0301"), ("k0", "k0 "), ("key", "Key"), ("a b", "a_b"), ("a", "\u0430"), ("a b", "a\u00a0b"), ("k", " k")]


def big_cases(rng, mk, kinds, expects, all_expects=False):
    """sides beyond 1000 rows (size-triggered strategies): mostly unique keys, a few None, and a duplicate far down the column
    (beyond row 1024) on one side only - its partner above or below the 1024 mark"""
    i = 0
    for nl, nr, dup, heavy in ((1030, 4, "left", False), (4, 1030, "right", False), (1040, 6, "left-far", False), (6, 1040, "right-far", False),
                               (1030, 7, "none", False), (4, 1042, "bucket-right", False), (1042, 3, "bucket-left", False), (1030, 1030, "none", True), (1030, 1030, "left", True), (1030, 1030, "right", True)):
        lk = [(j * 7) % 2311 for j in range(nl)]
        rk = [(j * 11 + 3) % 2311 for j in range(nr)]
        if dup == "left":
            lk[1028] = lk[3]
        if dup == "right":
            rk[1029] = rk[2]
        if dup == "left-far":
            lk[1037] = lk[1026]
        if dup == "right-far":
            rk[1038] = rk[1025]
        if nl > 5:
            lk[5] = None
        if nr > 3:
            rk[3] = None
        if dup == "bucket-right":            # one key with more than 1000 partners on the right / on the left
            lk, rk = [5, 6, 5, None], [5] * 1040 + [None, 6]
        if dup == "bucket-left":
            lk, rk = [5] * 1040 + [None, 6], [6, 5, None]
        for kind in kinds:
            for e in (expects if (all_expects and not heavy) else [None]):
                i += 1
                if e is None and dup.startswith("bucket") and "many_to_many" in expects:
                    e = "many_to_many"          # the long bucket must be emitted, not refused
                yield mk("big", kind, e or expects[i % len(expects)], [lk], [rk], rng.randrange(NVARIANTS))


def shape_cases(rng, mk, kinds, expects, count):
    """wide tables with the key columns in the middle, key columns whose names are no identifiers (given by exactly that name),
    zero-row sides that have no column at all"""
    for i in range(count):
        nk = rng.choice([1, 2, 2])
        kind = rng.choice(["int", "str", "bool", "date", "datemix", "object"])
        pool = rng.sample(POOLS[kind], min(3, len(POOLS[kind])))
        if all(p is None for p in pool):
            pool.append(next(p for p in POOLS[kind] if p is not None))
        nl, nr = rng.randint(0, 5), rng.randint(0, 5)
        x = {}
        feats = rng.sample(["wide", "names", "nocols"], rng.randint(1, 2))
        v = rng.randrange(NVARIANTS)
        if "wide" in feats:
            x["wide"] = rng.choice([1, 2, 3, 5, 8])
        if "names" in feats:
            names = rng.sample(FANCY_NAMES, 2 * nk)
            x["names"] = dict([(f"k{j}", names[j]) for j in range(nk)] + [(f"r{j}", names[nk + j]) for j in range(nk)])
            if nk == 2 and rng.random() < 0.6:
                a, b = rng.choice(LOOKALIKE)
                x["names"] = {"k0": a, "k1": b, "r0": b, "r1": a}
        if "nocols" in feats:
            sides = rng.choice([[0], [1], [0, 1]])
            x["nocols"] = sides
            if 0 in sides:
                nl = 0
            if 1 in sides:
                nr = 0
            var = _variant(v)
            v = v - var["mode"] * 9 + 2 * 9          # keys outside the tables
        lk, rk = _rand_cols(rng, pool, nk, nl), _rand_cols(rng, pool, nk, nr)
        yield mk("shape", kinds[i % len(kinds)], expects[(i // len(kinds)) % len(expects)], lk, rk, v, x=x)


def expect_object_cases(rng, mk, kinds):
    """expect arguments that are not strings (None, 0, 1, True, bytes, a tuple / list holding a valid value, a float): rejected"""
    i = 0
    for kind in kinds:
        for eo in EXPECT_OBJECTS:
            for lk, rk in (([], []), ([1], [1]), ([1, 2], [2, 3]), ([1, 1], [1, 1]), ([], [1, 1]), ([1, 1], [])):
                i += 1
                yield mk("expectobj", kind, eo, [list(lk)], [list(rk)], (i * 173 + 7) % NVARIANTS, x={"expect_obj": True})


def extra_cases(rng, prefix, kinds, expects, mm=False, swap=False, scale=1, expect_objects=False):
    mk = _maker(prefix, mm, swap)
    kinds, expects = list(kinds), list(expects)
    gens = [klist_cases(rng, mk, kinds, expects, 700 * scale), self2_cases(rng, mk, kinds, expects, 2, 250 * scale),
            shared_cases(rng, mk, kinds, expects, 150 * scale), rename_cases(mk, kinds, expects), replace_cases(mk, kinds, expects),
            shape_cases(rng, mk, kinds, expects, 700 * scale), big_cases(rng, mk, kinds, expects, all_expects=mm)]
    if expect_objects:
        gens.append(expect_object_cases(rng, mk, kinds))
    for g in gens:
        yield from g


MALFORMED = ["missing", "wronglen", "shortlen", "emptylist", "bothempty", "unequal", "tuple", "badspec",
             "float", "complex", "mismatch", "allnone"]


def malformed_stream(rng, kinds, count, fam):
    for i in range(count):
        what = MALFORMED[i % len(MALFORMED)]
        kind = kinds[(i // len(MALFORMED)) % len(kinds)]
        nl, nr = rng.randint(0, 4), rng.randint(0, 4)
        lk = [[rng.choice([0, 1, 2]) for _ in range(nl)]]
        rk = [[rng.choice([0, 1, 2]) for _ in range(nr)]]
        side = rng.randint(0, 1)
        tgt = lk if side == 0 else rk
        if what == "float":
            tgt[0] = [rng.choice([0.5, 1.0, 2.0]) for _ in tgt[0]] or [0.5]
            if side == 0 and not lk[0]: pass
        elif what == "complex":
            tgt[0] = ["C:1" for _ in tgt[0]] or ["C:1"]
        elif what == "mismatch":
            tgt[0] = [rng.choice(["a", "b"]) for _ in tgt[0]] or ["a"]
            other = rk if side == 0 else lk
            if not other[0]:
                other[0] = [1]
        elif what == "allnone":
            tgt[0] = [None for _ in tgt[0]] or [None]
            other = rk if side == 0 else lk
            if not other[0]:
                other[0] = [1]
        v = rng.randrange(NVARIANTS)
        if what in ("missing",):
            v = v - ((v // 9) % 4) * 9          # keys by name
        yield {"fam": fam, "kind": kind, "expect": rng.choice(EXPECTS), "lk": lk, "rk": rk, "v": v,
               "mal": {"what": what, "side": side, "extra": rng.randint(0, 2)}}


# ------------------------------------------------------------------------------------------------
# hash-seed independence (thorough tier): the same string-keyed cases in fresh interpreters
# ------------------------------------------------------------------------------------------------

def hashseed_batch(seed, count):
    """deterministic batch of string-keyed recipes"""
    import random
    rng = random.Random(seed)
    out = []
    for i in range(count):
        nk = rng.choice([1, 2])
        pool = rng.sample(["a", "b", "c", "ab", "ba", "", "é", "zz", None], rng.randint(2, 5))
        nl, nr = rng.randint(1, 12), rng.randint(1, 12)
        lk = [[rng.choice(pool) for _ in range(nl)] for _ in range(nk)]
        rk = [[rng.choice(pool) for _ in range(nr)] for _ in range(nk)]
        for col_l, col_r in zip(lk, rk):        # keep the columns typed str on both sides
            if all(x is None for x in col_l): col_l[0] = "a"
            if all(x is None for x in col_r): col_r[0] = "a"
        out.append({"fam": "hashseed", "kind": ["inner", "left", "full"][i % 3], "expect": "many_to_many",
                    "lk": lk, "rk": rk, "v": rng.randrange(NVARIANTS)})
    return out


def canonical_outputs(specs):
    """canonical (interner-free) outputs of a batch: names, typed reprs of cells, dtypes, or the error class"""
    res = []
    for s in specs:
        x = expand(s)
        try:
            r = getattr(x["L"], METHOD[s["kind"]])(x["R"], x["lon"], x["ron"], expect=s["expect"])
            res.append([list(map(str, r.column_names())), [[type(v).__name__ + ":" + repr(v) for v in c] for c in r.cols()],
                        [repr(c.schema()) for c in r.cols()]])
        except Exception as e:
            res.append(["err", err_class(e)])
    return res


def hashseed_check(seed, count, seeds=(0, 1, 2, 4242)):
    """-> None if every interpreter produced the same canonical outputs, else a description"""
    here = os.path.dirname(os.path.abspath(__file__))
    ref = json.dumps(canonical_outputs(hashseed_batch(seed, count)))
    for hs in seeds:
        env = dict(os.environ, PYTHONHASHSEED=str(hs))
        p = subprocess.run([sys.executable, os.path.join(here, "joincommon.py"), str(seed), str(count)],
                           stdout=subprocess.PIPE, stderr=subprocess.PIPE, text=True, env=env, timeout=300)
        if p.returncode != 0:
            raise RuntimeError("hash-seed subprocess failed: " + p.stderr[-500:])
        if p.stdout.strip() != ref:
            got = json.loads(p.stdout)
            mine = json.loads(ref)
            idx = next((i for i, (a, b) in enumerate(zip(got, mine)) if a != b), -1)
            return f"output under PYTHONHASHSEED={hs} differs from this interpreter's (batch seed {seed}, case {idx})"
    return None


if __name__ == "__main__":
    # child mode of hashseed_check: print the canonical outputs of the batch
    import warnings
    warnings.simplefilter("ignore")
    print(json.dumps(canonical_outputs(hashseed_batch(int(sys.argv[1]), int(sys.argv[2])))))
