"""C13 — window keeps every row in place and agrees with aggregate.  (Machinery shared with C12.)"""
import itertools
from props import c12
from props.c12 import FNS, KW, execute_group, shrink, KNOWN  # noqa: F401

PID = "C13"
RULE = ("win: every table with <=4 rows, one key column over {0,1,None} and a value column over {1,2,None}; two key columns with "
        "<=3 rows (quick) / <=4 rows (thorough); all six built-ins plus a recording custom function; random tables to 60 rows as for "
        "C12 (keys by name / own vector / external vector, 1-3 keys, every subset of aggregate arguments, same column twice, all-None "
        "groups, None keys), one third biased to few keys so that groups interleave with unequal values. For every case the real "
        "window AND the real aggregate are called with the same arguments; the Lean driver compares window with the model and "
        "checks the defining equation window = aggregate joined back on the key on the two real results. malformed: wrong-length "
        "vectors must be rejected; hashseed (thorough): subprocess runs with different PYTHONHASHSEED and string keys. "
        "Gap-analysis additions as for C12 (argument tuples / one-shot iterators, print-alike / hash-equal / temporal keys, many groups, "
        "renamed-through-view tables, warm calls with other keys and value-cell edits); mix: non-int value columns over several groups, "
        "window AND aggregate judged in Python against the textbook functions. "
        "non-trivial = at least two groups one of which has at least two rows")
ASSUMPTIONS = c12.ASSUMPTIONS
TRUSTED = c12.TRUSTED
BUDGET_S = {"quick": 22, "thorough": 330}


def execute(spec):
    if spec.get("mix"):
        return c12.execute_mix(spec, ("window", "aggregate"))
    case, impls, skip = execute_group(spec, ("win", "agg"))
    if skip:
        return {"skip": skip}
    w = {"fam": spec["fam"], "case": case, "impl": {"win": impls["win"], "agg": impls["agg"]}}
    if c12._ARGS_CHANGED:
        w["py_fail"] = "judged in Python: " + c12._ARGS_CHANGED[0]
    return w


def generate(rng, tier):
    yield from c12.exhaustive("win", 1, 4)
    yield from c12.exhaustive("win", 2, 3)
    for i in range(20000 if tier == "quick" else 120000):
        yield c12.random_spec(rng, "win", interleave=(i % 3 != 2))
        if i % 10 == 0:
            yield c12.malformed(rng, "win")
        if i % 8 == 0:
            yield c12.mix_spec(rng, "win")
        if tier == "thorough" and i % 400 == 0:
            yield c12.hashseed_spec(rng, "win")
    if tier == "thorough":
        yield from c12.exhaustive("win", 2, 4, minrows=4)


def nontrivial(spec, wire):
    w = dict(wire, impl=wire["impl"].get("win", {}))
    return c12.nontrivial(spec, w)


def histogram(spec, wire):
    w = dict(wire, impl=wire["impl"].get("win", {}))
    return c12.histogram(spec, w)


def snippet(spec):
    return c12.snippet(spec, ("window", "aggregate"))


LEVEL_TEXT = ("Proof: for every key list and ANY per-group function, window's compute_group_values/expand_to_rows is proved never to "
              "hit a missing key and to give row i exactly the value of aggregate's row for the group of row i's key "
              "(eq_aggregate_expanded), hence equal values within a group; the result has the input's row count, and the key columns are "
              "the input key columns in input order; the whole window result is proved to be the aggregate result joined back on the "
              "key, column by column, with the same names. Sampled only: that table.py behaves as the model and that the real window "
              "and the real aggregate satisfy the join-back equation (exhaustive small tables plus random ones, judged by the Lean driver), "
              "float rounding (1e-9), PYTHONHASHSEED independence (thorough tier).")
LEVEL_NOTE = c12.LEVEL_NOTE
