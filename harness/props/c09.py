"""C09 — inner join returns exactly the key-equal row pairs, in left-major order."""
import itertools
from props import joincommon as jc
from props.joincommon import execute as _execute, nontrivial, histogram, NVARIANTS

PID = "C09"
RULE = ("inner_join on generated table pairs, judged by the Lean model Join.run (index buckets + probe loop) and the Lean "
        "nested-loop specification Join.specRun applied to the implementation's result (cells by identity, row order, "
        "column names, dtypes). Exhaustive: every pair of key-column sets over {0,1,None} with <=3x<=3 rows (1 key column) "
        "and <=2x<=2 rows (2 key columns) [thorough: <=4x<=4, <=3x<=3 resp. and 3 key columns <=2x<=1 / <=1x<=2], each under a rotating "
        "presentation variant (0-2 payload columns per side, keys before/after payload, keys by name / by the table's own "
        "column vector / by a vector not stored in the table, single vs list form, equal names on both sides, unnamed "
        "columns, a payload column repeating the key name); random: 1-3 key columns over int/str/bool/date/datetime/"
        "bool-int-mixed/object-mixed/None with tiny pools, up to 40x40 rows; malformed stream: missing column, wrong-length "
        "key vector, float/complex key, mismatched kinds, all-None vs typed, empty key list, unequal key lists, tuple "
        "argument, non-str/Vector element (must be refused, any error class). Inputs are snapshotted before/after every call. "
        "thorough: string-keyed batches re-run in fresh interpreters under PYTHONHASHSEED 0,1,2,4242. "
        "non-trivial = both sides non-empty, the call returned, and some key matches or repeats"
        ' Further families (joincommon.extra_cases): key lists in another order than the stored columns / with a column listed twice / mixing names, own vectors and external copies, right key columns stored in another order; one table joined with itself on DIFFERENT key columns; two tables keyed by the same external key vector objects; a join, then columns renamed through a view or rename_column (by the new name, by the old name = refused, names exchanged with a payload column), payload cells edited in place or the key column replaced by attribute assignment, then the judged join; sides and single buckets beyond 1000 rows; wide tables with interleaved key columns; key names that are no identifiers or read alike (NFC/NFD, trailing blank, case); zero-row sides without any column; datetime key columns holding raw dates. quick tier: one string-keyed batch of 24 cases re-run under four hash seeds.')
ASSUMPTIONS = ["key components are hashable scalars of exactly the ladder types int/str/bool/date/datetime or None; NaN and "
               "unhashable keys are not generated",
               "key validation (_validate_join_keys) is mirrored in the model only to decide whether the join proceeds; the "
               "theorems are conditional on it passing; the documented refusals (float keys, all-None column against a typed "
               "one, mismatched kinds) are treated as refusals, not judged",
               "key equality is Python ==/hash on the key tuple, supplied to the model as equality-class ids by the harness",
               "by-name key lookup is modelled for plain lower-case names only (first column with exactly that name)"]
TRUSTED = ["Table construction from Vector(list, name=...) and Table.cols()/column_names()/Vector.schema() used to build and "
           "observe the inputs and the result"]
BUDGET_S = {"quick": 22, "thorough": 300}


def _rot(i):
    return (i * 173 + 7) % NVARIANTS


def _small(fam, nk, ml, mr, start=0):
    i = start
    for lk, rk in jc.small_pairs(jc.POOLS["int3"], nk, ml, mr):
        i += 1
        yield {"fam": fam, "kind": "inner", "expect": "many_to_many", "lk": lk, "rk": rk, "v": _rot(i)}


def _random(rng, n):
    for _ in range(n):
        lk, rk = jc.random_keys(rng)
        spec = {"fam": "inner.random", "kind": "inner",
               "expect": "many_to_many" if rng.random() < 0.85 else rng.choice(jc.EXPECTS),
               "lk": lk, "rk": rk, "v": rng.randrange(NVARIANTS)}
        # every 5th random case is run 'warm': an earlier join on the same objects, then in-place key edits
        yield jc.add_warm(rng, spec) if rng.random() < 0.2 else spec


def _hashseed(rng, n):
    for b in range(n):
        yield {"fam": "inner.hashseed", "kind": "inner", "expect": "many_to_many", "lk": [["a"]], "rk": [["a"]], "v": 0,
               "hashseed": {"seed": rng.randrange(10 ** 6), "count": 50}}


def generate(rng, tier):
    thorough = tier == "thorough"
    # always complete: the base exhaustive scopes, once with rotating and (1 key column) once with random presentation
    yield from _small("inner.small", 1, 3, 3)
    yield from _small("inner.small", 2, 2, 2, 1600)
    for lk, rk in jc.small_pairs(jc.POOLS["int3"], 1, 3, 3):
        yield {"fam": "inner.small", "kind": "inner", "expect": "many_to_many", "lk": lk, "rk": rk,
               "v": rng.randrange(NVARIANTS)}
    yield from jc.scripted_warm("inner", kinds=("inner",), expects=["many_to_many", "one_to_one"])
    yield from jc.self_joins("inner", kinds=("inner",), expects=["many_to_many", "one_to_many"])
    yield from jc.malformed_stream(rng, ["inner"], 360 if not thorough else 3600, "inner.malformed")
    # further shapes / states: key-list shapes (permuted, repeated, mixed forms), self-join on different key columns, key vector
    # objects shared by two tables, renames and payload edits between two joins, >1000 rows, wide tables, non-identifier key names
    yield from jc.extra_cases(rng, "inner", ["inner"], ["many_to_many", "many_to_many", "one_to_one", "many_to_one"],
                              scale=1 if not thorough else 10)
    if not thorough:
        # one small string-keyed batch (all three methods) re-run under four hash seeds also in the quick tier
        yield {"fam": "inner.hashseed", "kind": "inner", "expect": "many_to_many", "lk": [["a"]], "rk": [["a"]], "v": 0,
               "hashseed": {"seed": rng.randrange(10 ** 6), "count": 24}}
        yield from _random(rng, 40000)
        return
    # thorough: larger exhaustive scopes, random cases and the hash-seed batches, interleaved
    big = itertools.chain(_small("inner.small4", 1, 4, 4), _small("inner.small3x2", 2, 3, 3),
                          _small("inner.small3k", 3, 2, 1), _small("inner.small3k", 3, 1, 2))
    yield from jc.interleave([big, _random(rng, 250000), _hashseed(rng, 8)], 64)


def execute(spec):
    w = _execute(spec)
    hs = spec.get("hashseed")
    if hs:
        bad = jc.hashseed_check(hs["seed"], hs["count"])
        if bad:
            w["py_fail"] = bad
    return w


def shrink(spec):
    hs = spec.get("hashseed")
    if hs:
        s = dict(spec)
        s.pop("hashseed")
        yield s                                   # is it an ordinary failure of the carrier case?
        if hs["count"] > 1:                       # a prefix of the batch (the batch is generated sequentially)
            yield dict(spec, hashseed={"seed": hs["seed"], "count": hs["count"] // 2})
            yield dict(spec, hashseed={"seed": hs["seed"], "count": hs["count"] - 1})
        return
    yield from jc.shrink(spec)


def snippet(spec):
    hs = spec.get("hashseed")
    if hs:
        return ("# the canonical outputs of this batch of string-keyed joins must not depend on the hash seed:\n"
                f"# for s in 0 1 2 4242; do PYTHONHASHSEED=$s /venv/bin/python harness/props/joincommon.py {hs['seed']} {hs['count']}"
                " | md5sum; done")
    return jc.snippet(spec)


LEVEL_TEXT = ("Proof (Lean 4, for all key lists over any key type with decidable equality, any cell type, no size bound): the "
              "index built by the right-side loop holds for every key exactly the ascending positions of its occurrences "
              "(index_bucket); the rows emitted by the probe loop equal the nested-loop list [(i,j) | i<-L, j<-R, key_L i = key_R j] "
              "as lists, so left-major order is included (pairs_eq_spec), contain every key-equal pair exactly once and nothing "
              "else (pairs_mem_iff, pairs_nodup), do not depend on how the dict stores its buckets (dict_independent); each "
              "output row is the left row followed by the right row and the names are left names then right names (rows, names); "
              "whole-call model = whole-call specification (run_eq_spec). Sampled, not proved: that inner_join behaves like the "
              "model (differential run, exhaustive small scopes + random), that inputs are left unmodified, hash-seed independence.")
LEVEL_NOTE = ("Trusted: Lean kernel, axioms propext/Classical.choice/Quot.sound only; harness + extractor; CPython dict "
              "semantics (lookup by ==/hash, insertion order), represented by an association list. Key validation is mirrored, "
              "not proved; theorems are conditional on it passing. Unhashable/NaN keys, nested tables and subclass elements are "
              "not modelled.")
