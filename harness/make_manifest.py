"""Write MANIFEST.json from the property modules that exist (run after adding a check)."""
import os, sys, json, importlib
HERE = os.path.dirname(os.path.abspath(__file__))
VERIF = os.path.dirname(HERE)
sys.path.insert(0, HERE)
sys.path.insert(0, "/repo/src")

ALL = [f"C{n:02d}" for n in range(1, 21)]
BASELINE = json.load(open("/root/.vp/BASELINE.json"))["cmd"]

checks, na = [], []
for pid in ALL:
    path = os.path.join(HERE, "props", pid.lower() + ".py")
    lean = os.path.join(VERIF, "lean", "Serif", "Props", pid + ".lean")
    if not (os.path.exists(path) and os.path.exists(lean)):
        na.append({"property_id": pid, "reason": "check not built yet in this round (planned: Lean model + theorems + correspondence, DESIGN.md section 5)"})
        continue
    mod = importlib.import_module("props." + pid.lower())
    checks.append({
        "property_id": pid,
        "quick_cmd": f"./check {pid} --tier quick",
        "thorough_cmd": f"./check {pid} --tier thorough",
        "evidence_file": f"evidence/{pid}.json",
        "replay_cmd_template": f"./check {pid} --replay {{path}}",
        "engine": "lean4-proof+correspondence",
        "level_claimed": {"category": "proof", "text": mod.LEVEL_TEXT, "design_ref": f"DESIGN.md section 5 ({pid})"},
        "level_note": mod.LEVEL_NOTE,
        "technique": getattr(mod, "TECHNIQUE", "Lean 4 theorems about a hand-written executable model; model tied to the code by "
                             "constants regenerated from the source on every run, by statement-by-statement translations of the source (harness/py2lean.py, "
                             "harness/tr/*.py -> lean/Serif/Gen/Translated*.lean) proved equal to the model in lean/Serif/Tie/*.lean, and by "
                             "differential correspondence judged by the Lean driver"),
    })

man = {
    "version": 1,
    "setup_cmd": "cd lean && /venv/bin/python ../harness/extract_consts.py && lake build && /venv/bin/python ../harness/build_ties.py",
    "hooks": {"guard": "SERIF_VERIF", "enable": "no source hooks are needed: the harness imports serif from /repo/src in-process and reads "
              "private attributes read-only; SERIF_VERIF=1 is set by the checks but nothing in /repo reads it",
              "baseline_off_cmd": BASELINE, "source_commits": [], "add_only": True},
    "engines": [{"name": "lean4-proof+correspondence", "path": "check", "serves_properties": [c["property_id"] for c in checks],
                 "kind_free_text": "Lean 4.33 (core only) model + theorems in lean/, compiled driver lean/Driver.lean, Python harness in harness/"}],
    "checks": checks,
    "not_applicable": na,
    "notes": "Every check regenerates lean/Serif/Gen/Consts.lean from /repo, rebuilds, audits axioms, then runs the correspondence. "
             "Exit 0 held / 1 violation / 2 infrastructure failure. Fix commits made in /repo are listed in known_findings.json under 'fixed'.",
}
json.dump(man, open(os.path.join(VERIF, "MANIFEST.json"), "w"), indent=1)
print("claimed:", [c["property_id"] for c in checks])
