/-
  Line protocol driver.  One JSON object per input line:
    {"id":n, "p":"C04", "fam":"infer", "case":{…}, "impl":…}
  One JSON object per output line:
    {"id":n, "ok":bool, "why":"…", "model":…}   or   {"id":n, "error":"…"}
  `ok` is the verdict of the executable specification/model on the implementation's result.
-/
import Serif.Wire
import Serif.Drive.C04
import Serif.Drive.C01
import Serif.Drive.C02
import Serif.Drive.C16
import Serif.Drive.C14
import Serif.Drive.C15
import Serif.Drive.C19
import Serif.Drive.C20
import Serif.Drive.C17
import Serif.Drive.C05
import Serif.Drive.C06
import Serif.Drive.C08
import Serif.Drive.C09
import Serif.Drive.C10
import Serif.Drive.C11
import Serif.Drive.C12
import Serif.Drive.C13
import Serif.Drive.C07
import Serif.Drive.C03
import Serif.Drive.C18
open Lean Serif.Wire

def dispatch (p fam : String) (c impl : Json) : P Json :=
  match p with
  | "C04" => Serif.Drive.C04.handle fam c impl
  | "C01" => Serif.Drive.C01.handle fam c impl
  | "C02" => Serif.Drive.C02.handle fam c impl
  | "C16" => Serif.Drive.C16.handle fam c impl
  | "C14" => Serif.Drive.C14.handle fam c impl
  | "C15" => Serif.Drive.C15.handle fam c impl
  | "C19" => Serif.Drive.C19.handle fam c impl
  | "C20" => Serif.Drive.C20.handle fam c impl
  | "C17" => Serif.Drive.C17.handle fam c impl
  | "C05" => Serif.Drive.C05.handle fam c impl
  | "C06" => Serif.Drive.C06.handle fam c impl
  | "C08" => Serif.Drive.C08.handle fam c impl
  | "C09" => Serif.Drive.C09.handle fam c impl
  | "C10" => Serif.Drive.C10.handle fam c impl
  | "C11" => Serif.Drive.C11.handle fam c impl
  | "C12" => Serif.Drive.C12.handle fam c impl
  | "C13" => Serif.Drive.C13.handle fam c impl
  | "C07" => Serif.Drive.C07.handle fam c impl
  | "C03" => Serif.Drive.C03.handle fam c impl
  | "C18" => Serif.Drive.C18.handle fam c impl
  | _ => .error s!"unknown property {p}"

def answer (line : String) : Json :=
  match Json.parse line with
  | .error e => Json.mkObj [("id", Json.null), ("error", Json.str s!"parse: {e}")]
  | .ok j =>
    let id := fieldD j "id" Json.null
    let r : P Json := do
      let p ← strF j "p"
      let fam ← strF j "fam"
      dispatch p fam (fieldD j "case" Json.null) (fieldD j "impl" Json.null)
    match r with
    | .ok v => v.setObjVal! "id" id
    | .error e => Json.mkObj [("id", id), ("error", Json.str e)]

partial def loop (hin hout : IO.FS.Stream) : IO Unit := do
  let line ← hin.getLine
  if line.isEmpty then return ()
  if line.trimAscii.isEmpty then loop hin hout else
  hout.putStrLn (answer line).compress
  hout.flush
  loop hin hout

def main : IO Unit := do loop (← IO.getStdin) (← IO.getStdout)
