-- Root of the `Serif` library: models, proofs, property theorems, driver handlers.
import Serif.Prelude
import Serif.Wire
import Serif.Model.DType
import Serif.Proofs.Lattice
import Serif.Proofs.DType
import Serif.Gen.Consts
import Serif.Props.C04
import Serif.Model.ObjHeap
import Serif.Proofs.ObjHeap
import Serif.Props.C01
import Serif.Drive.C04
import Serif.Drive.C01
import Serif.Model.Tab
import Serif.Proofs.Tab
import Serif.Props.C02
import Serif.Drive.C02
