/-
  JSON helpers for the line protocol (harness ↔ driver).  Not part of any theorem.
-/
import Lean.Data.Json
import Serif.Prelude
open Lean

namespace Serif.Wire

abbrev P := Except String

def field (j : Json) (k : String) : P Json :=
  match j.getObjVal? k with
  | .ok v => .ok v
  | .error _ => .error s!"missing field {k}"

def fieldD (j : Json) (k : String) (d : Json) : Json :=
  match j.getObjVal? k with
  | .ok v => v
  | .error _ => d

def asNat (j : Json) : P Nat :=
  match j.getNat? with
  | .ok v => .ok v
  | .error _ => .error s!"expected nat, got {j.compress}"

def asInt (j : Json) : P Int :=
  match j.getInt? with
  | .ok v => .ok v
  | .error _ => .error s!"expected int, got {j.compress}"

def asBool (j : Json) : P Bool :=
  match j.getBool? with
  | .ok v => .ok v
  | .error _ => .error s!"expected bool, got {j.compress}"

def asStr (j : Json) : P String :=
  match j.getStr? with
  | .ok v => .ok v
  | .error _ => .error s!"expected string, got {j.compress}"

def asArr (j : Json) : P (List Json) :=
  match j.getArr? with
  | .ok v => .ok v.toList
  | .error _ => .error s!"expected array, got {j.compress}"

def asList {α} (f : Json → P α) (j : Json) : P (List α) := do
  (← asArr j).mapM f

def asOpt {α} (f : Json → P α) (j : Json) : P (Option α) :=
  if j.isNull then .ok none else some <$> f j

def natF (j : Json) (k : String) : P Nat := do asNat (← field j k)
def intF (j : Json) (k : String) : P Int := do asInt (← field j k)
def boolF (j : Json) (k : String) : P Bool := do asBool (← field j k)
def strF (j : Json) (k : String) : P String := do asStr (← field j k)
def listF {α} (f : Json → P α) (j : Json) (k : String) : P (List α) := do asList f (← field j k)

def asPair {α β} (f : Json → P α) (g : Json → P β) (j : Json) : P (α × β) := do
  match ← asArr j with
  | [a, b] => return (← f a, ← g b)
  | _ => .error s!"expected pair, got {j.compress}"

/-- dtype on the wire: `null` (no dtype) or `[kindcode, nullable]` -/
def asDType (j : Json) : P (Option DType) :=
  asOpt (fun j => do
    let (k, n) ← asPair asNat asBool j
    return { kind := Kind.ofCode k, nullable := n }) j

def ofDType : Option DType → Json
  | none => Json.null
  | some d => Json.arr #[toJson d.kind.code, Json.bool d.nullable]

def ofNatList (l : List Nat) : Json := Json.arr (l.map (fun n => toJson n)).toArray
def ofIntList (l : List Int) : Json := Json.arr (l.map (fun n => toJson n)).toArray
def ofOptNat : Option Nat → Json
  | none => Json.null
  | some n => toJson n
def ofList {α} (f : α → Json) (l : List α) : Json := Json.arr (l.map f).toArray
def ofOptStr : Option String → Json
  | none => Json.null
  | some s => Json.str s

/-- verdict object returned for each case -/
def verdict (ok : Bool) (why : String) (model : Json := Json.null) : Json :=
  Json.mkObj [("ok", Json.bool ok), ("why", Json.str why), ("model", model)]

end Serif.Wire
