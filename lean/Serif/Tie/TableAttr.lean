/-
  Translation tie for attribute access on tables (C17): how an accessor name reaches a column.

  `_parse_indexed_attr`, `Table._fresh_column_map`, `Table._swap_columns`, `Table.__getattr__`, `Table.__setattr__`, `Table.__dir__`,
  `Table.column_names`, `Row.__getattr__` and the str branch of `Row.__getitem__`, translated statement by statement from the
  source (`Serif/Gen/TranslatedTableAttr.lean`, written by harness/tr/tableattr.py on every run), are — instantiated with the
  model's primitives (`ops` below) — the model's `parseIndexedAttr`, `fresh`, `resolveAttr`, `resolveSetAttr`, `resolveRow`,
  `resolveSetItem` and the `getattr` / `replace` / `dir` / `row` transitions of `step`, for every naming state and every accessor
  string.  Hence the C17 theorems (`getattr_resolves_to_own_index`, `setitem_key_resolves_to_own_index`, `history_lookup_correct`)
  are theorems about the translation: `getattr_own_index`, `setattr_own_index`, `row_own_index`, `history_own_index`.

  The instantiation `ops`: `str.rpartition('__')` is the model's `rpartition` (with Python's `('', '', s)` when the separator is
  absent), `str.isdigit` is `allDigits`, `int` is `natOfDigits`, `str.lower` is the identity (the model lives after `.lower()`:
  accessor strings are over `[a-z0-9_]`, and a sanitised name is), `_sanitize_user_name` on a str or None is `baseForIndexed`
  (`sanitizeCore` on a str: tied in Serif/Tie/Sanitize.lean), `Table._build_column_map()` returns `buildColumnMap` of the stored
  names (tied in Serif/Tie/ColumnMap.lean) and marks every column tame.
-/
import Serif.Gen.TranslatedTableAttr
import Serif.Props.C17

namespace Serif.Tie
open Serif Serif.Names Serif.Gen.TAt

/-- the model's primitives for what the translated functions ask of objects they do not own -/
def ops : Ops where
  rpartition := fun s => match rpartition s with
    | none => ([], [], s)
    | some (b, suf) => (b, ['_', '_'], suf)
  isdigit := allDigits
  int_of := natOfDigits
  lower := id
  sanitize := baseForIndexed
  build_column_map := fun s => (buildColumnMap s.lowers, { s with wild := s.cols.map (fun _ => false) })

/-- a model lookup result as what `Table.__getattr__` / `Row.__getattr__` return or raise -/
def gotOfLook : Look → Except Err Got
  | .col i => .ok (.col i)
  | .attrErr => .error Err.attr
  | .fallback => .ok .super

/-- a model lookup result as what `Table.__setattr__` does (no fallback there: AttributeError) -/
def setOfLook : Look → Except Err SetOut
  | .col i => .ok (.replaced i)
  | _ => .error Err.attr

/-- a model lookup result as what `Row.__getitem__` with a str key returns or raises (SerifKeyError) -/
def itemOfLook : Look → Except Err Got
  | .col i => .ok (.col i)
  | _ => .error Err.key

/-- the model's `Parsed` as the pair `_parse_indexed_attr` returns -/
def pairOfParsed (attr : Str) : Parsed → Except Err (Option Str × Option Nat)
  | .plain => .ok (some attr, none)
  | .indexed b i => .ok (b, some i)
  | .bad => .error Err.attr

/-! ### small facts about the Python built-ins as translated -/

theorem wildTest_eq (w : List Bool) :
    (if w.isEmpty then [] else w).any (fun col_wild => col_wild) = w.any id := by
  cases w <;> rfl

theorem isPrefixOf_col (a : Str) : ("col".toList).isPrefixOf a = (a.take 3 == ['c', 'o', 'l']) := by
  show (['c', 'o', 'l'] : Str).isPrefixOf a = _
  match a with
  | [] => rfl
  | [x] => simp [List.isPrefixOf]
  | [x, y] => simp [List.isPrefixOf]
  | x :: y :: z :: r =>
    simp only [List.isPrefixOf, List.take, Bool.and_true]
    rw [BEq.comm (a := 'c'), BEq.comm (a := 'o'), BEq.comm (a := 'l')]
    simp

theorem pySlice_3_1 (a : Str) : pySlice a 3 1 = (a.drop 3).dropLast := by
  unfold pySlice
  rw [List.dropLast_eq_take, List.drop_take, List.length_drop]
  have h : a.length - 1 - 3 = a.length - 3 - 1 := by omega
  rw [h]

theorem orGet_eq (m : Dict Str Nat) (a : Str) :
    (let x := Dict.get? m a; if truthy x = true then x else Dict.get? m (id a)) = Dict.get? m a := by
  simp only [id]
  cases h : Dict.get? m a with
  | none => simp [truthy]
  | some v => cases v <;> simp [truthy]

theorem orGet_eq' (m : Dict Str Nat) (a : Str) :
    (if truthy (Dict.get? m a) = true then Dict.get? m a else Dict.get? m (ops.lower a)) = Dict.get? m a := by
  show (if truthy (Dict.get? m a) = true then Dict.get? m a else Dict.get? m a) = Dict.get? m a
  split <;> rfl

theorem set_getD_self {α} (l : List α) (i : Nat) (d : α) : l.set i (l.getD i d) = l := by
  induction l generalizing i with
  | nil => rfl
  | cons x xs ih =>
    cases i with
    | zero => rfl
    | succ j => simp only [List.set_cons_succ, List.getD_cons_succ, ih]

theorem lowers_length (s : TState) : s.lowers.length = s.cols.length := by simp [TState.lowers]

/-! ### `_parse_indexed_attr` -/

theorem ops_rpartition_none {s : Str} (h : rpartition s = none) : ops.rpartition s = ([], [], s) := by
  simp [ops, h]

theorem ops_rpartition_some {s b suf : Str} (h : rpartition s = some (b, suf)) :
    ops.rpartition s = (b, ['_', '_'], suf) := by
  simp [ops, h]

/-- `_parse_indexed_attr`, translated, is the model's `parseIndexedAttr` for every attribute string -/
theorem parseIndexedAttr_eq (attr : Str) :
    parseIndexedAttrT ops attr = pairOfParsed attr (parseIndexedAttr attr) := by
  unfold parseIndexedAttrT parseIndexedAttr
  cases hr : rpartition attr with
  | none => rw [ops_rpartition_none hr]; simp [pairOfParsed]
  | some p =>
    obtain ⟨base, suffix⟩ := p
    rw [ops_rpartition_some hr]
    simp only [ops]
    by_cases hd : allDigits suffix = true
    · by_cases hb : base.isEmpty = true
      · simp [pairOfParsed, hd, hb]
      · simp [pairOfParsed, baseForIndexed, hd, hb]
    · simp [pairOfParsed, hd]

/-! ### `Table._fresh_column_map`, `Table._swap_columns` -/

theorem rebuildStep_eq (s : TState) :
    ({ (ops.build_column_map s).2 with cache := (ops.build_column_map s).1 } : TState) = rebuild s := rfl

/-- the conditional rebuild at the head of `__getattr__` / in `_fresh_column_map` is the model's `fresh` -/
theorem freshStep_eq (s : TState) :
    (if (if s.wild.isEmpty then [] else s.wild).any (fun col_wild => col_wild) = true
      then ({ (ops.build_column_map s).2 with cache := (ops.build_column_map s).1 } : TState) else s) = fresh s := by
  rw [wildTest_eq, rebuildStep_eq]; rfl

/-- `Table._fresh_column_map`, translated, returns the cache of the model's `fresh` table and leaves that table -/
theorem freshColumnMap_eq (s : TState) : freshColumnMapT ops s = ((fresh s).cache, fresh s) := by
  unfold freshColumnMapT
  simp only []
  rw [freshStep_eq]

/-- `Table._swap_columns`, translated: the new columns with a rebuilt map, every column tame -/
theorem swapColumns_eq (s : TState) (cols : List (Option Name)) (wild : List Bool) :
    swapColumnsT ops s (cols, wild) = rebuild { s with cols := cols, wild := wild } := rfl

/-- replacing column `i` by a snapshot that is given the stored name of column `i` leaves the stored names as they are:
    the table after the replacement block of `__setattr__` is the model's `rebuild` -/
theorem swap_replace_eq (s : TState) (i : Nat) (w : Bool) :
    swapColumnsT ops s (s.cols.set i (s.cols.getD i none), s.wild.set i w) = rebuild s := by
  rw [swapColumns_eq, set_getD_self]; rfl

/-! ### `Table.__getattr__` -/

/-- the indexed branch, as translated, against the model's `resolveIndexed` -/
theorem indexedBranch_eq (s : TState) (base : Option Str) (i : Nat) :
    (if (decide (i < 0) || decide (i ≥ s.cols.length)) = true then (s, (.error Err.attr : Except Err Got))
     else match s.lowers[i]? with
      | none => (s, .error Err.index)
      | some col_name =>
        match base with
        | none => (s, .error Err.attr)
        | some base_name =>
          if (ops.sanitize col_name != some (ops.lower base_name)) = true then (s, .error Err.attr)
          else (s, .ok (Got.col i)))
    = (s, gotOfLook (resolveIndexed s.lowers base i)) := by
  unfold resolveIndexed
  rw [lowers_length]
  by_cases h : i < s.cols.length
  · have hl : i < s.lowers.length := by rw [lowers_length]; exact h
    have hge : ¬ (i ≥ s.cols.length) := by omega
    simp only [Nat.not_lt_zero, decide_false, hge, Bool.or_self, Bool.false_eq_true, if_false, h, if_true,
      List.getElem?_eq_getElem hl, List.getD_eq_getElem?_getD, Option.getD_some]
    cases base with
    | none => rfl
    | some b =>
      simp only [ops, id]
      by_cases hb : baseForIndexed s.lowers[i] = some b
      · simp [hb, gotOfLook]
      · simp [hb, gotOfLook]
  · have hge : i ≥ s.cols.length := by omega
    simp [h, hge, gotOfLook]

/-- the `col<N>_` test of `__getattr__`, as translated, is the model's `colNDigits` -/
theorem colTest_eq (attr : Str) :
    (("col".toList).isPrefixOf attr && (attr.getLast? == some '_') && ops.isdigit (pySlice attr 3 1))
      = (colNDigits attr).isSome ∧
    ∀ ds, colNDigits attr = some ds → pySlice attr 3 1 = ds := by
  rw [isPrefixOf_col, pySlice_3_1]
  unfold colNDigits endsWithU
  simp only [ops]
  split
  · rename_i h; exact ⟨by simp [h], fun ds hds => by simpa using hds⟩
  · rename_i h; exact ⟨by simpa using h, fun ds hds => by simp at hds⟩

/-- `Table.__getattr__`, translated, on a built table: the table afterwards is the model's `fresh` table, and what is returned or
    raised is the model's `resolveAttr` on it — for every naming state and every attribute string -/
theorem tableGetattr_eq (s : TState) (attr : Str) :
    tableGetattrT ops true s attr = (fresh s, gotOfLook (resolveAttr (fresh s).lowers (fresh s).cache attr)) := by
  unfold tableGetattrT
  simp only [Bool.not_true, Bool.false_eq_true, if_false]
  rw [freshStep_eq]
  generalize fresh s = s1
  rw [parseIndexedAttr_eq]
  unfold resolveAttr
  cases parseIndexedAttr attr with
  | bad => rfl
  | indexed base i =>
    simp only [pairOfParsed]
    exact indexedBranch_eq s1 base i
  | plain =>
    simp only [pairOfParsed]
    obtain ⟨hc, hds⟩ := colTest_eq attr
    rw [hc]
    cases hcn : colNDigits attr with
    | some ds =>
      simp only [Option.isSome_some, if_true, hds ds hcn, ops]
      by_cases h : natOfDigits ds < s1.cols.length
      · simp [h, lowers_length, gotOfLook]
      · simp [h, lowers_length, gotOfLook]
    | none =>
      simp only [Option.isSome_none, Bool.false_eq_true, if_false, ops]
      rw [orGet_eq, getOr_eq]
      cases Dict.get? s1.cache attr <;> rfl

/-- … which is the `getattr` transition of the model's state machine -/
theorem tableGetattr_step (s : TState) (attr : Str) :
    (tableGetattrT ops true s attr).1 = (step s (.getattr attr)).1 ∧
    (step s (.getattr attr)).2 = .look (resolveAttr (fresh s).lowers (fresh s).cache attr) ∧
    (tableGetattrT ops true s attr).2 = gotOfLook (resolveAttr (fresh s).lowers (fresh s).cache attr) := by
  rw [tableGetattr_eq]; exact ⟨rfl, rfl, rfl⟩

/-- an instance that is still being built (no `_underlying` yet) answers AttributeError and is left alone -/
theorem tableGetattr_unbuilt (s : TState) (attr : Str) :
    tableGetattrT ops false s attr = (s, .error Err.attr) := by
  unfold tableGetattrT; rfl

/-! ### `Table.__setattr__` -/

/-- the snapshot taken by `__setattr__`: `Vector(value)` for a non-Vector, `value.copy()` for a Vector -/
def snapshot {V : Type} (is_vector : V → Bool) (vector_of copy : V → Col) (value : V) : Col :=
  if !(is_vector value) then vector_of value else copy value

/-- what the model's `replace` transition says, as the table afterwards and what `__setattr__` did or raised -/
def setattrSpec (s1 : TState) : Look → TState × Except Err SetOut
  | .col i => (rebuild s1, .ok (.replaced i))
  | _ => (s1, .error Err.attr)

theorem fresh_cols (s : TState) : (fresh s).cols = s.cols := by
  unfold fresh; split <;> rfl

/-- the indexed branch with any continuation `K` for the validated column -/
theorem indexedBranch_gen {β : Type} (s : TState) (base : Option Str) (i : Nat) (A B K : β) :
    (if (decide (i < 0) || decide (i ≥ s.cols.length)) = true then A
     else match s.lowers[i]? with
      | none => B
      | some col_name =>
        match base with
        | none => A
        | some base_name =>
          if (ops.sanitize col_name != some (ops.lower base_name)) = true then A else K)
    = (match resolveIndexed s.lowers base i with | .col _ => K | _ => A) ∧
    ∀ j, resolveIndexed s.lowers base i = .col j → j = i := by
  unfold resolveIndexed
  rw [lowers_length]
  by_cases h : i < s.cols.length
  · have hl : i < s.lowers.length := by rw [lowers_length]; exact h
    have hge : ¬ (i ≥ s.cols.length) := by omega
    simp only [Nat.not_lt_zero, decide_false, hge, Bool.or_self, Bool.false_eq_true, if_false, h, if_true,
      List.getElem?_eq_getElem hl, List.getD_eq_getElem?_getD, Option.getD_some]
    cases base with
    | none => exact ⟨rfl, fun j hj => by cases hj⟩
    | some b =>
      simp only [ops, id]
      by_cases hb : baseForIndexed s.lowers[i] = some b
      · simp [hb]
      · simp [hb]
  · have hge : i ≥ s.cols.length := by omega
    simp [h, hge]

/-- the replacement block of `__setattr__` (snapshot, length guard passed, `cols[i] = value` with the stored name of column `i`,
    `_swap_columns`): the model's `rebuild` of the same stored names -/
theorem replaceBlock_eq {V : Type} (is_vector : V → Bool) (vector_of copy : V → Col) (length : Nat) (s1 : TState) (i : Nat)
    (value : V)
    (hlen : s1.cols = [] ∨ (snapshot is_vector vector_of copy value).len = length) :
    (let value : Col := if (!(is_vector value)) = true then vector_of value else copy value
     if (!s1.cols.isEmpty && decide (value.len ≠ length)) = true then (s1, (.error Err.value : Except Err SetOut))
     else
       let cols := (s1.cols, s1.wild)
       let value := { value with name := s1.cols.getD i none }
       let cols := (cols.1.set i value.name, cols.2.set i value.wild)
       let s := swapColumnsT ops s1 cols
       (s, .ok (SetOut.replaced i))) = (rebuild s1, .ok (.replaced i)) := by
  simp only []
  rw [swap_replace_eq]
  change (if (!s1.cols.isEmpty && decide ((snapshot is_vector vector_of copy value).len ≠ length)) = true then _ else _) = _
  generalize snapshot is_vector vector_of copy value = v at hlen ⊢
  split
  · rename_i hc
    exfalso
    simp only [Bool.and_eq_true, Bool.not_eq_eq_eq_not, Bool.not_true, List.isEmpty_eq_false_iff, decide_eq_true_eq] at hc
    rcases hlen with h | h
    · exact hc.1 h
    · exact hc.2 h
  · rfl

/-- `Table.__setattr__`, translated, after initialisation, for a name that is not an instance attribute and a value of the table's
    length: the table afterwards and the column replaced (or AttributeError) are those of the model's `resolveSetAttr` on the
    `fresh` table — for every naming state and every attribute string -/
theorem tableSetattr_eq {V : Type} (is_vector : V → Bool) (vector_of copy : V → Col) (length : Nat) (s : TState) (attr : Str)
    (value : V) (hattr : instanceAttrsT.contains attr = false)
    (hlen : s.cols = [] ∨ (snapshot is_vector vector_of copy value).len = length) :
    tableSetattrT ops is_vector vector_of copy true length s attr value
      = setattrSpec (fresh s) (resolveSetAttr (fresh s).lowers (fresh s).cache attr) := by
  unfold tableSetattrT
  simp only [hattr, Bool.false_eq_true, if_false, if_true]
  rw [freshColumnMap_eq]
  rw [← fresh_cols s] at hlen
  generalize fresh s = s1 at hlen ⊢
  simp only []
  rw [parseIndexedAttr_eq]
  unfold resolveSetAttr
  cases parseIndexedAttr attr with
  | bad => rfl
  | indexed base i =>
    simp only [pairOfParsed]
    refine Eq.trans (indexedBranch_gen s1 base i _ _ _).1 ?_
    cases h : resolveIndexed s1.lowers base i with
    | col j =>
      have hj := (indexedBranch_gen (β := Unit) s1 base i () () ()).2 j h
      subst hj
      exact replaceBlock_eq is_vector vector_of copy length s1 j value hlen
    | attrErr => rfl
    | fallback => rfl
  | plain =>
    simp only [pairOfParsed]
    rw [orGet_eq', getOr_eq]
    cases Dict.get? s1.cache attr with
    | none => rfl
    | some i => exact replaceBlock_eq is_vector vector_of copy length s1 i value hlen

/-- … which is the `replace` transition of the model's state machine -/
theorem setattrSpec_step (s : TState) (attr : Str) :
    (setattrSpec (fresh s) (resolveSetAttr (fresh s).lowers (fresh s).cache attr)).1 = (step s (.replace attr)).1 ∧
    (setattrSpec (fresh s) (resolveSetAttr (fresh s).lowers (fresh s).cache attr)).2
      = setOfLook (resolveSetAttr (fresh s).lowers (fresh s).cache attr) ∧
    (step s (.replace attr)).2 = .look (resolveSetAttr (fresh s).lowers (fresh s).cache attr) := by
  simp only [step]
  cases resolveSetAttr (fresh s).lowers (fresh s).cache attr <;> exact ⟨rfl, rfl, rfl⟩

/-- the names of the first test go to `object.__setattr__`, whatever the table -/
theorem tableSetattr_instance {V : Type} (is_vector : V → Bool) (vector_of copy : V → Col) (b : Bool) (length : Nat) (s : TState)
    (attr : Str) (value : V) (hattr : instanceAttrsT.contains attr = true) :
    tableSetattrT ops is_vector vector_of copy b length s attr value = (s, .ok .instance_attr) := by
  unfold tableSetattrT; simp only [hattr, if_true]

/-- before `_column_map` is set every other name is refused -/
theorem tableSetattr_uninitialised {V : Type} (is_vector : V → Bool) (vector_of copy : V → Col) (length : Nat) (s : TState)
    (attr : Str) (value : V) (hattr : instanceAttrsT.contains attr = false) :
    tableSetattrT ops is_vector vector_of copy false length s attr value = (s, .error Err.attr) := by
  unfold tableSetattrT; simp only [hattr, Bool.false_eq_true, if_false]

/-- no identifier accessor is one of the instance-attribute names (they all start with `_`) -/
theorem ident_not_instanceAttr {a : Str} (h : isIdent a = true) : instanceAttrsT.contains a = false := by
  have hall : ∀ x ∈ instanceAttrsT, x.head? = some '_' := by decide
  cases hc : instanceAttrsT.contains a with
  | false => rfl
  | true =>
    exfalso
    have hm : a ∈ instanceAttrsT := by simpa using hc
    have hh := hall a hm
    cases a with
    | nil => cases hh
    | cons c cs =>
      simp only [List.head?_cons, Option.some.injEq] at hh
      subst hh
      simp [isIdent, isLower] at h

/-! ### `Table.__dir__`, `Table.column_names`, `Row` -/

/-- `Table.__dir__`, translated: the `dir` transition of the model (the map is rebuilt and kept), and the names listed are the
    accessors of the current stored names followed by `object.__dir__(self)` -/
theorem tableDir_eq (base_attrs : List Str) (s : TState) :
    tableDirT ops base_attrs s = ((step s .dir).1, accessors s.lowers ++ base_attrs) ∧
    (step s .dir).2 = .names (accessors s.lowers) := by
  refine ⟨?_, step_dir.1⟩
  unfold tableDirT
  simp only []
  show (rebuild s, Dict.keys (buildColumnMap s.lowers) ++ base_attrs) = _
  rw [keys_buildColumnMap]
  rfl

/-- `Table.column_names`, translated, returns the stored names as they are -/
theorem columnNames_eq (s : TState) : columnNamesT s = s.cols := by
  unfold columnNamesT; simp

/-- `Row.__getattr__`, translated, is the model's `resolveRow` for every map and attribute string -/
theorem rowGetattr_eq (map : Dict Str Nat) (attr : Str) :
    rowGetattrT ops map attr = gotOfLook (resolveRow map attr) := by
  unfold rowGetattrT resolveRow
  simp only [ops, id]
  cases Dict.get? map attr <;> rfl

/-- the str branch of `Row.__getitem__`, translated, resolves like the model's `resolveSetItem` (a missing column is SerifKeyError) -/
theorem rowGetitemStr_eq (map : Dict Str Nat) (key : Str) :
    rowGetitemStrT ops map key = itemOfLook (resolveSetItem map key) := by
  unfold rowGetitemStrT resolveSetItem
  rw [getOr_eq]
  simp only [ops, id]
  cases h : Dict.get? map key <;> simp [itemOfLook]

/-! ### every advertised accessor reaches the column at its own position — read on the translation -/

/-- `getattr_resolves_to_own_index` on the translation: on a table whose cached map is not stale, `getattr(t, accessor of column k)`
    as translated returns column `k` -/
theorem getattr_own_index (s : TState) (hf : Fresh s) (k : Nat) (a : Str) (h : (accessors s.lowers)[k]? = some a) :
    (tableGetattrT ops true s a).2 = .ok (.col k) := by
  rw [tableGetattr_eq, fresh_lowers hf, (fresh_spec hf).2.1, C17.getattr_resolves_to_own_index _ k a h]
  rfl

/-- `setitem_key_resolves_to_own_index` (attribute assignment) on the translation: `t.<accessor of column k> = v` as translated
    replaces column `k`, keeps the stored names, and leaves a fresh map -/
theorem setattr_own_index {V : Type} (is_vector : V → Bool) (vector_of copy : V → Col) (length : Nat) (s : TState) (hf : Fresh s)
    (value : V) (hlen : s.cols = [] ∨ (snapshot is_vector vector_of copy value).len = length)
    (k : Nat) (a : Str) (h : (accessors s.lowers)[k]? = some a) :
    (tableSetattrT ops is_vector vector_of copy true length s a value).2 = .ok (.replaced k) ∧
    (tableSetattrT ops is_vector vector_of copy true length s a value).1.cols = s.cols ∧
    Fresh (tableSetattrT ops is_vector vector_of copy true length s a value).1 := by
  have hid : isIdent a = true := C17.accessors_valid _ a (List.mem_of_getElem? h)
  rw [tableSetattr_eq is_vector vector_of copy length s a value (ident_not_instanceAttr hid) hlen,
    fresh_lowers hf, (fresh_spec hf).2.1, (C17.setitem_key_resolves_to_own_index _ k a h).2.1]
  exact ⟨rfl, (fresh_spec hf).1, rebuild_Fresh _⟩

/-- row access on the translation: `row.<accessor>` and `row['<accessor>']` give the cell of column `k` -/
theorem row_own_index (names : List (Option Str)) (k : Nat) (a : Str) (h : (accessors names)[k]? = some a) :
    rowGetattrT ops (buildColumnMap names) a = .ok (.col k) ∧ rowGetitemStrT ops (buildColumnMap names) a = .ok (.col k) := by
  obtain ⟨h1, _, h3⟩ := C17.setitem_key_resolves_to_own_index names k a h
  rw [rowGetattr_eq, rowGetitemStr_eq, h1, h3]
  exact ⟨rfl, rfl⟩

/-- `history_lookup_correct` on the translation: after ANY history of renames, renames through views, replacements, appends, `dir()`
    calls and lookups, `dir(t)` as translated lists exactly the accessors of the current stored names (before `object.__dir__`),
    and every one of them, given to the translated `__getattr__`, returns the column at its own position -/
theorem history_own_index (init : List (Option Name)) (hist : List Op) (base_attrs : List Str) :
    let s := (run (mkTable init) hist).1
    (tableDirT ops base_attrs s).2 = accessors s.lowers ++ base_attrs ∧
    ∀ k a, (accessors s.lowers)[k]? = some a →
      (tableGetattrT ops true s a).2 = .ok (.col k) ∧
      rowGetattrT ops (freshColumnMapT ops s).1 a = .ok (.col k) := by
  intro s
  have hf : Fresh s := C17.map_fresh init hist
  refine ⟨by rw [(tableDir_eq base_attrs s).1], fun k a h => ⟨getattr_own_index s hf k a h, ?_⟩⟩
  rw [freshColumnMap_eq]
  show rowGetattrT ops (fresh s).cache a = _
  rw [(fresh_spec hf).2.1]
  exact (row_own_index s.lowers k a h).1

/-! ### non-vacuity: the translated functions on concrete inputs -/

deriving instance DecidableEq for Except

private def N (i : Nat) (s : String) : Option Name := some ⟨i, s.toList⟩
private def T0 : TState := mkTable [N 1 "sum", N 2 "sum", N 3 "a b", none]
private def vec (len : Nat) : Col := ⟨N 9 "other", true, len⟩

example : parseIndexedAttrT ops "total__5".toList = .ok (some "total".toList, some 5) := by decide
example : parseIndexedAttrT ops "total__abc".toList = .ok (some "total__abc".toList, none) := by decide
example : parseIndexedAttrT ops "__5".toList = .error Err.attr := by decide
example : (accessors T0.lowers).map String.ofList = ["sum_", "sum__1", "a_b", "col3_"] := by decide
example : (tableGetattrT ops true T0 "sum__1".toList).2 = .ok (.col 1) := by decide
example : (tableGetattrT ops true T0 "sum__0".toList).2 = .ok (.col 0) := by decide
example : (tableGetattrT ops true T0 "a_b__1".toList).2 = .error Err.attr := by decide
example : (tableGetattrT ops true T0 "sum__7".toList).2 = .error Err.attr := by decide
example : (tableGetattrT ops true T0 "col3_".toList).2 = .ok (.col 3) := by decide
example : (tableGetattrT ops true T0 "col9_".toList).2 = .error Err.attr := by decide
example : (tableGetattrT ops true T0 "a_b".toList).2 = .ok (.col 2) := by decide
example : (tableGetattrT ops true T0 "nothing".toList).2 = .ok .super := by decide
/-- a column renamed through a live view (`wild`): the lookup rebuilds the map first -/
example : (tableGetattrT ops true (step T0 (.view 2 (N 5 "zz"))).1 "zz".toList).2 = .ok (.col 2) := by decide
example : (tableSetattrT ops (fun _ => true) vec vec true 4 T0 "a_b".toList 4).2 = .ok (.replaced 2) := by decide
example : (tableSetattrT ops (fun _ => true) vec vec true 4 T0 "a_b".toList 4).1.cols = T0.cols := by decide
example : (tableSetattrT ops (fun _ => true) vec vec true 4 T0 "a_b".toList 3).2 = .error Err.value := by decide
example : (tableSetattrT ops (fun _ => true) vec vec true 4 T0 "col3_".toList 4).2 = .ok (.replaced 3) := by decide
example : (tableSetattrT ops (fun _ => true) vec vec true 4 T0 "zzz".toList 4).2 = .error Err.attr := by decide
example : (tableSetattrT ops (fun _ => true) vec vec true 4 T0 "_dtype".toList 4).2 = .ok .instance_attr := by decide
example : (tableDirT ops ["shape".toList] T0).2.map String.ofList = ["sum_", "sum__1", "a_b", "col3_", "shape"] := by decide
example : columnNamesT T0 = [N 1 "sum", N 2 "sum", N 3 "a b", none] := by decide
example : rowGetattrT ops T0.cache "sum__1".toList = .ok (.col 1) := by decide
example : rowGetitemStrT ops T0.cache "sum_".toList = .ok (.col 0) := by decide
example : rowGetitemStrT ops T0.cache "sum".toList = .error Err.key := by decide
/-- the hypotheses of `tableSetattr_eq` / `setattr_own_index` are satisfiable -/
example : Fresh T0 ∧ (T0.cols = [] ∨ (snapshot (fun _ => true) vec vec 4).len = 4) ∧ (accessors T0.lowers)[2]? = some "a_b".toList :=
  ⟨fresh_mkTable _, Or.inr rfl, by decide⟩

end Serif.Tie
